#!/bin/bash
# Offline build of the whole Coq development (full .vo), from files on disk only.
set -e
cd "$(dirname "$0")"
mkdir -p build evidence replays
export PYTHONHASHSEED=0 PYTHONDONTWRITEBYTECODE=1
/venv/bin/python - <<'PY'
import sys, os
sys.path.insert(0, "tools")
import translate, runner
translate.generate(list(translate.REGISTRY), "/repo", os.path.join("coq", "gen"))
runner.refresh_makefile()
PY
timeout 3000 make -C coq -j16 -k || true
echo setup done
