"""C09 — proxied traffic follows the documented routing and never leaks outside it.

case = {"proxy_scheme": http|https, "dest_scheme": http|https, "forwarding": bool, "proxy_headers": {..}, "headers": {..},
        "proxy_cert": ok|bad, "origin_cert": ok|bad, "connect": [status, ...] (one per CONNECT, 0 = garbage), "ipv6": bool,
        "close_after": [bool, ...] (does the server close the connection after response i), "nreq": 1..3, "retries": False|1,
        "proxy_pin": absent | "right" | "wrong" (proxy_assert_fingerprint: the SHA-256 of the certificate the https proxy presents, or of another one)}
TLS is not run: urllib3.connection.ssl_wrap_socket is replaced by a recorder that counts the layers on a socket, notes the
server name asked for and fails with SSLCertVerificationError where the case says the certificate is bad.
Observation: every message the network saw (connection, TLS layers around it, request line, which header groups it carries,
Host header) and how each request ended."""
from __future__ import annotations

import hashlib

from sexp import S, B, Opt

ID = "C09"
GEN = ["Gen_Proxy"]
RULE = ("proxy scheme x destination scheme x use_forwarding_for_https x proxy certificate ok/bad x origin certificate ok/bad x CONNECT answered "
        "200/403/407/502/garbage x proxy_headers (none, Proxy-Authorization, plus a custom one) x request headers (none, X-App, Authorization) x "
        "destination host name / IPv6 literal x 1-3 requests with the server closing the connection in between x retries False/1; "
        "non-trivial = every case; distinct = distinct (case, observation)")
TRUSTED_BASE = [
    "model coq/model/ProxyRoute.v (connection_requires_http_tunnel, ProxyManager.connection_from_host / urlopen / _set_proxy_headers, HTTPSConnectionPool._prepare_proxy, "
    "HTTPSConnection.connect's order of TLS-to-proxy, CONNECT, TLS-to-origin, the error wrapping of urlopen) ",
    "TLS is not run: a certificate is good or bad as the case says; http.client's _tunnel is below the model (CONNECT line + tunnel headers, non-200 -> OSError)",
]
ASSUMPTIONS = ["proxy at proxy.example:3128, destination dest.example (or [2001:db8::7]) on the default port", "no caller-supplied SSLContext and no fingerprint for the origin (C07); a wrong proxy_assert_fingerprint is given to the model as a proxy certificate that does not verify"]
EXHAUSTIVE = {"quick": False, "thorough": False}
CASE_TIMEOUT = 30

STATUS_TEXT = {200: "Connection established", 403: "Forbidden", 407: "Proxy Authentication Required", 502: "Bad Gateway"}


def encode(case):
    ph = sorted(case["proxy_headers"].items())
    rh = sorted(case["headers"].items())
    return [B(case["proxy_scheme"] == "https"), B(case["dest_scheme"] == "https"), B(case["forwarding"]),
            B("Proxy-Authorization" in case["proxy_headers"]), B("X-Proxy" in case["proxy_headers"]),
            B("X-App" in case["headers"]), B("Authorization" in case["headers"]),
            B(case["proxy_cert"] == "ok" and not (case.get("proxy_pin") == "wrong" and case["proxy_scheme"] == "https")), B(case["origin_cert"] == "ok"), [c for c in case["connect"]], B(case["ipv6"]),
            [B(x) for x in case["close_after"]], case["nreq"], case["retries"] if case["retries"] is not False else 0, B(case["retries"] is not False)]


def describe(case):
    return case


_STASH = {}


def impl(case):
    import ssl
    import urllib3
    import urllib3.connection as uconn
    import urllib3.util.retry as ur
    from netsim.fakesock import installed, Net, Peer, http_response

    dest_host = "[2001:db8::7]" if case["ipv6"] else "dest.example"
    messages = []
    problems = []
    connects = list(case["connect"])
    state = {"responses": 0}

    class Net9(Net):
        def connect(self, sock, host, port):
            sock.tls_layers = 0
            sock.tunnelled = False
            buf = bytearray()

            def on_data(peer, data):
                buf.extend(data)
                while b"\r\n\r\n" in buf:
                    head, _, rest = bytes(buf).partition(b"\r\n\r\n")
                    del buf[:len(head) + 4]
                    lines = head.split(b"\r\n")
                    names = [l.split(b":", 1)[0].strip().lower() for l in lines[1:]]
                    hostv = [l.split(b":", 1)[1].strip().decode("latin-1") for l in lines[1:] if l.lower().startswith(b"host:")]
                    messages.append([sock.ordinal, sock.tls_layers, S(lines[0].decode("latin-1")),
                                     B(b"proxy-authorization" in names), B(b"x-proxy" in names), B(b"x-app" in names), B(b"authorization" in names),
                                     [S(h) for h in hostv], B(sock.tunnelled)])
                    if lines[0].startswith(b"CONNECT "):
                        st = connects.pop(0) if connects else 200
                        if st == 0:
                            peer.send(b"\x01\x02 this is not http\r\n\r\n")
                        elif st == 200:
                            sock.tunnelled = True
                            peer.send(b"HTTP/1.1 200 Connection established\r\n\r\n")
                        else:
                            peer.send(http_response(st, STATUS_TEXT.get(st, "X"), [], b"denied"))
                        continue
                    i = state["responses"]
                    state["responses"] += 1
                    if case.get("redirect") and i == 0:
                        peer.send(http_response(302, "Found", [("Location", "https://%s/moved" % dest_host)], b""))
                        continue
                    peer.send(http_response(200, "OK", [], b"ok"))
                    if i < len(case["close_after"]) and case["close_after"][i]:
                        peer.eof()
            return Peer(on_data)

    net = Net9()

    def fake_wrap(sock, server_hostname=None, ssl_context=None, tls_in_tls=False, **kw):
        to_proxy = server_hostname == "proxy.example"
        bad = (case["proxy_cert"] == "bad") if to_proxy else (case["origin_cert"] == "bad")
        if bad:
            raise ssl.SSLCertVerificationError(1, "[SSL: CERTIFICATE_VERIFY_FAILED] certificate verify failed (fake)")
        sock.tls_layers += 1
        der = b"proxy-certificate" if to_proxy else b"origin-certificate"
        sock.getpeercert = lambda binary_form=False: (der if binary_form else {})
        sock.version = lambda: "TLSv1.3"
        return sock

    class FakeTime:
        @staticmethod
        def sleep(x):
            pass

        @staticmethod
        def time():
            return 1.7e9
    old_wrap, old_time = uconn.ssl_wrap_socket, ur.time
    uconn.ssl_wrap_socket = fake_wrap
    ur.time = FakeTime
    outcomes = []
    try:
        with installed(net):
            pin = {}
            if case.get("proxy_pin"):
                pin["proxy_assert_fingerprint"] = hashlib.sha256(b"proxy-certificate" if case["proxy_pin"] == "right" else b"another-certificate").hexdigest()
            pm = urllib3.ProxyManager("%s://proxy.example:3128" % case["proxy_scheme"], proxy_headers=dict(case["proxy_headers"]) or None,
                                      use_forwarding_for_https=case["forwarding"], **pin)
            url = "%s://%s/res" % (case["dest_scheme"], dest_host)
            shared_headers = dict(case["headers"])       # one mapping re-used for every request of a redirect case
            for i in range(case["nreq"]):
                try:
                    if case.get("redirect"):
                        r = pm.request("GET", url + str(i), headers=shared_headers, redirect=True)
                    else:
                        r = pm.request("GET", url + str(i), headers=dict(case["headers"]) or None, retries=case["retries"], redirect=False)
                    outcomes.append([0])
                except urllib3.exceptions.MaxRetryError as e:
                    outcomes.append([3, S(type(e.reason).__name__)])
                except urllib3.exceptions.ProxyError as e:
                    outcomes.append([1, S(type(e.original_error).__name__)])
                except urllib3.exceptions.SSLError:
                    outcomes.append([2])
                except urllib3.exceptions.HTTPError as e:
                    outcomes.append([4, S(type(e).__name__)])
                except Exception as e:
                    outcomes.append([5, S(type(e).__name__)])
                    problems.append("request #%d failed with a raw %s: %s" % (i, type(e).__name__, str(e)[:80]))
        return [messages, outcomes]
    finally:
        uconn.ssl_wrap_socket = old_wrap
        ur.time = old_time
        _STASH[id(case)] = problems


def in_model_domain(case):
    """the model has one destination per case; a redirect from a forwarded http URL to a tunnelled https one is judged by the oracle only"""
    return not case.get("redirect")


def oracle(case, obs):
    problems = _STASH.pop(id(case), [])
    if problems:
        return problems[0]
    msgs, outs = obs
    if case.get("redirect"):
        for m in msgs:
            conn, layers, line, pa, xp, xa, au, hostv, tunnelled = m
            if tunnelled and (pa or xp):
                return "a proxy header (%s) was sent inside the tunnel after a redirect from a forwarded request" % ("Proxy-Authorization" if pa else "X-Proxy")
            if bytes(line).startswith(b"CONNECT ") and (xa or au):
                return "the CONNECT request carries the caller's request headers"
        return None

    def T(x):
        return bytes(x).decode("latin-1") if isinstance(x, list) else x
    host = "[2001:db8::7]" if case["ipv6"] else "dest.example"
    https_dest = case["dest_scheme"] == "https"
    https_proxy = case["proxy_scheme"] == "https"
    forwarding_opted = https_proxy and case["forwarding"]
    must_tunnel = https_dest and not forwarding_opted
    proxy_layers = 1 if https_proxy else 0
    connected = {}          # conn -> the CONNECT was seen (and answered, in order)
    answers = list(case["connect"])
    for m in msgs:
        conn, layers, line, pa, xp, xa, au, hostv, tunnelled = m
        line = T(line)
        if line.startswith("CONNECT "):
            if not must_tunnel:
                return "a CONNECT was sent although the route is forwarding"
            if line != "CONNECT %s:443 HTTP/1.1" % host:
                return "CONNECT names %r, the destination is %s:443" % (line, host)
            if layers != proxy_layers:
                return "CONNECT was written inside %d TLS layers, the proxy is %s" % (layers, case["proxy_scheme"])
            if xa or au:
                return "the CONNECT request carries the caller's request headers"
            connected[conn] = (answers.pop(0) if answers else 200)
            continue
        if must_tunnel:
            if connected.get(conn) != 200:
                return "an https request was written on connection %d without a successful CONNECT on it" % conn
            if not line.startswith("GET /"):
                return "the request inside the tunnel is not origin-form: %r" % line
            if layers != proxy_layers + 1:
                return "the request to the https origin was written inside %d TLS layers instead of %d" % (layers, proxy_layers + 1)
            if case["origin_cert"] == "bad":
                return "a request was sent to an origin whose certificate does not verify"
            if pa or xp:
                return "a proxy header (%s) was sent inside the tunnel" % ("Proxy-Authorization" if pa else "X-Proxy")
        else:
            want = "GET %s://%s/res" % (case["dest_scheme"], host)
            if not line.startswith(want):
                return "the forwarded request is not absolute-form: %r" % line
            if layers != proxy_layers:
                return "the forwarded request was written inside %d TLS layers, the proxy is %s" % (layers, case["proxy_scheme"])
        if https_proxy and case["proxy_cert"] == "bad":
            return "a message was sent through a proxy whose certificate does not verify"
        if https_proxy and case.get("proxy_pin") == "wrong":
            return "a message was sent through a proxy whose certificate is not the pinned one (proxy_assert_fingerprint)"
    for i, o in enumerate(outs):
        kind = o[0]
        if kind in (4, 5):
            return "request #%d ended in %s, not in ProxyError / SSLError" % (i, T(o[1]) if len(o) > 1 else kind)
    n_ok = sum(1 for o in outs if o[0] == 0)
    n_req = sum(1 for m in msgs if not T(m[2]).startswith("CONNECT "))
    if n_ok != n_req:
        return "%d requests ended normally but %d request messages were written" % (n_ok, n_req)
    return None


def signature(case, obs, msg):
    return {"msg": (msg or "")[:50]}


def nontrivial(case, obs):
    return hashlib.sha1(repr((case, obs)).encode()).hexdigest()[:16]


def histogram(cases, obss):
    h = {"route": {}, "outcome": {}, "connect": {}}
    names = {0: "ok", 1: "ProxyError", 2: "SSLError", 3: "MaxRetryError", 4: "other urllib3 error", 5: "raw"}
    for c, o in zip(cases, obss):
        k = "%s proxy / %s dest%s" % (c["proxy_scheme"], c["dest_scheme"], " / forwarding" if c["forwarding"] else "")
        h["route"][k] = h["route"].get(k, 0) + 1
        for st in c["connect"][:1]:
            h["connect"][st] = h["connect"].get(st, 0) + 1
        for r in (o[1] if o else []):
            h["outcome"][names.get(r[0])] = h["outcome"].get(names.get(r[0]), 0) + 1
    return h


def one_case(rng):
    n = rng.choice([1, 2, 3])
    ph = rng.choice([{}, {"Proxy-Authorization": "Basic dTpw"}, {"Proxy-Authorization": "Basic dTpw", "X-Proxy": "1"}])
    rh = rng.choice([{}, {"X-App": "1"}, {"Authorization": "Bearer t", "X-App": "1"}])
    return {"proxy_scheme": rng.choice(["http", "https"]), "dest_scheme": rng.choice(["http", "https", "https"]), "forwarding": rng.random() < 0.3,
            "proxy_headers": ph, "headers": rh, "proxy_cert": "bad" if rng.random() < 0.15 else "ok", "origin_cert": "bad" if rng.random() < 0.15 else "ok",
            "connect": [rng.choice([200, 200, 200, 403, 407, 502, 0]) for _ in range(4)], "ipv6": rng.random() < 0.2,
            "close_after": [rng.random() < 0.4 for _ in range(n)], "nreq": n, "retries": rng.choice([False, False, 1])}


def cases(rng, tier):
    out = []
    for ps in ("http", "https"):
        for ds in ("http", "https"):
            for fw in (False, True):
                for pc in ("ok", "bad"):
                    for oc in ("ok", "bad"):
                        for st in (200, 403, 407, 502, 0):
                            for close in (False, True):
                                out.append({"proxy_scheme": ps, "dest_scheme": ds, "forwarding": fw, "proxy_headers": {"Proxy-Authorization": "Basic dTpw", "X-Proxy": "1"},
                                            "headers": {"X-App": "1", "Authorization": "Bearer t"}, "proxy_cert": pc, "origin_cert": oc, "connect": [st, 200, 200], "ipv6": False,
                                            "close_after": [close, False], "nreq": 2, "retries": False})
    # a forwarded http request redirected to the https origin (a tunnel), with one headers mapping re-used
    for ps in ("http", "https"):
        for ph in ({"Proxy-Authorization": "Basic dTpw", "X-Proxy": "1"}, {"X-Proxy": "1"}, {}):
            for rh in ({}, {"X-App": "1"}, {"Authorization": "Bearer t", "X-App": "1"}):
                out.append({"proxy_scheme": ps, "dest_scheme": "http", "forwarding": False, "proxy_headers": ph, "headers": rh, "proxy_cert": "ok", "origin_cert": "ok",
                            "connect": [200, 200], "ipv6": False, "close_after": [False, False, False], "nreq": 2, "retries": False, "redirect": True})
    # the proxy's certificate pinned (proxy_assert_fingerprint): it counts on every route that ends its TLS at the proxy
    for ds in ("http", "https"):
        for fw in (False, True):
            for pin in ("right", "wrong"):
                for ps in ("https", "http"):
                    for close in (False, True):
                        out.append({"proxy_scheme": ps, "dest_scheme": ds, "forwarding": fw, "proxy_headers": {"Proxy-Authorization": "Basic dTpw"}, "headers": {"X-App": "1"},
                                    "proxy_cert": "ok", "origin_cert": "ok", "connect": [200, 200, 200], "ipv6": False, "close_after": [close, False], "nreq": 2, "retries": False,
                                    "proxy_pin": pin})
    for _ in range(4000 if tier == "quick" else 100000):
        out.append(one_case(rng))
    for _ in range(600 if tier == "quick" else 15000):
        c = one_case(rng)
        c["proxy_pin"] = rng.choice(["right", "wrong"])
        out.append(c)
    return out


def shrinks(case):
    if case["nreq"] > 1:
        c = dict(case); c["nreq"] = case["nreq"] - 1
        yield c
