"""C17 — RecentlyUsedContainer / PoolManager pool cache.

case kinds
  {"kind":"seq","maxsize":m,"ops":[...]}                 container, one thread
  {"kind":"conc","maxsize":m,"progs":[[...],...],"seed":s,"pm":bool}
        2-3 real threads under a token-passing scheduler (preemption at every
        outermost lock acquire/release and at every dispose callback); the
        observed order of critical sections is part of the observation and is
        given to the model (LruConc) as the schedule.
  {"kind":"pm","num_pools":n,"ops":[["goc",k,tag],["clear"]]}   PoolManager.connection_from_url / clear
  {"kind":"pmreq","num_pools":n,"ops":[["req",k,keep],["clear"]]}  real requests over the in-memory network (keep-alive responses, read to
        their end); keep = the caller keeps the finished response object.  Judged by the oracle only: after the history and a gc, every socket of a
        pool that is no longer cached must be closed, every idle socket of a cached pool open.
ops: ["get",k] ["set",k,v] ["del",k] ["len"] ["clear"] ["keys"] ["mget",k] ["contains",k] ["pop",k] ["setdefault",k,v] ["goc",k,tag]
"""
from __future__ import annotations

import gc
import hashlib
import itertools
import random
import weakref

ID = "C17"
GEN = []
RULE = ("op sequences over 4 keys and maxsize 0..3 on the real RecentlyUsedContainer (each followed by a drain suffix of fresh "
        "insertions that makes the internal order observable through dispose order), scheduled 2-3 thread runs, and PoolManager "
        "connection_from_url/clear histories with gc; non-trivial = at least one dispose or KeyError or hit; distinct = distinct (ops, observation)")
TRUSTED_BASE = [
    "model coq/model/Lru.v (OrderedDict = list oldest-first; Mapping/MutableMapping mixins get/__contains__/pop/setdefault as CPython defines them); coq/model/LruConc.v encodes RLock mutual exclusion as atomic critical sections (trusted runtime)",
    "weakref.finalize / garbage collection: the clause 'evicted pool has its sockets closed once unused' is checked on the implementation only (oracle), not proved",
]
ASSUMPTIONS = ["RLock provides mutual exclusion", "keys are hashable ints in the harness; PoolManager keys are PoolKey tuples mapped to origin indices"]
EXHAUSTIVE = {"quick": False, "thorough": False}
CASE_TIMEOUT = 30

OPC = {"get": 0, "set": 1, "del": 2, "len": 3, "clear": 4, "keys": 5, "mget": 6, "contains": 7, "pop": 8, "setdefault": 9, "goc": 10}


def enc_op(o):
    return [OPC[o[0]]] + list(o[1:])


def encode(case, obs=None):
    if case["kind"] == "seq":
        return [0, case["maxsize"], [enc_op(o) for o in case["ops"]]]
    if case["kind"] == "pm":
        return [2, case["num_pools"], [enc_op(o) for o in case["ops"]]]
    if case["kind"] in ("pmreq", "pmkw"):
        return [2, case["num_pools"], []]          # (never sent to the model)
    order = obs[0] if (obs and isinstance(obs, list) and obs and isinstance(obs[0], list)) else []
    return [1, case["maxsize"], [[enc_op(o) for o in p] for p in case["progs"]], order]


ENCODE_WITH_OBS = True


def describe(case):
    return case


# ---------------------------------------------------------------- implementation
def apply_container(c, o):
    t = o[0]
    try:
        if t == "get":
            return [1, c[o[1]]]
        if t == "set":
            c[o[1]] = o[2]
            return [0]
        if t == "del":
            del c[o[1]]
            return [0]
        if t == "len":
            return [3, len(c)]
        if t == "clear":
            c.clear()
            return [0]
        if t == "keys":
            return [4, sorted(c.keys())]
        if t == "mget":
            v = c.get(o[1])
            return [0] if v is None else [1, v]
        if t == "contains":
            return [5, 1 if o[1] in c else 0]
        if t == "pop":
            return [1, c.pop(o[1])]
        if t == "setdefault":
            return [1, c.setdefault(o[1], o[2])]
    except KeyError:
        return [2]
    raise ValueError(o)


def impl_seq(case):
    from urllib3._collections import RecentlyUsedContainer
    disposed = []
    c = RecentlyUsedContainer(case["maxsize"], dispose_func=disposed.append)
    out = []
    for o in case["ops"]:
        del disposed[:]
        r = apply_container(c, o)
        out.append([r, list(disposed), sorted(c.keys()), len(c)])
    return out


class FakeConn:
    """stands for an open connection sitting in a pool"""
    instances = None

    def __init__(self, **kw):
        self.closed = False
        self.sock = object()
        self.is_connected = True
        self.is_closed = False
        self.proxy_is_verified = None
        self.has_connected_to_proxy = False

    def close(self):
        self.closed = True
        self.sock = None
        self.is_connected = False


def url_of(k):
    return "http://host%d.example:80%d/" % (k, k)


def make_pm(num_pools, tagbox, registry):
    import urllib3
    from urllib3.connectionpool import HTTPConnectionPool

    pm = urllib3.PoolManager(num_pools=num_pools)
    orig = pm._new_pool

    def new_pool(scheme, host, port, request_context=None):
        p = orig(scheme, host, port, request_context=request_context)
        p._verif_tag = tagbox[0]
        p.ConnectionCls = FakeConn
        conn = p._get_conn()
        p._put_conn(conn)           # one idle open connection in the pool
        registry.append((tagbox[0], weakref.ref(p), conn))
        return p
    pm._new_pool = new_pool
    return pm


def pm_audit(pm, registry):
    """implementation-only check of the gc clause; returns a message or None"""
    cached = set()
    with pm.pools.lock:
        for p in list(pm.pools._container.values()):
            cached.add(p._verif_tag)
            if p.pool is None:
                return "a pool that is still cached (tag %s) has been closed" % p._verif_tag
    for tag, ref, conn in registry:
        if tag in cached and conn.closed:
            return "connection of cached pool %s closed behind the caller's back" % tag
    gc.collect()
    for tag, ref, conn in registry:
        if tag not in cached:
            if not conn.closed:
                return "pool %s was evicted/cleared and is unreferenced, but its idle connection is still open after gc" % tag
    return None


def impl_pm(case):
    tagbox = [None]
    registry = []
    pm = make_pm(case["num_pools"], tagbox, registry)
    out = []
    for o in case["ops"]:
        if o[0] == "goc":
            tagbox[0] = o[2]
            p = pm.connection_from_url(url_of(o[1]))
            out.append([[1, p._verif_tag], len(pm.pools)])
            del p
        else:
            pm.clear()
            out.append([[0], len(pm.pools)])
    audit = pm_audit(pm, registry)
    return out, audit


def impl_pmkw(case):
    """connection_from_url with and without per-request pool_kwargs whose dict-valued settings are written in either order"""
    import urllib3
    pm = urllib3.PoolManager(num_pools=case["num_pools"])
    seen = []
    out = []
    for o in case["ops"]:
        kw = None
        if o[0] == "gock":
            items = [("A", "1"), ("B", "2"), ("C", "3")]
            if o[2]:
                items.reverse()
            kw = {"headers": dict(items)}
        p = pm.connection_from_url(url_of(o[1]), pool_kwargs=kw)
        for i, q in enumerate(seen):
            if q is p:
                out.append([i, len(pm.pools)]); break
        else:
            seen.append(p); out.append([len(seen) - 1, len(pm.pools)])
    return out


def impl_pmreq(case):
    import urllib3
    from netsim.fakesock import installed, Net, Peer, http_response

    class NetK(Net):
        def connect(self, sock, host, port):
            sock.origin = int(host[4:host.index(".")])

            def on_data(peer, data):
                peer.buf = getattr(peer, "buf", b"") + data
                while b"\r\n\r\n" in peer.buf:
                    peer.buf = peer.buf.split(b"\r\n\r\n", 1)[1]
                    if failing.get(sock.origin):
                        failing[sock.origin] = False
                        peer.eof()                     # the server drops the connection instead of answering
                        return
                    peer.send(http_response(200, "OK", [], b"ok"))
            return Peer(on_data)

    net = NetK()
    failing = {}
    kept = []
    held = []
    out = []
    with installed(net):
        pm = urllib3.PoolManager(num_pools=case["num_pools"], maxsize=case.get("maxsize", 1))
        for o in case["ops"]:
            if o[0] == "hold":
                # a streamed response the caller has not read yet: it owns its connection
                held.append(pm.request("GET", url_of(o[1]), retries=False, preload_content=False))
                out.append([[1, held[-1].status], len(pm.pools)])
            elif o[0] == "finish":
                if held:
                    r = held.pop(0)
                    r.read()
                    r.release_conn()
                    del r
                out.append([[2], len(pm.pools)])
            elif o[0] == "fail":
                failing[o[1]] = True
                try:
                    pm.request("GET", url_of(o[1]), retries=False)
                    out.append([[3, 0], len(pm.pools)])
                except urllib3.exceptions.HTTPError:
                    out.append([[3, 1], len(pm.pools)])
                failing[o[1]] = False
            elif o[0] == "req":
                r = pm.request("GET", url_of(o[1]), retries=False)
                out.append([[1, r.status], len(pm.pools)])
                if o[2]:
                    kept.append((o[1], r))
                del r
            else:
                pm.clear()
                out.append([[0], len(pm.pools)])
        while held:
            r = held.pop(0)
            r.read()
            r.release_conn()
            del r
        idle = {}
        with pm.pools.lock:
            for p in pm.pools._container.values():
                for c in list(p.pool.queue):
                    if c is not None and getattr(c, "sock", None) is not None:
                        idle[id(c.sock)] = c.sock
        gc.collect()
        audit = None
        for sk in net.socks:
            k = getattr(sk, "origin", None)
            if k is None:
                continue
            if id(sk) not in idle and not sk.really_closed:
                pinned = any(getattr(c, "sock", None) is sk for kk, r in kept if getattr(r, "_pool", None) is not None and r._pool.pool is not None
                             for c in list(r._pool.pool.queue) if c is not None)
                audit = ("a pool for origin %d is no longer cached and nothing uses it, but its idle socket is still open after gc%s"
                         % (k, " (the caller still holds a finished, released response of that pool)" if pinned else ""))
                break
            if id(sk) in idle and sk.really_closed:
                audit = "an idle socket of the cached pool for origin %d was closed behind the caller's back" % k
                break
        del kept[:]
    return out, audit


def impl_conc(case):
    from urllib3._collections import RecentlyUsedContainer
    from netsim.locksched import Sched, SchedRLock
    rng = random.Random(case["seed"])
    sched = Sched(rng)
    disposed = []
    problems = []
    nthreads = len(case["progs"])
    results = [[] for _ in range(nthreads)]
    if case.get("pm"):
        tagbox_by_thread = {}
        registry = []
        import threading

        class TB:
            def __getitem__(self, i):
                return tagbox_by_thread.get(threading.get_ident())

            def __setitem__(self, i, v):
                tagbox_by_thread[threading.get_ident()] = v
        tb = TB()
        pm = make_pm(case["maxsize"], tb, registry)
        lock = SchedRLock(sched)
        pm.pools.lock = lock
        cont = pm.pools

        def prog(i):
            def run():
                for o in case["progs"][i]:
                    if o[0] == "goc":
                        tb[0] = o[2]
                        p = pm.connection_from_url(url_of(o[1]))
                        results[i].append([1, p._verif_tag])
                    else:
                        pm.clear()
                        results[i].append([0])
            return run
    else:
        lock = SchedRLock(sched)

        def dispose(v):
            if lock.owned_by_me():
                problems.append("dispose_func(%r) called while the container lock is held" % (v,))
            else:
                sched.yield_point()
            disposed.append(v)
        cont = RecentlyUsedContainer(case["maxsize"], dispose_func=dispose)
        cont.lock = lock

        def prog(i):
            def run():
                for o in case["progs"][i]:
                    results[i].append(apply_container(cont, o))
            return run
    ok = sched.run([prog(i) for i in range(nthreads)])
    if not ok:
        problems.append("threads did not finish (deadlock/hang)")
    for i, e in sched.errors:
        problems.append("thread %d raised %s" % (i, e))
    order = [t for (k, t) in sched.events if k == "cs"]
    keys = sorted(cont._container.keys()) if not case.get("pm") else sorted(_origin_index(k) for k in cont._container.keys())
    undone = sum(len(p) for p in case["progs"]) - sum(len(r) for r in results)
    if case.get("pm"):
        # the model's "disposed" for a PoolManager = pools no longer cached
        cached = set(p._verif_tag for p in cont._container.values())
        dis = sorted(tag for tag, ref, conn in registry if tag not in cached)
        a = pm_audit(pm, registry)
        if a:
            problems.append(a)
    else:
        dis = sorted(disposed)
    return [order, results, keys, dis, undone], problems


def _origin_index(poolkey):
    return int(poolkey.key_host[len("host"):].split(".")[0])


def impl(case):
    if case["kind"] == "seq":
        return impl_seq(case)
    if case["kind"] == "pm":
        out, audit = impl_pm(case)
        _STASH[id(case)] = audit
        return out + ([[[9, 9]]] if False else [])
    if case["kind"] == "pmreq":
        out, audit = impl_pmreq(case)
        _STASH[id(case)] = audit
        return out
    if case["kind"] == "pmkw":
        return impl_pmkw(case)
    obs, problems = impl_conc(case)
    _STASH[id(case)] = problems
    return obs


def in_model_domain(case):
    return case["kind"] not in ("pmreq", "pmkw")


_STASH = {}


# ---------------------------------------------------------------- oracle (independent reference LRU)
class RefLRU:
    def __init__(self, maxsize):
        self.maxsize = maxsize
        self.items = []          # [key, value], least recently used first
        self.disposed = []

    def _find(self, k):
        for i, (kk, v) in enumerate(self.items):
            if kk == k:
                return i
        return None

    def touch(self, k):
        i = self._find(k)
        if i is None:
            raise KeyError(k)
        it = self.items.pop(i)
        self.items.append(it)
        return it[1]

    def put(self, k, v):
        i = self._find(k)
        if i is not None:
            old = self.items.pop(i)
            self.items.append([k, v])
            self.disposed.append(old[1])
            return
        self.items.append([k, v])
        if len(self.items) > self.maxsize:
            self.disposed.append(self.items.pop(0)[1])

    def delete(self, k):
        i = self._find(k)
        if i is None:
            raise KeyError(k)
        self.disposed.append(self.items.pop(i)[1])

    def apply(self, o):
        t = o[0]
        try:
            if t == "get":
                return [1, self.touch(o[1])]
            if t == "set":
                self.put(o[1], o[2]); return [0]
            if t == "del":
                self.delete(o[1]); return [0]
            if t == "len":
                return [3, len(self.items)]
            if t == "clear":
                self.disposed += [v for k, v in self.items]; self.items = []; return [0]
            if t == "keys":
                return [4, sorted(k for k, v in self.items)]
            if t == "mget":
                try:
                    return [1, self.touch(o[1])]
                except KeyError:
                    return [0]
            if t == "contains":
                try:
                    self.touch(o[1]); return [5, 1]
                except KeyError:
                    return [5, 0]
            if t == "pop":
                v = self.touch(o[1]); self.delete(o[1]); return [1, v]
            if t in ("setdefault", "goc"):
                try:
                    return [1, self.touch(o[1])]
                except KeyError:
                    self.put(o[1], o[2]); return [1, o[2]]
        except KeyError:
            return [2]
        raise ValueError(o)


def oracle(case, obs):
    if case["kind"] == "seq":
        ref = RefLRU(case["maxsize"])
        stored = []
        all_disposed = []
        for i, o in enumerate(case["ops"]):
            ref.disposed = []
            r = ref.apply(o)
            exp = [r, ref.disposed, sorted(k for k, v in ref.items), len(ref.items)]
            if obs[i] != exp:
                return "op #%d %r: observation %r differs from the reference LRU %r" % (i, o, obs[i], exp)
            if len(ref.items) > case["maxsize"]:
                return "more than maxsize entries"
            all_disposed += obs[i][1]
        return None
    if case["kind"] == "pm":
        audit = _STASH.pop(id(case), None)
        ref = RefLRU(case["num_pools"])
        for i, o in enumerate(case["ops"]):
            r = ref.apply(o)
            exp = [r, len(ref.items)]
            if obs[i] != exp:
                return "PoolManager op #%d %r: got %r, reference LRU cache says %r" % (i, o, obs[i], exp)
        return audit
    if case["kind"] == "pmkw":
        # equal connection parameters (whatever order a dict-valued setting was written in) -> the same pool while it is cached
        ref = RefLRU(case["num_pools"])
        nxt = 0
        for i, o in enumerate(case["ops"]):
            key = (o[1], o[0] == "gock")
            hit = ref._find(key) is not None
            if hit:
                want = [v for k, v in ref.items if k == key][0]
                ref.touch(key)
            else:
                want = nxt; nxt += 1
                ref.put(key, want)
            if obs[i] != [want, len(ref.items)]:
                return "PoolManager op #%d %r: pool #%d with %d cached, the reference cache says pool #%d with %d (equal parameters must give the same pool)" % (
                    i, o, obs[i][0], obs[i][1], want, len(ref.items))
        return None
    if case["kind"] == "pmreq":
        audit = _STASH.pop(id(case), None)
        ref = RefLRU(case["num_pools"])
        for i, o in enumerate(case["ops"]):
            if o[0] == "finish":
                continue
            r = ref.apply(["goc", o[1], 0] if o[0] in ("req", "hold", "fail") else o)
            if obs[i][1] != len(ref.items):
                return "PoolManager op #%d %r: %d pools cached, reference LRU cache says %d" % (i, o, obs[i][1], len(ref.items))
        return audit
    problems = _STASH.pop(id(case), [])
    if problems:
        return problems[0]
    order, results, keys, dis, undone = obs
    if undone:
        return "%d operations never completed" % undone
    # replay the critical sections in the observed order on the reference LRU
    ref = RefLRU(case["maxsize"])
    pcs = [0] * len(case["progs"])
    exp_results = [[] for _ in case["progs"]]
    for t in order:
        if pcs[t] >= len(case["progs"][t]):
            return "thread %d took more critical sections than it has operations" % t
        exp_results[t].append(ref.apply(case["progs"][t][pcs[t]]))
        pcs[t] += 1
    if exp_results != results:
        return "results %r are not those of the sequential execution in lock order %r: %r" % (results, order, exp_results)
    if sorted(k for k, v in ref.items) != keys:
        return "final keys differ from the linearised execution"
    if sorted(ref.disposed) != dis:
        return "disposed values %r differ from the linearised execution %r (lost or duplicate dispose)" % (dis, sorted(ref.disposed))
    return None


def signature(case, obs, msg):
    if case["kind"] == "pmreq" and "the caller still holds a finished, released response of that pool" in (msg or ""):
        return {"kind": "evicted-pool-pinned-by-finished-response"}
    return {"kind": case["kind"], "msg": (msg or "")[:60]}


def nontrivial(case, obs):
    h = hashlib.sha1(repr((case.get("ops") or case.get("progs"), obs)).encode()).hexdigest()[:16]
    if case["kind"] == "seq":
        if any(o[1] or o[0] == [2] or o[0][0] == 1 for o in obs):
            return h
        return None
    if case["kind"] in ("pm", "pmreq", "pmkw"):
        return h if len(case["ops"]) > 1 else None
    return h if len(obs[0]) > 1 else None


def histogram(cases, obss):
    h = {"kind": {}, "len": {}, "maxsize": {}, "disposes": 0, "keyerrors": 0}
    for c, o in zip(cases, obss):
        h["kind"][c["kind"]] = h["kind"].get(c["kind"], 0) + 1
        n = len(c["ops"]) if "ops" in c else sum(len(p) for p in c["progs"])
        h["len"][n] = h["len"].get(n, 0) + 1
        m = c.get("maxsize", c.get("num_pools"))
        h["maxsize"][m] = h["maxsize"].get(m, 0) + 1
        if c["kind"] == "seq" and o:
            h["disposes"] += sum(len(x[1]) for x in o)
            h["keyerrors"] += sum(1 for x in o if x[0] == [2])
    return h


# ---------------------------------------------------------------- generators
KEYS = [1, 2, 3, 4]


def seq_alphabet():
    ops = []
    for k in KEYS:
        ops += [["get", k], ["set", k, None], ["del", k], ["mget", k], ["contains", k], ["pop", k], ["setdefault", k, None]]
    ops += [["len"], ["clear"], ["keys"]]
    return ops


def number_values(ops, start=100):
    out = []
    n = start
    for o in ops:
        if o[0] in ("set", "setdefault"):
            out.append([o[0], o[1], n]); n += 1
        else:
            out.append(list(o))
    return out


def drain(maxsize):
    return [["set", 50 + i, 900 + i] for i in range(maxsize)]


def cases(rng, tier):
    out = []
    alpha = seq_alphabet()
    core = [o for o in alpha if o[0] in ("get", "set", "del", "clear")]
    L = 3 if tier == "quick" else 4
    # exhaustive short sequences over the core alphabet, all maxsizes, with drain suffix
    seqs = []
    for n in range(1, L + 1):
        seqs += list(itertools.product(core, repeat=n))
    limit = 6000 if tier == "quick" else 60000
    if len(seqs) > limit:
        seqs = rng.sample(seqs, limit)
    for s in seqs:
        m = rng.choice([0, 1, 2, 3])
        out.append({"kind": "seq", "maxsize": m, "ops": number_values(list(s)) + drain(m)})
    nrand = 8000 if tier == "quick" else 200000
    for _ in range(nrand):
        m = rng.choice([0, 1, 2, 3])
        n = rng.randint(1, 8 if tier == "quick" else 12)
        ops = [rng.choice(alpha) for _ in range(n)]
        out.append({"kind": "seq", "maxsize": m, "ops": number_values(ops) + drain(m)})
    # concurrent container runs
    calpha = [o for o in alpha if o[0] in ("get", "set", "del", "len", "clear", "keys", "mget", "contains")]
    nconc = 400 if tier == "quick" else 6000
    for i in range(nconc):
        nt = rng.choice([2, 2, 3])
        m = rng.choice([0, 1, 2, 3])
        progs = []
        v = 100
        for t in range(nt):
            p = []
            for _ in range(rng.randint(1, 3)):
                o = list(rng.choice(calpha))
                if o[0] == "set":
                    o[2] = v; v += 1
                p.append(o)
            progs.append(p)
        out.append({"kind": "conc", "maxsize": m, "progs": progs, "seed": rng.randrange(1 << 30), "pm": False})
    # PoolManager sequential + concurrent
    npm = 300 if tier == "quick" else 4000
    for i in range(npm):
        m = rng.choice([1, 2, 3])
        n = rng.randint(1, 8)
        ops = []
        for j in range(n):
            if rng.random() < 0.12:
                ops.append(["clear"])
            else:
                ops.append(["goc", rng.choice(KEYS), 100 + j])
        out.append({"kind": "pm", "num_pools": m, "ops": ops})
    # real requests; the caller keeps some of the finished responses
    for m in (1, 2):
        for keep in (False, True):
            out.append({"kind": "pmreq", "num_pools": m, "ops": [["req", 1, keep], ["req", 2, False], ["req", 3, False]]})
            out.append({"kind": "pmreq", "num_pools": m, "ops": [["req", 1, keep], ["clear"], ["req", 2, False]]})
            out.append({"kind": "pmreq", "num_pools": m, "ops": [["req", 1, keep], ["req", 1, False], ["req", 2, keep], ["req", 3, False], ["req", 1, False]]})
    for i in range(npm // 2):
        m = rng.choice([1, 2, 3])
        ops = []
        for j in range(rng.randint(2, 7)):
            ops.append(["clear"] if rng.random() < 0.12 else ["req", rng.choice(KEYS), rng.random() < 0.3])
        out.append({"kind": "pmreq", "num_pools": m, "ops": ops})
    # per-request settings whose dict values are written in either order
    for i in range(npm // 2):
        m = rng.choice([1, 2, 3])
        ops = []
        for j in range(rng.randint(2, 8)):
            ops.append(["gock", rng.choice(KEYS[:2]), rng.random() < 0.5] if rng.random() < 0.6 else ["goc", rng.choice(KEYS[:2])])
        out.append({"kind": "pmkw", "num_pools": m, "ops": ops})
    # pools with two slots: streamed responses held across other requests, and connections the server drops, leave live connections
    # below empty slots in a pool's queue before the pool is evicted or cleared
    for tail in ([["req", 2, False]], [["clear"]], [["req", 2, False], ["req", 3, False]]):
        for m in (1, 2):
            out.append({"kind": "pmreq", "num_pools": m, "maxsize": 2, "ops": [["hold", 1], ["req", 1, False], ["finish"], ["fail", 1]] + tail})
            out.append({"kind": "pmreq", "num_pools": m, "maxsize": 3, "ops": [["hold", 1], ["hold", 1], ["req", 1, False], ["finish"], ["fail", 1], ["finish"], ["fail", 1]] + tail})
    for i in range(npm // 2):
        m = rng.choice([1, 2])
        ops = []
        nheld = 0
        for j in range(rng.randint(3, 9)):
            x = rng.random()
            if x < 0.1:
                ops.append(["clear"])
            elif x < 0.3:
                ops.append(["hold", rng.choice(KEYS[:2])]); nheld += 1
            elif x < 0.5 and nheld:
                ops.append(["finish"]); nheld -= 1
            elif x < 0.7:
                ops.append(["fail", rng.choice(KEYS[:2])])
            else:
                ops.append(["req", rng.choice(KEYS[:3]), rng.random() < 0.2])
        out.append({"kind": "pmreq", "num_pools": m, "maxsize": rng.choice([2, 3]), "ops": ops})
    for i in range(npm // 2):
        nt = rng.choice([2, 3])
        m = rng.choice([1, 2])
        progs = []
        tag = 100
        for t in range(nt):
            p = []
            for _ in range(rng.randint(1, 2)):
                if rng.random() < 0.15:
                    p.append(["clear"])
                else:
                    p.append(["goc", rng.choice(KEYS[:3]), tag]); tag += 1
            progs.append(p)
        out.append({"kind": "conc", "maxsize": m, "progs": progs, "seed": rng.randrange(1 << 30), "pm": True})
    return out


def shrinks(case):
    if case["kind"] in ("seq", "pm", "pmreq", "pmkw"):
        ops = case["ops"]
        for i in range(len(ops)):
            c = dict(case); c["ops"] = ops[:i] + ops[i + 1:]
            yield c
    else:
        for t in range(len(case["progs"])):
            for i in range(len(case["progs"][t])):
                c = dict(case)
                c["progs"] = [list(p) for p in case["progs"]]
                del c["progs"][t][i]
                yield c
