"""C02 — concurrent requests never share a connection, exceed maxsize, or deadlock.

case = {"maxsize": 1|2, "block": bool, "progs": [[op, ...], ...], "schedule": [thread, ...]}     op = request | request_fail | close | request_retry (a streamed request answered 503 once: drained, retried)
Real threads run the real HTTPConnectionPool over the in-memory network under a token-passing scheduler: a thread runs
until its next access to shared state - a read of self.pool, an operation on the queue object, the moment its request is
written - and the schedule (a list of thread numbers; entries naming a thread that cannot run are skipped; when it is
used up the lowest-numbered runnable thread goes on) says who runs next.  A get on an empty queue of a blocking pool
parks the thread until a put wakes it; when nobody can run the parked threads are reported as hung.
Observation: the outcomes of every thread's operations, the hung threads, whether the pool is closed, the entries in
the queue, the open sockets, the most sockets ever open at once, the connections created."""
from __future__ import annotations

import hashlib
import queue as _queue
import threading

from sexp import S, B, Opt

ID = "C02"
GEN = ["Gen_Conc"]
RULE = ("2-3 threads, each doing 1-2 operations (request, request whose attempt fails on the wire, close()), maxsize 1-2, block on/off, every schedule of "
        "the preemption points up to a bound (systematic for short prefixes) plus random deeper schedules; a preemption point is every read of self.pool, "
        "every queue operation and the moment a request is written; non-trivial = every case; distinct = distinct (case, observation)")
TRUSTED_BASE = [
    "model coq/model/PoolConc.v (_get_conn, _new_conn, _put_conn, close, _close_pool_connections cut at every shared access)",
    "queue.LifoQueue is atomic and as specified; the GIL makes each step between two preemption points atomic with respect to the pool's state",
    "the scheduler of tools/harness/c02.py (token passing; a blocking get is turned into park / wake)",
]
ASSUMPTIONS = ["retries=False", "pool_timeout=None (a waiter waits for ever)", "the server answers every request it receives completely"]
EXHAUSTIVE = {"quick": False, "thorough": False}
CASE_TIMEOUT = 40
IMPL_SERIAL = False

OPS = {"request": 0, "request_fail": 1, "close": 2, "request_retry": 3}


def encode(case):
    return [case["maxsize"], B(case["block"]), [[OPS[o] for o in p] for p in case["progs"]], list(case["schedule"])]


def describe(case):
    return case


class Hang(BaseException):
    pass


class Sched:
    def __init__(self, n, schedule):
        self.cv = threading.Condition()
        self.n = n
        self.schedule = list(schedule)
        self.current = None
        self.alive = set(range(n))
        self.blocked = {}
        self.tids = {}
        self.hung = set()
        self.started = False
        self.done = False

    def me(self):
        if self.done:
            return None
        return self.tids.get(threading.get_ident())

    def _choose(self):
        run = [i for i in sorted(self.alive) if i not in self.blocked]
        while self.schedule:
            t = self.schedule.pop(0)
            if t in run:
                return t
        return run[0] if run else None

    def _hand_over(self):
        nxt = self._choose()
        if nxt is None and self.blocked:
            # nobody can run: the parked threads hang
            self.hung |= set(self.blocked)
            self.current = "hang"
        else:
            self.current = nxt
        self.cv.notify_all()

    def _wait_turn(self, me):
        while self.current != me:
            if self.current == "hang" and me in self.hung:
                raise Hang()
            if not self.cv.wait(timeout=20):
                raise Hang()

    def yield_point(self):
        me = self.me()
        if me is None:
            return
        with self.cv:
            self._hand_over()
            self._wait_turn(me)

    def park(self, key):
        me = self.me()
        if me is None:
            raise _queue.Empty()
        with self.cv:
            self.blocked[me] = key
            self._hand_over()
            self._wait_turn(me)

    def wake(self, key):
        with self.cv:
            for t in [t for t, k in self.blocked.items() if k is key]:
                del self.blocked[t]

    def finish(self, me):
        with self.cv:
            self.alive.discard(me)
            self.blocked.pop(me, None)
            if self.current == me or self.current is None:
                self._hand_over()


class QueueProxy:
    def __init__(self, inner, sched):
        self.inner = inner
        self.sched = sched

    def get(self, block=True, timeout=None):
        self.sched.yield_point()
        while True:
            try:
                return self.inner.get(block=False)
            except _queue.Empty:
                if not block or self.sched.me() is None:
                    raise
                self.sched.park(self)

    def put(self, item, block=True, timeout=None):
        self.sched.yield_point()
        self.inner.put(item, block=False)
        self.sched.wake(self)

    def qsize(self):
        return self.inner.qsize()

    @property
    def queue(self):
        return self.inner.queue


_STASH = {}


def _scenario(case):
    import gc
    import urllib3
    from urllib3.connectionpool import HTTPConnectionPool
    from netsim.fakesock import installed, Net, Peer, http_response

    n = len(case["progs"])
    sched = Sched(n, case["schedule"])
    problems = []
    stats = {"max_open": 0, "created": 0}

    retried = set()

    class Net2(Net):
        def connect(self, sock, host, port):
            sock.user = None
            stats["created"] += 1
            stats["max_open"] = max(stats["max_open"], sum(1 for s in self.socks if not s.really_closed))
            buf = bytearray()

            def on_data(peer, data):
                buf.extend(data)
                if b"\r\n\r\n" not in buf:
                    return
                head = bytes(buf)
                del buf[:]
                path = head.split(b" ")[1].decode()
                if path.startswith("/fail"):
                    peer.fail(ConnectionResetError(104, "Connection reset by peer"))
                elif path.startswith("/retry") and path not in retried:
                    retried.add(path)
                    peer.send(http_response(503, "Busy", [], b"later"))
                else:
                    peer.send(http_response(200, "OK", [], path.encode()))
            return Peer(on_data)

        def before_send(self, sock, data):
            me = sched.me()
            if sock.user is not None and sock.user != me:
                problems.append("connection #%d is used by thread %d while thread %d is using it" % (sock.ordinal, me, sock.user))
            sock.user = me
            sched.yield_point()

    net = Net2()

    class SchedPool(HTTPConnectionPool):
        @property
        def pool(self):
            sched.yield_point()
            return self.__dict__.get("_pool_real")

        @pool.setter
        def pool(self, v):
            self.__dict__["_pool_real"] = QueueProxy(v, sched) if v is not None and not isinstance(v, QueueProxy) else v

    outs = [[] for _ in range(n)]
    with installed(net):
        pool = SchedPool("h.example", 80, maxsize=case["maxsize"], block=case["block"])
        orig_make = pool._make_request

        def make_request(conn, method, url, **kw):
            try:
                return orig_make(conn, method, url, **kw)
            finally:
                s = getattr(conn, "sock", None)
                if s is not None:
                    s.user = None
        pool._make_request = make_request
        the_queue = pool.__dict__["_pool_real"]

        def body(i):
            sched.tids[threading.get_ident()] = i
            try:
                with sched.cv:
                    sched._wait_turn(i)
                for k, op in enumerate(case["progs"][i]):
                    if k:
                        sched.yield_point()
                    try:
                        if op == "close":
                            pool.close()
                            outs[i].append(4)
                        elif op == "request_retry":
                            path = "/retry/t%d/%d" % (i, k)
                            r = pool.urlopen("GET", path, retries=urllib3.Retry(2, status_forcelist=[503], backoff_factor=0), pool_timeout=None,
                                             preload_content=False)
                            data = r.read()
                            r.release_conn()
                            if data != path.encode():
                                problems.append("thread %d received the response to another request" % i)
                            outs[i].append(0)
                        else:
                            path = "/%s/t%d/%d" % ("fail" if op == "request_fail" else "ok", i, k)
                            r = pool.urlopen("GET", path, retries=False, pool_timeout=None)
                            if r.data != path.encode():
                                problems.append("thread %d received the response to another request" % i)
                            outs[i].append(0)
                    except urllib3.exceptions.ClosedPoolError:
                        outs[i].append(1)
                    except urllib3.exceptions.FullPoolError:
                        outs[i].append(2)
                    except AttributeError as e:
                        outs[i].append(3)
                    except urllib3.exceptions.HTTPError:
                        outs[i].append(5)
                    except Hang:
                        raise
                    except Exception as e:
                        outs[i].append(9)
                        problems.append("thread %d: a raw %s: %s" % (i, type(e).__name__, str(e)[:80]))
            except Hang:
                pass
            finally:
                sched.finish(i)
        threads = [threading.Thread(target=body, args=(i,), daemon=True) for i in range(n)]
        for t in threads:
            t.start()
        # wait until every thread has registered, then hand out the token
        import time
        t0 = time.time()
        while len(sched.tids) < n and time.time() - t0 < 5:
            time.sleep(0.001)
        with sched.cv:
            sched._hand_over()
        for t in threads:
            t.join(25)
        stuck = [i for i, t in enumerate(threads) if t.is_alive()]
        if stuck:
            problems.append("threads %s did not come back (scheduler trouble)" % stuck)
        sched.done = True
        closed = pool.__dict__.get("_pool_real") is None
        qp = None
        qlen = len(the_queue.inner.queue)
        open_now = sum(1 for s in net.socks if not s.really_closed)
        obs = [[list(o) for o in outs], sorted(sched.hung), B(closed), qlen, open_now, stats["max_open"], stats["created"]]
    return obs, problems, net, closed


def impl(case):
    import gc
    obs, problems, net, closed = _scenario(case)
    # once the closed pool is dropped (every reference of the scenario is gone now) no socket may stay open
    leak = None
    if closed:
        gc.collect()
        leak = sum(1 for s in net.socks if not s.really_closed)
    _STASH[id(case)] = (problems, leak)
    return obs


def oracle(case, obs):
    problems, leak = _STASH.pop(id(case), ([], None))
    if problems:
        return problems[0]
    outs, hung, closed, qlen, open_now, max_open, created = obs
    has_close = any("close" in p for p in case["progs"])
    if case["block"] and max_open > case["maxsize"]:
        return "a block=True pool with maxsize %d had %d connections open at once" % (case["maxsize"], max_open)
    if hung:
        return "threads %s wait for ever for a connection%s" % (hung, " after a concurrent close()" if has_close else "")
    for i, (p, o) in enumerate(zip(case["progs"], outs)):
        if len(o) != len(p):
            return "thread %d did not finish its operations" % i
        for op, r in zip(p, o):
            if r == 3:
                return "thread %d: AttributeError (an internal error) reached the caller" % i
            if r == 9:
                return "thread %d: a raw exception reached the caller" % i
            if r in (1,) and not has_close:
                return "thread %d: ClosedPoolError without any close()" % i
            if r == 2:
                return "thread %d: FullPoolError" % i
    if not has_close:
        if qlen != case["maxsize"] and case["block"]:
            return "after all requests the pool offers %d slots instead of %d" % (qlen, case["maxsize"])
    if leak:
        return "%d socket(s) stay open after the closed pool was dropped" % leak
    return None


def signature(case, obs, msg):
    sig = {"msg": (msg or "")[:50]}
    m = msg or ""
    if "wait for ever" in m and "after a concurrent close()" in m:
        sig["kind"] = "waiter-not-woken-by-close"
    if "AttributeError" in m:
        sig["kind"] = "attributeerror-in-full-queue-warning"
    return sig


def nontrivial(case, obs):
    return hashlib.sha1(repr((case, obs)).encode()).hexdigest()[:16]


def histogram(cases, obss):
    h = {"threads": {}, "maxsize": {}, "block": {}, "with_close": 0, "hung": 0, "outcomes": {}, "schedule_len": {}}
    names = {0: "ok", 1: "ClosedPoolError", 2: "FullPoolError", 3: "AttributeError", 4: "close returned", 5: "request failed", 9: "raw"}
    for c, o in zip(cases, obss):
        h["threads"][len(c["progs"])] = h["threads"].get(len(c["progs"]), 0) + 1
        h["maxsize"][c["maxsize"]] = h["maxsize"].get(c["maxsize"], 0) + 1
        h["block"][str(c["block"])] = h["block"].get(str(c["block"]), 0) + 1
        k = min(len(c["schedule"]) // 5 * 5, 40)
        h["schedule_len"][k] = h["schedule_len"].get(k, 0) + 1
        if any("close" in p for p in c["progs"]):
            h["with_close"] += 1
        if o:
            if o[1]:
                h["hung"] += 1
            for t in o[0]:
                for r in t:
                    h["outcomes"][names.get(r)] = h["outcomes"].get(names.get(r), 0) + 1
    return h


# ---------------------------------------------------------------- generators
def rand_progs(rng, with_close):
    n = rng.choice([2, 2, 3])
    progs = [[rng.choice(["request", "request", "request_fail", "request_retry"]) for _ in range(rng.choice([1, 2]))] for _ in range(n)]
    if with_close:
        i = rng.randrange(n)
        if rng.random() < 0.5:
            progs[i] = ["close"]
        else:
            progs[i] = progs[i][:1] + ["close"]
    return progs


def cases(rng, tier):
    out = []
    # systematic: two threads, one request each (optionally one closing), every schedule prefix of length 7 over {0,1}
    import itertools
    for progs in ([["request"], ["request"]], [["request"], ["close"]], [["request_fail"], ["request"]], [["request_retry"], ["request"]]):
        for maxsize in (1, 2):
            for block in (True, False):
                for pref in itertools.product((0, 1), repeat=7 if tier == "quick" else 11):
                    out.append({"maxsize": maxsize, "block": block, "progs": [list(p) for p in progs], "schedule": list(pref)})
    for _ in range(5000 if tier == "quick" else 120000):
        progs = rand_progs(rng, rng.random() < 0.5)
        n = len(progs)
        out.append({"maxsize": rng.choice([1, 2]), "block": rng.random() < 0.5, "progs": progs,
                    "schedule": [rng.randrange(n) for _ in range(rng.choice([5, 15, 30, 45]))]})
    return out


def shrinks(case):
    s = case["schedule"]
    for i in range(len(s)):
        c = dict(case); c["schedule"] = s[:i] + s[i + 1:]
        yield c
