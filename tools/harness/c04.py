"""C04 — retries respect every budget, spare non-idempotent requests, and terminate.

case = {"mode": "direct"|"forwarding"|"tunnelling", "method": m, "retries": ["none"]|["false"]|["int",n]|["retry",{...}], "script": [attempt,...]}
attempt = {"connect": ok|refused|timeout, "send": ok|epipe|reset|other|timeout, "recv": ["resp",status,retry_after|None,keepalive]|["timeout"]|["reset"]|["eof"]|["garbage"]}
The real HTTPConnectionPool.urlopen (redirect=False) runs over the scripted in-memory network; time.sleep of urllib3.util.retry is recorded."""
from __future__ import annotations

import hashlib
import itertools
from fractions import Fraction

from sexp import S, Z, B, Opt

ID = "C04"
GEN = ["Gen_Exc", "Gen_Urlopen", "Gen_Retry"]
RULE = ("Retry(total, connect, read, status, other) over {None,0,1,2} (+False for total, + plain int / False / None arguments), allowed_methods in "
        "{default, None, {GET}}, status_forcelist in {{}, {500}, {503}}, raise_on_status, respect_retry_after_header, backoff in {0, 1/2}; methods "
        "GET/POST/PUT; outcome sequences up to the tier's length over {connect refused/timeout, send error/timeout (incl. swallowed EPIPE/RESET), "
        "read timeout/reset/EOF/garbage, 200, 500, 503/429/413 with Retry-After}; direct pool, forwarding proxy, and https origin through a CONNECT tunnel "
        "(tunnel always granted, TLS not run); "
        "non-trivial = at least one retry or a raised error; distinct = distinct (case, observation)")
TRUSTED_BASE = [
    "models coq/model/Retry.v and coq/model/RetryLoop.v; exception classification uses the class lattice and the isinstance tuples regenerated from the source (Gen_Exc, Gen_Urlopen)",
    "http.client closes the connection on ConnectionError inside getresponse (modelled as `closed_by_httpclient`); one outcome record per attempt as scripted by tools/netsim/scripted.py",
    "in tunnelling mode the proxy always grants the tunnel and urllib3.connection.ssl_wrap_socket is replaced by the identity (C09 covers tunnel set-up and its failures, C07 the handshakes); backoff_jitter = 0",
]
ASSUMPTIONS = ["redirects are disabled in these runs (C05 covers them)", "Retry-After is given in delta-seconds form"]
EXHAUSTIVE = {"quick": False, "thorough": False}
CASE_TIMEOUT = 20

CONN = {"ok": 0, "refused": 1, "timeout": 2}
SEND = {"ok": 0, "epipe": 1, "reset": 2, "other": 3, "timeout": 4}
RECV = {"resp": 0, "timeout": 1, "reset": 2, "eof": 3, "garbage": 4, "tls": 4}


def in_model_domain(case):
    """a response that cannot be decrypted (ssl.SSLError from recv) is judged by the oracle only"""
    return not any(a["recv"][0] == "tls" or (a["recv"][0] == "resp" and isinstance(a["recv"][2], str)) for a in case["script"])


def enc_count(c):
    if c is False:
        return [0]
    if c is None:
        return [1]
    return [2, Z(c)]


def enc_q(x):
    fr = Fraction(x)
    return [Z(fr.numerator), fr.denominator]


def enc_retry(r):
    al = r.get("allowed", "default")
    al_e = [0] if al == "default" else ([1] if al is None else [2, [S(m) for m in al]])
    return [enc_count(r.get("total", 10)), enc_count(r.get("connect")), enc_count(r.get("read")), enc_count(r.get("redirect")),
            enc_count(r.get("status")), enc_count(r.get("other")), al_e, [Z(x) for x in r.get("forcelist", [])],
            B(r.get("raise_on_redirect", True)), B(r.get("raise_on_status", True)), B(r.get("respect", True)),
            enc_q(r.get("backoff", 0)), enc_q(r.get("backoff_max", 120))]


def enc_arg(a):
    if a[0] == "none":
        return [0]
    if a[0] == "false":
        return [1]
    if a[0] == "int":
        return [2, Z(a[1])]
    return [3, enc_retry(a[1])]


def enc_attempt(a):
    r = a["recv"]
    if r[0] == "resp":
        re = [0, Z(r[1]), Opt(r[2] if not isinstance(r[2], str) else 0, Z), B(r[3])]
    else:
        re = [RECV[r[0]]]
    return [CONN[a["connect"]], SEND[a["send"]], re]


def encode(case):
    return [{"direct": 0, "forwarding": 1, "tunnelling": 2}[case["mode"]], S(case["method"]), enc_arg(case["retries"]), [enc_attempt(a) for a in case["script"]]]


def describe(case):
    return case


def build_retry(r):
    import urllib3
    kw = dict(total=r.get("total", 10), connect=r.get("connect"), read=r.get("read"), status=r.get("status"), other=r.get("other"),
              status_forcelist=r.get("forcelist", []), raise_on_status=r.get("raise_on_status", True),
              respect_retry_after_header=r.get("respect", True), backoff_factor=float(Fraction(r.get("backoff", 0))),
              backoff_max=float(Fraction(r.get("backoff_max", 120))))
    if "redirect" in r:
        kw["redirect"] = r["redirect"]
    if "raise_on_redirect" in r:
        kw["raise_on_redirect"] = r["raise_on_redirect"]
    al = r.get("allowed", "default")
    if al != "default":
        kw["allowed_methods"] = al if al is None else frozenset(al)
    return urllib3.Retry(**kw)


FIELDS = ("total", "connect", "read", "redirect", "status", "other", "allowed_methods", "status_forcelist", "backoff_factor", "backoff_max",
          "raise_on_redirect", "raise_on_status", "history", "respect_retry_after_header", "remove_headers_on_redirect", "backoff_jitter")
_STASH = {}


def impl(case):
    import urllib3
    import urllib3.util.retry as ur
    import urllib3.connection as uconn
    from urllib3.connectionpool import HTTPConnectionPool, HTTPSConnectionPool
    from netsim.fakesock import installed
    from netsim.scripted import ScriptedNet, ScriptEnd, counting_pool_class, cname, inner_of

    net = ScriptedNet(case["script"])
    sleeps = []

    class FakeTime:
        @staticmethod
        def sleep(x):
            sleeps.append(x)

        @staticmethod
        def time():
            return 1.7e9
    def fake_wrap(sock, **kw):
        sock.getpeercert = lambda binary_form=False: (b"" if binary_form else {})
        sock.version = lambda: "TLSv1.3"
        sock.selected_alpn_protocol = lambda: None
        return sock
    old = ur.time
    old_wrap = uconn.ssl_wrap_socket
    ur.time = FakeTime
    uconn.ssl_wrap_socket = fake_wrap
    problems = []
    import warnings
    try:
        with installed(net), warnings.catch_warnings():
            warnings.simplefilter("ignore")
            Pool = counting_pool_class(HTTPConnectionPool, net)
            if case["mode"] == "direct":
                pool = Pool("dest.example", 80, maxsize=1)
            elif case["mode"] == "tunnelling":
                pm = urllib3.ProxyManager("http://proxy.example:3128", cert_reqs="CERT_NONE")
                pm.pool_classes_by_scheme = {"http": Pool, "https": counting_pool_class(HTTPSConnectionPool, net)}
                pool = pm.connection_from_host("dest.example", 443, "https")
            else:
                pm = urllib3.ProxyManager("http://proxy.example:3128")
                pm.pool_classes_by_scheme = {"http": Pool, "https": Pool}
                pool = pm.connection_from_host("dest.example", 80, "http")
            a = case["retries"]
            robj = None
            if a[0] == "none":
                arg = None
            elif a[0] == "false":
                arg = False
            elif a[0] == "int":
                arg = a[1]
            else:
                arg = robj = build_retry(a[1])
                snap = {f: getattr(robj, f) for f in FIELDS}
            body = b"payload" if case["method"] in ("POST", "PUT") else None
            try:
                url = "http://dest.example/x" if case["mode"] == "forwarding" else "/x"
                resp = pool.urlopen(case["method"], url, body=body, retries=arg, redirect=False, assert_same_host=(case["mode"] != "forwarding"))
                fin = [0, Z(resp.status)]
            except urllib3.exceptions.MaxRetryError as e:
                r = e.reason
                if isinstance(r, urllib3.exceptions.ResponseError):
                    fin = [2, []]
                else:
                    fin = [2, [[S(cname(r)), Opt(inner_of(r), S)]]]
            except ScriptEnd:
                fin = [9]
            except Exception as e:
                fin = [1, [S(cname(e)), Opt(inner_of(e), S)]]
                if not isinstance(e, urllib3.exceptions.HTTPError):
                    problems.append("a raw %s reached the caller (not a urllib3 exception)" % cname(e))
            if robj is not None:
                for f in FIELDS:
                    if getattr(robj, f) != snap[f]:
                        problems.append("the caller's Retry object was mutated (%s)" % f)
            wires = [[B(l["connected"]), B(l["sent"])] for l in net.log]
            return [wires, [enc_q(Fraction(x)) for x in sleeps], fin]
    finally:
        ur.time = old
        uconn.ssl_wrap_socket = old_wrap
        _STASH[id(case)] = problems


# ---------------------------------------------------------------- oracle (written from the property text)
def category(att, need_connect):
    """the property's own reading of an attempt's outcome"""
    if need_connect and att["connect"] != "ok":
        return "connect"
    if att["send"] in ("other", "timeout"):
        return "read"        # the request may have reached the server
    r = att["recv"]
    if r[0] == "resp":
        return ("resp", r[1], r[2], r[3])
    return "read"


def effective_policy(case):
    a = case["retries"]
    if a[0] == "none":
        return {"total": 3}
    if a[0] == "false":
        return {"total": False}
    if a[0] == "int":
        return {"total": a[1]}
    return dict(a[1])


DEFAULT_ALLOWED = {"HEAD", "GET", "PUT", "DELETE", "OPTIONS", "TRACE"}


def oracle(case, obs):
    problems = _STASH.pop(id(case), [])
    if problems:
        return problems[0]
    wires, sleeps, fin = obs
    if fin == [9]:
        return None                       # script too short to decide (never generated on purpose)
    pol = effective_policy(case)
    n = len(wires)
    total = pol.get("total", 10)
    al = pol.get("allowed", "default")
    allowed = DEFAULT_ALLOWED if al == "default" else (None if not al else set(al))
    retryable_method = allowed is None or case["method"].upper() in allowed
    if isinstance(total, int) and not isinstance(total, bool) and total >= 0 and n > total + 1:
        return "%d attempts with total=%d" % (n, total)
    # classify each attempt by the property's reading and count retries per category
    used = {"connect": 0, "read": 0, "status": 0}
    have_conn = False
    for i in range(n):
        att = case["script"][i]
        cat = category(att, need_connect=wires[i][0] == 1)
        followed = i + 1 < n
        if cat in ("connect", "read"):
            if total is False:
                if followed:
                    return "retries=False but attempt #%d (a %s error) was followed by another attempt" % (i, cat)
            if followed:
                used[cat] += 1
                if cat == "read" and not retryable_method:
                    return "%s was sent again after attempt #%d ended in a read error (send=%s recv=%s) although the method is outside allowed_methods" % (
                        case["method"], i, att["send"], att["recv"][0])
        else:
            _, status, ra, keep = cat
            if followed:
                used["status"] += 1
                if not retryable_method:
                    return "%s was sent again after status %d although the method is outside allowed_methods" % (case["method"], status)
                forced = status in pol.get("forcelist", [])
                if not forced:
                    if not (ra is not None and pol.get("respect", True) and status in (413, 429, 503)):
                        return "status %d was retried although it is neither force-listed nor a Retry-After 413/429/503" % status
    for cat, key in (("connect", "connect"), ("read", "read"), ("status", "status")):
        b = pol.get(key)
        if isinstance(b, int) and not isinstance(b, bool) and b >= 0 and used[cat] > b:
            return "%d retries after %s errors with %s=%d (send/recv of the attempts: %s)" % (
                used[cat], cat, key, b, [(a["send"], a["recv"][0]) for a in case["script"][:n]])
    # sleeps
    bmax = Fraction(pol.get("backoff_max", 120))
    ra_val = lambda x: Fraction(0) if isinstance(x, str) else Fraction(x)          # (a Retry-After given as a date in the past stands for "now")
    ras = [ra_val(a["recv"][2]) for a in case["script"][:n] if a["recv"][0] == "resp" and a["recv"][2] is not None]
    # Retry-After is the server's say only on 413 / 429 / 503
    ras_ok = [ra_val(a["recv"][2]) for a in case["script"][:n] if a["recv"][0] == "resp" and a["recv"][2] is not None and a["recv"][1] in (413, 429, 503)]
    for s in sleeps:
        v = Fraction(s[0][1] * (1 if s[0][0] == 0 else -1), s[1])
        if v < 0:
            return "negative sleep"
        if v > bmax and v in ras and v not in ras_ok:
            return "sleep %s is the Retry-After of a status other than 413/429/503 and exceeds backoff_max" % v
        if v > bmax and v not in ras:
            return "sleep %s exceeds backoff_max and is no Retry-After value" % v
        if v in ras and v > bmax and not pol.get("respect", True):
            return "Retry-After honoured although respect_retry_after_header is False"
    # exhaustion shape
    last = case["script"][n - 1] if n else None
    if fin[0] == 2 and last is not None:
        cat = category(last, need_connect=wires[n - 1][0] == 1)
        if isinstance(cat, tuple):
            if fin[1] != []:
                return "MaxRetryError after a response does not carry a ResponseError"
            if not pol.get("raise_on_status", True):
                return "raise_on_status=False but MaxRetryError was raised"
        elif fin[1] == []:
            return "MaxRetryError after an error does not carry that error as its reason"
    return None


def signature(case, obs, msg):
    m = msg or ""
    if "is the Retry-After of a status other than 413/429/503" in m:
        return {"kind": "retry-after-honoured-for-other-status"}
    n0 = len(obs[0]) if obs else 0
    if ("read error" in m or "after read errors" in m) and any(a["recv"][0] == "tls" and a["send"] == "ok" for a in case["script"][:n0]):
        return {"kind": "undecryptable-response-counted-as-other"}
    sig = {"mode": case["mode"], "msg": m[:50]}
    n = len(obs[0]) if obs else 0
    if "read error" in m or "after read errors" in m:
        # which outcome was (mis)classified
        kinds = sorted({a["recv"][0] for a in case["script"][:n] if a["recv"][0] in ("reset", "eof") and a["send"] in ("ok", "epipe", "reset")})
        sig["read_outcomes"] = kinds
        sig["kind"] = "read-error-retried"
    return sig


def nontrivial(case, obs):
    if len(obs[0]) <= 1 and obs[2][0] == 0:
        return None
    return hashlib.sha1(repr((case, obs)).encode()).hexdigest()[:16]


def histogram(cases, obss):
    h = {"mode": {}, "attempts": {}, "final": {}, "method": {}}
    for c, o in zip(cases, obss):
        h["mode"][c["mode"]] = h["mode"].get(c["mode"], 0) + 1
        h["method"][c["method"]] = h["method"].get(c["method"], 0) + 1
        if o:
            k = len(o[0]); h["attempts"][k] = h["attempts"].get(k, 0) + 1
            f = {0: "response", 1: "re-raised", 2: "MaxRetryError", 9: "script-end"}.get(o[2][0])
            h["final"][f] = h["final"].get(f, 0) + 1
    return h


# ---------------------------------------------------------------- generators
OUTCOMES = [
    {"connect": "refused", "send": "ok", "recv": ["resp", 200, None, True]},
    {"connect": "timeout", "send": "ok", "recv": ["resp", 200, None, True]},
    {"connect": "ok", "send": "ok", "recv": ["timeout"]},
    {"connect": "ok", "send": "ok", "recv": ["reset"]},
    {"connect": "ok", "send": "ok", "recv": ["eof"]},
    {"connect": "ok", "send": "ok", "recv": ["garbage"]},
    {"connect": "ok", "send": "other", "recv": ["resp", 200, None, True]},
    {"connect": "ok", "send": "timeout", "recv": ["resp", 200, None, True]},
    {"connect": "ok", "send": "epipe", "recv": ["resp", 200, None, True]},
    {"connect": "ok", "send": "reset", "recv": ["eof"]},
    {"connect": "ok", "send": "ok", "recv": ["resp", 200, None, True]},
    {"connect": "ok", "send": "ok", "recv": ["resp", 500, None, True]},
    {"connect": "ok", "send": "ok", "recv": ["resp", 503, None, False]},
    {"connect": "ok", "send": "ok", "recv": ["resp", 503, 2, True]},
    {"connect": "ok", "send": "ok", "recv": ["resp", 429, 0, True]},
    {"connect": "ok", "send": "ok", "recv": ["resp", 413, 200, False]},
    {"connect": "ok", "send": "ok", "recv": ["resp", 500, 5, True]},
    {"connect": "ok", "send": "ok", "recv": ["resp", 500, 300, True]},
]
OK200 = {"connect": "ok", "send": "ok", "recv": ["resp", 200, None, True]}
COUNTS = [None, 0, 1, 2]


def rand_retry(rng):
    r = {"total": rng.choice([None, 0, 1, 2, 3, False]), "connect": rng.choice(COUNTS), "read": rng.choice(COUNTS),
         "status": rng.choice(COUNTS), "other": rng.choice(COUNTS), "allowed": rng.choice(["default", "default", None, ["GET"]]),
         "forcelist": rng.choice([[], [500], [503], [500, 503]]), "raise_on_status": rng.random() < 0.7,
         "respect": rng.random() < 0.8, "backoff": rng.choice(["0", "0", "1/2", "64"]), "backoff_max": rng.choice(["120", "120", "3"])}
    return r


def cases(rng, tier):
    out = []
    L = 3 if tier == "quick" else 4
    n_rand = 5000 if tier == "quick" else 240000
    # systematic: every single outcome and every pair, with a few representative policies
    pols = [["none"], ["false"], ["int", 0], ["int", 1], ["int", 2],
            ["retry", {"total": 2, "read": 0}], ["retry", {"total": 3, "connect": 1, "status": 1, "forcelist": [500, 503]}],
            ["retry", {"total": None, "other": 1, "read": 1}], ["retry", {"total": 2, "allowed": None, "forcelist": [500], "raise_on_status": False}],
            ["retry", {"total": 3, "respect": False, "forcelist": [503], "backoff": "1/2"}]]
    for pol in pols:
        for mode in ("direct", "forwarding", "tunnelling"):
            for method in ("GET", "POST"):
                for k in (1, 2):
                    for seq in itertools.product(OUTCOMES, repeat=k):
                        if k == 2 and rng.random() > (0.25 if tier == "quick" else 1.0):
                            continue
                        out.append({"mode": mode, "method": method, "retries": pol, "script": list(seq) + [OK200] * 4})
    for _ in range(n_rand):
        k = rng.randint(1, L + 1)
        seq = [rng.choice(OUTCOMES) for _ in range(k)]
        r = rng.random()
        pol = ["retry", rand_retry(rng)] if r < 0.8 else rng.choice([["none"], ["false"], ["int", rng.randint(0, 3)]])
        out.append({"mode": rng.choice(["direct", "direct", "forwarding", "tunnelling"]), "method": rng.choice(["GET", "POST", "PUT"]),
                    "retries": pol, "script": seq + [OK200] * 6})
    if tier == "quick" and len(out) > 14000:
        head = out[:200]
        out = head + rng.sample(out[200:], 13800)
    # Retry-After given as an HTTP-date that is already past (the harness clock stands at 2023-11-14): the pause is zero, never negative
    PAST = "Wed, 21 Oct 2015 07:28:00 GMT"
    for status in (503, 429, 413):
        for pol in (["none"], ["int", 2], ["retry", {"total": 3, "forcelist": [503], "backoff": "1/2"}], ["retry", {"total": 3, "respect": False, "forcelist": [503]}]):
            for mode in ("direct", "forwarding", "tunnelling"):
                seq = [{"connect": "ok", "send": "ok", "recv": ["resp", status, PAST, True]}] * 2
                out.append({"mode": mode, "method": "GET", "retries": pol, "script": [dict(a) for a in seq] + [OK200] * 4})
    # instead of the response something that cannot be decrypted arrives (ssl.SSLError from recv): the request may have reached the server
    TLSERR = {"connect": "ok", "send": "ok", "recv": ["tls"]}
    for pol in pols:
        for mode in ("direct", "tunnelling"):
            for method in ("GET", "POST"):
                for seq in ([TLSERR], [TLSERR, TLSERR], [OK200, TLSERR], [TLSERR, OUTCOMES[3]]):
                    out.append({"mode": mode, "method": method, "retries": pol, "script": [dict(a) for a in seq] + [OK200] * 4})
    for _ in range(300 if tier == "quick" else 6000):
        k = rng.randint(1, L + 1)
        seq = [dict(rng.choice(OUTCOMES + [TLSERR, TLSERR])) for _ in range(k)]
        out.append({"mode": rng.choice(["direct", "tunnelling"]), "method": rng.choice(["GET", "POST", "PUT"]),
                    "retries": ["retry", rand_retry(rng)], "script": seq + [OK200] * 6})
    return out


def shrinks(case):
    sc = case["script"]
    for i in range(len(sc)):
        c = dict(case); c["script"] = sc[:i] + sc[i + 1:]
        yield c
