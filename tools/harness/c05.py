"""C05 — redirects are followed only as far as the effective retry policy allows (engine shared with C06).

case = {"kind": "manager"|"proxy"|"pool", "redirect": bool, "assert_same_host": bool, "start": target, "method": m, "body": bool,
        "headers": [[k,v],...], "hkind": "dict"|"hd"|"default", "kw": policy, "pool": policy, "script": [hop,...]}
target = [scheme, host, port|None, path];  hop = {"status": n, "to": target|None, "form": "abs"|"path"|"rel"|"schemerel"}
policy = ["none"] | ["false"] | ["int", n] | ["retry", {...retry fields..., "rm": [names]|None}]
One scripted response per request; every request is logged at the (in-memory) server with the origin it was addressed to."""
from __future__ import annotations

import hashlib
from urllib.parse import urljoin

from sexp import S, Z, B, Opt
from harness import c04

ID = "C05"
GEN = ["Gen_Exc", "Gen_Urlopen", "Gen_Retry", "Gen_Resp", "Gen_Pm", "Gen_Coll"]
RULE = ("redirect chains / loops of length <= 6 over <= 3 origins, all five 3xx codes, absolute / path / relative / scheme-relative Locations, "
        "policies {None, False, 0, 1, 2, Retry(redirect=k), Retry(total=k)} x raise_on_redirect placed at request, pool or manager level, via "
        "PoolManager, ProxyManager and a bare HTTPConnectionPool; non-trivial = at least one 3xx answered; distinct = distinct (case, observation)")
TRUSTED_BASE = [
    "model coq/model/Redirect.v (PoolManager.urlopen and the pool-level redirect branch) over coq/model/Retry.v; urljoin is an oracle (Locations are given resolved)",
    "https origins are served by a plain-HTTP pool class in the harness (no TLS); one response per request, keep-alive, empty bodies",
]
ASSUMPTIONS = ["responses other than 3xx are 200 (status retries are C04's subject)"]
EXHAUSTIVE = {"quick": False, "thorough": False}
CASE_TIMEOUT = 20


def enc_target(t):
    return [[S(t[0]), S(t[1]), Opt(t[2], Z)], S(t[3])]


def enc_policy(p):
    if p[0] == "none":
        return [0]
    if p[0] == "false":
        return [1]
    if p[0] == "int":
        return [2, Z(p[1])]
    r = p[1]
    rm = r.get("rm")
    return [3, [c04.enc_retry(r), Opt(rm, lambda l: [S(x) for x in l])]]


def encode(case):
    kind = 1 if case["kind"] == "pool" else 0
    proxy = [[S("http"), S("proxy.example"), [Z(3128)]]] if case["kind"] == "proxy" else []
    script = [[Z(h["status"]), Opt(h["to"], enc_target)] for h in case["script"]]
    return [kind, B(case["redirect"]), B(case["assert_same_host"]), enc_target(case["start"]), S(case["method"]), B(case["body"]),
            [[S(k), S(v)] for k, v in case["headers"]], enc_policy(case["kw"]), enc_policy(case["pool"]), proxy, script]


def describe(case):
    return case


def url_of(t):
    return "%s://%s%s%s" % (t[0], t[1], "" if t[2] is None else ":%d" % t[2], t[3])


def render_location(cur, h):
    t = h["to"]
    if t is None:
        return None
    f = h["form"]
    if f == "abs":
        return url_of(t)
    if f == "path":
        return t[3]
    if f == "schemerel":
        return "//%s%s%s" % (t[1], "" if t[2] is None else ":%d" % t[2], t[3])
    if f == "rel":
        return t[3].rsplit("/", 1)[1]
    raise ValueError(f)


def build_policy(p):
    import urllib3
    if p[0] == "none":
        return None
    if p[0] == "false":
        return False
    if p[0] == "int":
        return p[1]
    r = dict(p[1])
    rm = r.pop("rm", None)
    obj = c04.build_retry(r)
    if rm is not None:
        obj = obj.new(remove_headers_on_redirect=rm)
    if "raise_on_redirect" in p[1]:
        obj = obj.new(raise_on_redirect=p[1]["raise_on_redirect"])
    return obj


WATCH_SKIP = {"host", "accept-encoding", "user-agent", "content-length"}


def impl(case):
    import urllib3
    from urllib3.connectionpool import HTTPConnectionPool
    from urllib3._collections import HTTPHeaderDict
    from netsim.fakesock import Net, Peer, installed, http_response

    script = case["script"]
    state = {"k": 0, "cur": url_of(case["start"])}
    log = []

    class N(Net):
        def connect(self, sock, host, port):
            def on_data(peer, data):
                while True:
                    buf = bytes(peer.inbox)
                    i = buf.find(b"\r\n\r\n")
                    if i < 0:
                        return
                    head = buf[:i].decode("latin-1").split("\r\n")
                    hdrs = [tuple(l.split(": ", 1)) for l in head[1:] if ": " in l]
                    cl = 0
                    te = False
                    for k, v in hdrs:
                        if k.lower() == "content-length":
                            cl = int(v)
                        if k.lower() == "transfer-encoding" and "chunked" in v.lower():
                            te = True
                    if te:
                        # a chunked request body: up to and including the last-chunk line (the bodies here hold no such bytes themselves)
                        rest = buf[i + 4:]
                        j = 0 if rest.startswith(b"0\r\n\r\n") else rest.find(b"\r\n0\r\n\r\n")
                        if j < 0:
                            return
                        cl = (5 if j == 0 and rest.startswith(b"0\r\n\r\n") else j + 7)
                        body = b"" if cl == 5 else rest[:j]
                        del peer.inbox[:i + 4 + cl]
                    else:
                        if len(buf) < i + 4 + cl:
                            return
                        body = buf[i + 4:i + 4 + cl]
                        del peer.inbox[:i + 4 + cl]
                    method, tgt, _ = head[0].split(" ", 2)
                    if (tgt.startswith("http://") or tgt.startswith("https://")) and case["kind"] == "pool":
                        # a bare pool sends absolute-form targets to its own host
                        origin = ["https" if port in (443, 8443) else "http", host, port]
                        path = "/" + tgt.split("://", 1)[1].partition("/")[2]
                    elif tgt.startswith("http://") or tgt.startswith("https://"):
                        sch, rest = tgt.split("://", 1)
                        hp, _, path = rest.partition("/")
                        h, _, p = hp.partition(":")
                        origin = [sch, h, int(p) if p else None]
                        path = "/" + path
                    else:
                        origin = ["https" if port in (443, 8443) else "http", host, port]
                        path = tgt
                    if origin[2] == (443 if origin[0] == "https" else 80):
                        origin[2] = None
                    origin[1] = origin[1].lower()
                    merged = {}
                    for k, v in hdrs:
                        if k.lower() in watched:
                            merged[k.lower()] = (merged[k.lower()] + ", " + v) if k.lower() in merged else v
                    log.append([origin, path, method, bool(body), sorted(merged.items())])
                    k = state["k"]
                    state["k"] += 1
                    if k >= len(script):
                        peer.send(http_response(599, "ScriptEnd"))
                        continue
                    h = script[k]
                    if h.get("fault") == "503":
                        # a status the policy retries (503 with Retry-After: 0), answered again by the next hop of the script
                        peer.send(http_response(503, "X", [("Retry-After", "0")], b""))
                        continue
                    if h.get("fault"):
                        peer.eof()          # the connection is dropped without an answer: a retryable fault, no redirect
                        continue
                    loc = render_location(state["cur"], h)
                    rh = [("Location", loc)] if loc is not None else []
                    if h["to"] is not None:
                        state["cur"] = url_of(h["to"])
                    peer.send(http_response(h["status"], "X", rh, b""))
            return Peer(on_data)

    net = N()
    watched = {k.lower() for k, v in case["headers"]} | {"content-type", "content-encoding", "content-language", "content-location", "digest", "last-modified",
                                                         "transfer-encoding"}
    kw = {}
    if case["hkind"] == "dict":
        kw["headers"] = dict(case["headers"])
    elif case["hkind"] == "hd":
        hd = HTTPHeaderDict()
        for k, v in case["headers"]:
            hd.add(k, v)
        kw["headers"] = hd
    kwp = build_policy(case["kw"])
    if case["kw"][0] != "none":
        kw["retries"] = kwp
    elif case.get("explicit_none"):
        kw["retries"] = None          # retries=None passed explicitly: the same as not passing it
    poolp = build_policy(case["pool"])
    body = b"payload" if case["body"] else None
    if body and case.get("bodyfile"):
        import io
        body = io.BytesIO(body)          # a seekable file at offset 0: re-sent from its recorded start on every body-preserving hop
    if case.get("chunked"):
        kw["chunked"] = True
    with installed(net):
        class PlainHttps(HTTPConnectionPool):
            scheme = "https"
        try:
            if case["kind"] == "pool":
                st = case["start"]
                pk = {} if case["pool"][0] == "none" else {"retries": poolp}
                if case["hkind"] == "default":
                    pk["headers"] = dict(case["headers"])
                pool = (PlainHttps if st[0] == "https" else HTTPConnectionPool)(st[1], st[2], **pk)
                r = pool.urlopen(case["method"], st[3], body=body, redirect=case["redirect"], assert_same_host=case["assert_same_host"], **kw)
            else:
                mk = {} if case["pool"][0] == "none" else {"retries": poolp}
                if case["hkind"] == "default":
                    mk["headers"] = dict(case["headers"])
                if case["kind"] == "proxy":
                    pm = urllib3.ProxyManager("http://proxy.example:3128", **mk)
                else:
                    pm = urllib3.PoolManager(**mk)
                pm.pool_classes_by_scheme = {"http": HTTPConnectionPool, "https": PlainHttps}
                start_url = url_of(case["start"])
                if case.get("schemeless") and start_url.startswith("http://"):
                    start_url = start_url[len("http://"):]          # "host[:port]/path": urllib3 reads it as an http URL
                r = pm.urlopen(case["method"], start_url, body=body, redirect=case["redirect"], **kw)
            out = [0, Z(r.status)] if r.status != 599 else [9]
        except urllib3.exceptions.MaxRetryError:
            out = [1]
        except urllib3.exceptions.HostChangedError:
            out = [2]
    enc_log = [[[S(o[0]), S(o[1]), Opt(o[2], Z)], S(p), S(m), B(b), [[S(k), S(v)] for k, v in hs]] for o, p, m, b, hs in log]
    if out == [9]:
        enc_log = enc_log[:len(script)]
    return [enc_log, out]


def in_model_domain(case):
    """the model knows requests with and without a body, not how the body is framed: a body sent chunked is judged by the oracle only;
    so are chains in which an attempt fails on the connection before it is answered (retries are C04's subject)"""
    return not case.get("chunked") and not case.get("bodyfile") and not any(h.get("fault") for h in case["script"])


# ---------------------------------------------------------------- oracle
def policy_in_effect(case):
    """request ?? pool/manager ?? default"""
    for p in (case["kw"], case["pool"]):
        if p[0] != "none":
            return p
    return ["int", 3]


def budget_of(p):
    """(max redirects or None, raise_on_redirect, disabled)"""
    if p[0] == "false":
        return 0, False, True
    if p[0] == "int":
        return p[1], True, False
    r = p[1]
    vals = [r[k] for k in ("redirect", "total") if k in r and r[k] is not None and r[k] is not False] if True else []
    total = r.get("total", 10)
    red = r.get("redirect")
    if total is False or red is False:
        return 0, False, True
    cands = [x for x in (total, red) if x is not None]
    return (min(cands) if cands else None), r.get("raise_on_redirect", True), False


CONTENT = {"content-encoding", "content-language", "content-location", "content-type", "content-length", "digest", "last-modified", "transfer-encoding"}


def oracle_fault(case, obs):
    """a chain with connection faults: with redirects disabled nothing but the start URL may be asked for, however often"""
    log, out = obs
    un = lambda l: "".join(chr(c) for c in l)
    budget, raises, disabled = budget_of(policy_in_effect(case))
    if not case["redirect"] or disabled:
        other = [un(e[1]) for e in log if un(e[1]) != case["start"][3]]
        if other:
            return "redirects are disabled (redirect=False or retries=False) but after a connection fault %s was requested: the target was contacted" % other[0]
    elif budget is not None:
        hops = 0
        for a, b in zip(log, log[1:]):
            if (a[0], a[1]) != (b[0], b[1]):
                hops += 1
        if hops > budget:
            return "%d redirects followed (connection faults in between), the policy allows %d" % (hops, budget)
    return None


def oracle(case, obs):
    log, out = obs
    if out == [9]:
        return None
    if any(h.get("fault") for h in case["script"]):
        return oracle_fault(case, obs)
    script = case["script"]
    n = len(log)
    if n == 0:
        return None if out == [2] else "nothing was sent"
    followed = n - 1
    budget, raises, disabled = budget_of(policy_in_effect(case))
    un = lambda l: "".join(chr(c) for c in l)
    if not case["redirect"] or disabled:
        if followed:
            return "redirects are disabled (redirect=False or retries=False) but %d were followed: the target was contacted" % followed
    if budget is not None and followed > budget:
        where = "request" if case["kw"][0] != "none" else ("manager/pool" if case["pool"][0] != "none" else "default")
        return "%d redirects followed, the %s-level policy allows %d" % (followed, where, budget)
    # per hop: 303 rewrite / method+body kept / Location resolved against the current URL
    for i in range(1, n):
        h = script[i - 1]
        prev, cur = log[i - 1], log[i]
        if h["to"] is not None:
            exp_o = h["to"]
            o = cur[0]
            if case["kind"] != "pool" and (un(o[0]), un(o[1]).lower(), (o[2][0][1] if o[2] else None) or (443 if un(o[0]) == "https" else 80)) != \
                    (exp_o[0], exp_o[1].lower(), exp_o[2] or (443 if exp_o[0] == "https" else 80)):
                return "hop %d went to %r, the Location resolves to %r" % (i, (un(o[0]), un(o[1]), o[2]), exp_o)
            if un(cur[1]) != exp_o[3]:
                return "hop %d requested %r, the Location resolves to %r" % (i, un(cur[1]), exp_o[3])
        if h["status"] == 303:
            if un(cur[2]) != "GET" or cur[3]:
                return "after 303 the follow-up is %s with%s body" % (un(cur[2]), "" if cur[3] else "out")
            if any(un(k) in CONTENT for k, v in cur[4]):
                return "after 303 content headers are still sent"
        else:
            if cur[2] != prev[2] or cur[3] != prev[3]:
                return "after %d the method/body changed" % h["status"]
    # how it ended
    last = script[n - 1]
    is_redirect = last["status"] in (301, 302, 303, 307, 308) and last["to"] is not None
    if out == [2]:
        if not (case["kind"] == "pool" and case["assert_same_host"]):
            return "HostChangedError outside a single-host pool with assert_same_host"
        nxt = last["to"]
        st = case["start"]
        same = nxt is not None and (nxt[0], nxt[1].lower(), nxt[2] or 80) == (st[0], st[1].lower(), st[2] or 80)
        return "HostChangedError for a same-host redirect" if same else None
    if is_redirect and case["redirect"] and not disabled:
        if budget is not None and followed == budget:
            # the chain was cut exactly by the budget
            if raises and out != [1]:
                return "redirect budget exhausted: expected MaxRetryError"
            if not raises and out != [0, Z(last["status"])]:
                return "redirect budget exhausted with raise_on_redirect=False: expected the last 3xx response"
        elif out not in ([1], [0, Z(last["status"])]):
            return "a redirect was not followed and the result is neither the 3xx response nor MaxRetryError"
    elif out[0] == 1:
        return "MaxRetryError although no redirect budget was exceeded"
    return None


def signature(case, obs, msg):
    m = msg or ""
    sig = {"msg": m[:50], "kind": case["kind"]}
    if "manager/pool-level policy allows" in m:
        sig["level"] = "manager"
    return sig


def nontrivial(case, obs):
    if not any(h["status"] >= 300 for h in case["script"][:max(1, len(obs[0]))]):
        return None
    return hashlib.sha1(repr((case, obs)).encode()).hexdigest()[:16]


def histogram(cases, obss):
    h = {"kind": {}, "followed": {}, "outcome": {}, "placement": {}}
    for c, o in zip(cases, obss):
        h["kind"][c["kind"]] = h["kind"].get(c["kind"], 0) + 1
        pl = "request" if c["kw"][0] != "none" else ("pool/manager" if c["pool"][0] != "none" else "default")
        h["placement"][pl] = h["placement"].get(pl, 0) + 1
        if o:
            k = max(0, len(o[0]) - 1); h["followed"][k] = h["followed"].get(k, 0) + 1
            f = {0: "response", 1: "MaxRetryError", 2: "HostChangedError", 9: "script-end"}.get(o[1][0]); h["outcome"][f] = h["outcome"].get(f, 0) + 1
    return h


# ---------------------------------------------------------------- generators
ORIGINS = [["http", "a.example", None], ["http", "b.example", 8080], ["http", "A.example", 80], ["https", "a.example", None],
           ["http", "a.example", 81], ["https", "c.example", 8443]]
CODES = [301, 302, 303, 307, 308]


def rand_policy(rng, allow_none=True):
    r = rng.random()
    if allow_none and r < 0.35:
        return ["none"]
    if r < 0.45:
        return ["false"]
    if r < 0.65:
        return ["int", rng.choice([0, 1, 2, 5])]
    d = {}
    if rng.random() < 0.5:
        d["redirect"] = rng.choice([0, 1, 2])
        d["total"] = rng.choice([None, 5, 10, 1])
    else:
        d["total"] = rng.choice([0, 1, 2])
    d["raise_on_redirect"] = rng.random() < 0.6
    return ["retry", d]


def make_chain(rng, kind, start, maxlen=6):
    cur = list(start)
    script = []
    n = rng.randint(0, maxlen)
    pool_origin = start[:3]
    for i in range(n):
        same = rng.random() < (0.6 if kind != "pool" else 0.85)
        if same:
            o = cur[:3]
        else:
            o = rng.choice([x for x in ORIGINS if x[0] == "http" or kind != "proxy"])
        forms = ["abs"]
        if o == cur[:3]:
            forms += ["path"]
            if kind != "pool":
                forms += ["rel"]
        if o[0] == cur[0] and kind != "pool":
            forms += ["schemerel"]
        form = rng.choice(forms)
        if form == "rel":
            base = cur[3].rsplit("/", 1)[0]
            path = base + "/r%d" % i
        else:
            path = rng.choice(["/", "/x/y%d" % i, "/p%d" % i, "/loop"])
        to = [o[0], o[1], o[2], path]
        status = rng.choice(CODES)
        h = {"status": status, "to": to, "form": form}
        # sanity: the rendered Location must resolve to `to`
        loc = render_location(url_of(cur), h)
        if urljoin(url_of(cur), loc) != url_of(to):
            h["form"] = "abs"
        script.append(h)
        cur = to
    script.append({"status": rng.choice([200, 200, 200, 204, 301]), "to": None, "form": "abs"})
    return script + [{"status": 200, "to": None, "form": "abs"}] * 2


def one_case(rng, kind=None):
    kind = kind or rng.choice(["manager", "manager", "proxy", "pool"])
    start_o = rng.choice([o for o in ORIGINS if o[0] == "http"] if kind != "manager" else ORIGINS)
    start = start_o + [rng.choice(["/", "/a/b", "/start"])]
    kw = rand_policy(rng)
    pool = rand_policy(rng)
    if kw[0] == "retry" or pool[0] == "retry":
        pass
    method = rng.choice(["GET", "POST", "PUT", "HEAD"])
    body = method in ("POST", "PUT") and rng.random() < 0.8
    headers = [["X-Keep", "1"]]
    if body:
        headers.append(["Content-Type", "text/plain"])
    return {"kind": kind, "redirect": rng.random() < 0.9, "assert_same_host": kind == "pool" and rng.random() < 0.8,
            "start": start, "method": method, "body": body, "headers": headers, "hkind": rng.choice(["dict", "hd", "default"]) if kind != "pool" else rng.choice(["dict", "hd"]),
            "kw": kw, "pool": pool, "script": make_chain(rng, kind, start), "explicit_none": kw[0] == "none" and rng.random() < 0.3}


def cases(rng, tier):
    out = []
    n = 7500 if tier == "quick" else 200000
    for _ in range(n):
        out.append(one_case(rng))
    # systematic placements x policies on a fixed long same-origin chain and a cross-origin chain
    pols = [["none"], ["false"], ["int", 0], ["int", 1], ["int", 2], ["retry", {"redirect": 1, "total": 10}], ["retry", {"total": 1}],
            ["retry", {"redirect": 2, "total": 10, "raise_on_redirect": False}], ["retry", {"total": 0, "raise_on_redirect": False}]]
    chain = [{"status": c, "to": ["http", "a.example", None, "/h%d" % i], "form": "abs"} for i, c in enumerate([302, 301, 307, 303, 308, 302])]
    chain += [{"status": 200, "to": None, "form": "abs"}] * 3
    for kind in ("manager", "proxy", "pool"):
        for p in pols:
            for place in ("kw", "pool"):
                c = {"kind": kind, "redirect": True, "assert_same_host": kind == "pool", "start": ["http", "a.example", None, "/"], "method": "POST",
                     "body": True, "headers": [["Content-Type", "t/p"], ["X-Keep", "1"]], "hkind": "dict",
                     "kw": p if place == "kw" else ["none"], "pool": p if place == "pool" else ["none"], "script": chain}
                out.append(c)
                c2 = dict(c); c2["redirect"] = False
                out.append(c2)
                if place == "pool":
                    out.append(dict(c, explicit_none=True))      # retries=None passed explicitly at the request
                if p[0] in ("none", "int") and place == "kw":
                    out.append(dict(c, chunked=True))             # the body sent chunked: after a 303 nothing of that may remain
    # a 303 with the caller's content headers spelled in lower or upper case: none of them survives on the follow-up GET
    for kind in ("manager", "proxy", "pool"):
        for hs in ([["content-type", "t/p"], ["content-language", "en"], ["X-Keep", "1"]], [["CONTENT-TYPE", "t/p"], ["CONTENT-ENCODING", "identity"], ["X-Keep", "1"]],
                   [["Content-type", "t/p"], ["content-Location", "/x"], ["X-Keep", "1"]]):
            for hk in ("dict", "hd"):
                out.append({"kind": kind, "redirect": True, "assert_same_host": kind == "pool", "start": ["http", "a.example", None, "/"], "method": "POST",
                            "body": True, "headers": hs, "hkind": hk, "kw": ["retry", {"total": 8, "redirect": 8}], "pool": ["none"],
                            "script": [{"status": 303, "to": ["http", "a.example", None, "/see"], "form": "abs"}, {"status": 200, "to": None, "form": "abs"}, {"status": 200, "to": None, "form": "abs"}]})
    # a seekable file body at offset 0 through chains of body-preserving redirects: every hop carries the body
    for kind in ("manager", "proxy", "pool"):
        for codes in ((307, 308), (308, 307, 307), (301, 307), (302, 308, 307), (307,)):
            for method in ("POST", "PUT"):
                ch = [{"status": c, "to": ["http", "a.example", None, "/f%d" % i], "form": "abs"} for i, c in enumerate(codes)] + [{"status": 200, "to": None, "form": "abs"}] * 3
                if method == "POST" and codes[0] in (301, 302):
                    continue          # (a POST is rewritten to GET by 301/302: PUT keeps its body)
                out.append({"kind": kind, "redirect": True, "assert_same_host": kind == "pool", "start": ["http", "a.example", None, "/"], "method": method,
                            "body": True, "bodyfile": True, "headers": [["X-Keep", "1"]], "hkind": "dict", "kw": ["retry", {"total": 8, "redirect": 8}], "pool": ["none"], "script": ch})
    # an attempt that fails on the connection before it is answered, then a redirect: the retry carries the same redirect settings
    F = {"fault": "eof", "status": 0, "to": None, "form": "abs"}
    R = lambda i: {"status": 302, "to": ["http", "a.example", None, "/t%d" % i], "form": "abs"}
    OK = {"status": 200, "to": None, "form": "abs"}
    for kind in ("manager", "proxy", "pool"):
        for red in (False, True):
            for pol in (["none"], ["retry", {"total": 4, "redirect": 2}], ["retry", {"total": 4, "redirect": 1, "raise_on_redirect": False}], ["int", 3]):
                S503 = {"fault": "503", "status": 0, "to": None, "form": "abs"}
                X = lambda i: {"status": 302, "to": ["http", "b.example", 8080, "/x%d" % i], "form": "abs"}
                for script in ([F, R(1), OK, OK], [F, R(1), R(2), R(3), OK, OK], [R(1), F, R(2), OK, OK],
                               [S503, R(1), OK, OK], [S503, X(1), OK, OK], [S503, R(1), R(2), R(3), OK, OK], [R(1), S503, X(2), OK, OK]):
                    if kind == "pool" and any(h.get("to") and h["to"][1] != "a.example" for h in script):
                        continue
                    out.append({"kind": kind, "redirect": red, "assert_same_host": kind == "pool", "start": ["http", "a.example", None, "/"], "method": "GET",
                                "body": False, "headers": [["X-Keep", "1"]], "hkind": "dict", "kw": pol, "pool": ["none"], "script": [dict(h) for h in script]})
    return out


def shrinks(case):
    sc = case["script"]
    for i in range(len(sc) - 1):
        if sc[i]["to"] is not None and sc[i]["form"] == "abs":
            c = dict(case); c["script"] = sc[:i] + sc[i + 1:]
            yield c
