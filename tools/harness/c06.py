"""C06 — credentials are never forwarded to a different origin on redirect (engine: harness/c05.py)."""
from __future__ import annotations

import hashlib

from harness import c05
from harness.c05 import encode, describe, impl, url_of, render_location  # noqa: F401

ID = "C06"
RUN_MOD = "Run_C05"
GEN = c05.GEN
RULE = ("redirect chains over origins that differ in host, port, scheme or only in letter case / explicit default port; every casing of the "
        "sensitive header names; headers as dict, HTTPHeaderDict (incl. repeated fields) or manager-level defaults; custom removal sets; all 3xx codes "
        "and Location forms; PoolManager, ProxyManager, bare pool with assert_same_host; non-trivial = a redirect was followed; distinct = distinct (case, observation)")
TRUSTED_BASE = c05.TRUSTED_BASE
ASSUMPTIONS = c05.ASSUMPTIONS
EXHAUSTIVE = {"quick": False, "thorough": False}
CASE_TIMEOUT = 20

DEFAULT_RM = {"authorization", "cookie", "proxy-authorization"}
CONTENT = c05.CONTENT


def norm_origin(o):
    return (o[0], o[1].lower(), o[2] or (443 if o[0] == "https" else 80))


def removal_set(case):
    for p in (case["kw"], case["pool"]):
        if p[0] == "retry" and p[1].get("rm") is not None:
            return {x.lower() for x in p[1]["rm"]}
        if p[0] != "none":
            return DEFAULT_RM
    return DEFAULT_RM


def oracle(case, obs):
    log, out = obs
    if out == [9]:
        return None
    un = lambda l: "".join(chr(c) for c in l)
    rm = removal_set(case)
    entries = []
    for o, p, m, b, hs in log:
        entries.append((norm_origin([un(o[0]), un(o[1]), (o[2][0][1] if o[2] else None)]), {(un(k), un(v)) for k, v in hs}))
    if case["kind"] == "pool":
        st = norm_origin(case["start"][:3])
        if case["assert_same_host"]:
            for i, h in enumerate(case["script"][:len(entries)]):
                if h["to"] is not None and h["status"] in (301, 302, 303, 307, 308) and case["redirect"] and norm_origin(h["to"][:3]) != st:
                    if len(entries) > i + 1:
                        return "a single-host pool sent a request after a redirect to another host instead of raising HostChangedError"
        return None
    crossed = False
    dropped_content = False
    sent_m = {}
    for k, v in case["headers"]:
        sent_m[k.lower()] = (sent_m[k.lower()] + ", " + v) if k.lower() in sent_m else v
    sent = set(sent_m.items())
    for i, (org, hs) in enumerate(entries):
        if i > 0:
            prev = entries[i - 1][0]
            if org != prev:
                crossed = True
            if case["script"][i - 1]["status"] == 303:
                dropped_content = True
        if crossed:
            leaked = sorted(k for k, v in hs if k in rm)
            if leaked:
                return "request #%d to %s carries %s after the chain left the original origin" % (i, "%s://%s:%d" % org, ", ".join(leaked))
        # everything else is preserved
        for k, v in sent:
            if k in rm and (crossed or case["kind"] == "proxy" and i > 0):
                continue
            if dropped_content and k in CONTENT:
                continue
            if k in rm and i > 0:
                continue            # stripping on a same-origin hop is not forbidden (either-region)
            if (k, v) not in hs:
                return "request #%d lost header %s although it is not in the removal set" % (i, k)
    return None


def signature(case, obs, msg):
    import re
    m = re.match(r"request #(\d+) to http://proxy\.example:3128 carries", msg or "")
    if m and case["kind"] == "proxy":
        return {"kind": "redirect-to-the-forwarding-proxy-itself"}
    return {"msg": (msg or "")[:50], "kind": case["kind"]}


def nontrivial(case, obs):
    if len(obs[0]) < 2:
        return None
    return hashlib.sha1(repr((case, obs)).encode()).hexdigest()[:16]


histogram = c05.histogram

SENSITIVE = ["Authorization", "authorization", "AUTHORIZATION", "Cookie", "COOKIE", "Proxy-Authorization", "proxy-authorization", "X-API-Secret", "x-api-secret"]


def one_case(rng):
    kind = rng.choice(["manager", "manager", "manager", "proxy", "pool"])
    c = c05.one_case(rng, kind)
    c["redirect"] = True
    # (sometimes nothing but credentials: a mapping that is empty once they are stripped)
    hs = [] if rng.random() < 0.15 else [["X-Keep", "1"], ["Accept-Language", "en"]]
    for name in rng.sample(SENSITIVE, rng.randint(1, 3)):
        if name.lower() in {h[0].lower() for h in hs}:
            # the same field again: only meaningful for an HTTPHeaderDict (repeated field, any casing)
            if c["hkind"] == "hd" and rng.random() < 0.6:
                hs.append([name, "secret2-" + name[:3]])
            continue
        hs.append([name, "secret-" + name[:3]])
    if c["body"] and len(hs) > 3:
        hs.append(["Content-Type", "text/plain"])
    c["headers"] = hs
    # a policy that keeps the chain going, sometimes with a custom removal set
    r = rng.random()
    pol = ["retry", {"total": 8, "redirect": 8}]
    if r < 0.35:
        pol[1]["rm"] = rng.choice([["X-API-Secret"], ["x-api-secret", "Authorization"], [], ["Cookie"]])
    elif r < 0.5:
        pol = ["int", 8]
    elif r < 0.6:
        pol = ["none"]
    if rng.random() < 0.7:
        c["kw"], c["pool"] = pol, ["none"]
    else:
        c["kw"], c["pool"] = ["none"], pol
    if kind == "pool":
        c["assert_same_host"] = rng.random() < 0.8
    return c


def cases(rng, tier):
    n = 8000 if tier == "quick" else 200000
    out = [one_case(rng) for _ in range(n)]
    # targeted: same-origin hop first, then cross-origin (custom removal set must survive the first increment)
    A = ["http", "a.example", None]
    for rmset in (None, ["X-API-Secret"]):
        for hk in ("dict", "hd", "default"):
            for code in (301, 302, 303, 307, 308):
                for tgt, form in ((["http", "b.example", 8080, "/final"], "abs"), (["http", "A.EXAMPLE", 80, "/final"], "abs"),
                                  (["https", "a.example", None, "/final"], "abs"), (["http", "a.example", 81, "/final"], "schemerel"),
                                  (["http", "b.example", 8080, "/final"], "schemerel")):
                    pol = ["retry", {"total": 5, "redirect": 5}]
                    if rmset is not None:
                        pol[1]["rm"] = rmset
                    out.append({"kind": "manager", "redirect": True, "assert_same_host": False, "start": A + ["/start"], "method": "GET", "body": False,
                                "headers": [["Authorization", "s1"], ["X-API-Secret", "s2"], ["X-Keep", "1"]], "hkind": hk, "kw": pol, "pool": ["none"],
                                "script": [{"status": code, "to": A + ["/step2"], "form": "path"}, {"status": code, "to": tgt, "form": form},
                                           {"status": 302, "to": A + ["/back"], "form": "abs"}, {"status": 200, "to": None, "form": "abs"},
                                           {"status": 200, "to": None, "form": "abs"}]})
    # nothing but credentials, as request headers and as manager-level defaults: stripping leaves an empty mapping
    for hk in ("dict", "hd", "default"):
        for code in (301, 302, 303, 307, 308):
            for hs in ([["Authorization", "s1"]], [["Cookie", "c=1"], ["authorization", "s1"]], [["Proxy-Authorization", "p"]]):
                for kind in ("manager", "proxy"):
                    out.append({"kind": kind, "redirect": True, "assert_same_host": False, "start": A + ["/start"], "method": "GET", "body": False,
                                "headers": hs, "hkind": hk, "kw": ["retry", {"total": 5, "redirect": 5}], "pool": ["none"],
                                "script": [{"status": code, "to": ["http", "b.example", 8080, "/final"], "form": "abs"},
                                           {"status": 302, "to": ["http", "c.example", None, "/third"], "form": "abs"},
                                           {"status": 200, "to": None, "form": "abs"}, {"status": 200, "to": None, "form": "abs"}]})
    # nothing but credentials, an https start (through a proxy: a tunnel, where the manager adds no headers of its own) and a redirect to an
    # http URL of another origin (through a proxy: forwarded): stripping leaves an empty mapping on the way into the second route
    for hk in ("dict", "hd", "default"):
        for code in (301, 302, 307):
            for hs in ([["Authorization", "s1"]], [["Cookie", "c=1"], ["authorization", "s1"]]):
                for kind in ("manager", "proxy"):
                    out.append({"kind": kind, "redirect": True, "assert_same_host": False, "start": ["https", "a.example", None, "/start"], "method": "GET", "body": False,
                                "headers": hs, "hkind": hk, "kw": ["retry", {"total": 5, "redirect": 5}], "pool": ["none"],
                                "script": [{"status": code, "to": ["http", "b.example", 8080, "/final"], "form": "abs"},
                                           {"status": 302, "to": ["http", "c.example", None, "/third"], "form": "abs"},
                                           {"status": 200, "to": None, "form": "abs"}, {"status": 200, "to": None, "form": "abs"}]})
    # through a forwarding proxy the pool in hand is the proxy's: a redirect to the proxy's own address
    for code in (301, 302, 303, 307, 308):
        for hk in ("dict", "hd", "default"):
            for form in ("abs", "schemerel"):
                out.append({"kind": "proxy", "redirect": True, "assert_same_host": False, "start": A + ["/start"], "method": "GET", "body": False,
                            "headers": [["Authorization", "s1"], ["Cookie", "c=1"], ["X-Keep", "1"]], "hkind": hk, "kw": ["retry", {"total": 5, "redirect": 5}], "pool": ["none"],
                            "script": [{"status": code, "to": ["http", "proxy.example", 3128, "/final"], "form": form}, {"status": 200, "to": None, "form": "abs"},
                                       {"status": 200, "to": None, "form": "abs"}]})
    # a start URL written without its scheme ("host/path": urllib3 reads it as http) x every Location form, first hop to another origin
    for hk in ("dict", "hd", "default"):
        for code in (301, 302, 303, 307, 308):
            for tgt, form in ((["http", "b.example", 8080, "/final"], "schemerel"), (["http", "b.example", None, "/final"], "schemerel"), (["http", "b.example", 8080, "/final"], "abs"),
                              (["http", "a.example", None, "/same"], "schemerel")):
                out.append({"kind": "manager", "redirect": True, "assert_same_host": False, "start": ["http", "a.example", None, "/start"], "schemeless": True, "method": "GET", "body": False,
                            "headers": [["Authorization", "s1"], ["Cookie", "c=1"], ["X-Keep", "1"]], "hkind": hk, "kw": ["retry", {"total": 5, "redirect": 5}], "pool": ["none"],
                            "script": [{"status": code, "to": tgt, "form": form}, {"status": 200, "to": None, "form": "abs"}, {"status": 200, "to": None, "form": "abs"}]})
    for _ in range(300 if tier == "quick" else 6000):
        c = one_case(rng)
        # (a relative Location cannot be resolved against a URL without a scheme: urljoin leaves it a bare path)
        if c["kind"] == "manager" and c["start"][0] == "http" and c["start"][2] is None and c["script"][0]["form"] in ("abs", "schemerel"):
            c["schemeless"] = True
            out.append(c)
    return out


shrinks = c05.shrinks
