"""C01 — a pool never loses, duplicates or leaks connection slots, whatever the outcome.

case = {"maxsize": n, "block": bool, "reqs": [{"method": m, "preload": bool, "retries": policy, "disposal": d}, ...], "script": [attempt, ...]}
attempt = {"connect": ok|refused|timeout|interrupt, "send": ok|epipe|reset|other|timeout|interrupt,
           "recv": ["resp", status, retry_after|None, keepalive, body(ok|short|interrupt)] | ["timeout"]|["reset"]|["eof"]|["garbage"]|["interrupt"]}
disposal = read_all | release | drain | close | close_release   (what the caller does with a response it still owns)
After every request (and disposal) the pool's queue, the connections still leased, the open sockets and the number of
connects are observed."""
from __future__ import annotations

import gc
import hashlib

from sexp import S, Z, B, Opt
from harness import c04

ID = "C01"
GEN = ["Gen_Exc", "Gen_Urlopen", "Gen_Retry", "Gen_Read"]
RULE = ("histories of 1-4 requests on one pool (maxsize 1-3, block on/off), each with preload on/off, retries in {False,0,1,2,Retry(...)}, "
        "and per-attempt outcomes over connect refused/timeout/interrupt, send EPIPE/RESET/other/timeout/interrupt, receive timeout/reset/EOF/garbage/"
        "interrupt, 2xx/5xx keep-alive or close with complete, short or interrupted bodies; every way of disposing of the response; "
        "non-trivial = some attempt failed or a response was disposed explicitly; distinct = distinct (case, observation)")
TRUSTED_BASE = [
    "model coq/model/PoolAcct.v (slot accounting of urlopen/_get_conn/_put_conn and of HTTPResponse release/drain/close/_error_catcher) over coq/model/Retry.v",
    "one outcome per attempt; response bodies arrive in the same segment as the headers; direct pools only; sockets are the in-memory ones of tools/netsim",
    "weakref.finalize / garbage collection of dropped responses is not modelled",
]
ASSUMPTIONS = ["requests are issued one after the other (C02 covers concurrency)", "release_conn is left at its default (= preload_content)"]
EXHAUSTIVE = {"quick": False, "thorough": False}
CASE_TIMEOUT = 30

CONN = {"ok": 0, "ok2": 0, "refused": 1, "timeout": 2, "interrupt": 3}
SEND = {"ok": 0, "epipe": 1, "reset": 2, "other": 3, "timeout": 4, "interrupt": 5}
RECV = {"timeout": 1, "reset": 2, "eof": 3, "garbage": 4, "interrupt": 5}
BODY = {"ok": 0, "short": 1, "interrupt": 2}
DISP = {"read_all": 0, "release": 1, "drain": 2, "close": 3, "close_release": 4}


def enc_attempt(a):
    r = a["recv"]
    if r[0] == "resp":
        re = [0, Z(r[1]), Opt(r[2] if isinstance(r[2], int) else None, Z), B(r[3]), BODY[r[4]], B(r[1] in (301, 302, 303, 307, 308))]
    else:
        re = [RECV[r[0]]]
    return [CONN[a["connect"]], SEND[a["send"]], re]


def encode(case):
    reqs = [[S(r["method"]), B(r["preload"]), c04.enc_arg(r["retries"]), DISP.get(r["disposal"], 9), B(r.get("redirect", False))] for r in case["reqs"]]
    return [case["maxsize"], B(case["block"]), reqs, [enc_attempt(a) for a in case["script"]]]


def describe(case):
    return case


_STASH = {}


def impl(case):
    import urllib3
    import urllib3.util.retry as ur
    from urllib3.connectionpool import HTTPConnectionPool
    from netsim.fakesock import installed, http_response
    from netsim.scripted import ScriptedNet, ScriptEnd, counting_pool_class, cname, inner_of

    class Net1(ScriptedNet):
        def __init__(self, script):
            super().__init__(script)
            self.nconn = 0

        def resolve(self, host, port):
            import socket as _s
            return [(_s.AF_INET, _s.SOCK_STREAM, 6, "", ("10.0.0.1", port)), (_s.AF_INET, _s.SOCK_STREAM, 6, "", ("10.0.0.2", port))]

        def connect(self, sock, host, port):
            if self.cur().get("connect") == "ok2":
                if host == "10.0.0.1":
                    self.log[self.k]["connected"] = True
                    raise ConnectionRefusedError(111, "Connection refused")
                from netsim.fakesock import Peer
                p = Peer()
            else:
                if self.cur().get("connect") == "interrupt":
                    sock.interrupted = True     # urllib3 cannot close it explicitly; the finalizer does
                p = super().connect(sock, host, port)
            sock.conn_ord = self.nconn
            self.nconn += 1
            return p

        def queue_recv(self, sock):
            a = self.cur()
            r = a.get("recv")
            if r[0] == "resp":
                status, ra, keep, body = r[1], r[2], r[3], r[4]
                hdrs = []
                if ra is not None:
                    hdrs.append(("Retry-After", str(ra)))
                if not keep:
                    hdrs.append(("Connection", "close"))
                if status in (301, 302, 303, 307, 308):
                    hdrs.append(("Location", "/next"))
                if body == "ok":
                    sock.peer.send(http_response(status, "X", hdrs, b"0123456789"))
                    if not keep:
                        sock.peer.eof()
                elif body == "short":
                    sock.peer.send(http_response(status, "X", hdrs + [("Content-Length", "10")], b"012"))
                    sock.peer.eof()
                else:
                    sock.peer.send(http_response(status, "X", hdrs + [("Content-Length", "10")], b"012"))
                    sock.peer.fail(KeyboardInterrupt())
            else:
                super().queue_recv(sock)

    script = []
    for a in case["script"]:
        script.append({"connect": a["connect"], "send": a["send"], "recv": a["recv"]})
    net = Net1(script)

    pause = {"interrupt": bool(case.get("sleep_interrupt"))}

    class FakeTime:
        @staticmethod
        def sleep(x):
            if pause["interrupt"]:
                pause["interrupt"] = False
                raise KeyboardInterrupt()

        @staticmethod
        def time():
            return 1.7e9
    old = ur.time
    ur.time = FakeTime
    problems = []
    out = []
    held_all = []
    try:
        with installed(net):
            Base = counting_pool_class(HTTPConnectionPool, net)
            counter = {"n": 0}
            flags = {"newconn_fails": False}

            class Pool(Base):
                def _new_conn(self):
                    if flags["newconn_fails"]:
                        raise TypeError("the connection class rejects its arguments")
                    c = super()._new_conn()
                    c._verif_id = counter["n"]
                    counter["n"] += 1
                    return c
            pool = Pool("dest.example", 80, maxsize=case["maxsize"], block=case["block"])

            def snapshot():
                q = []
                for c in list(pool.pool.queue):
                    if c is None:
                        q.append([])
                    else:
                        s = c.sock
                        q.append([[c._verif_id, Opt(getattr(s, "conn_ord", None) if s is not None else None)]])
                opened = sorted(s.conn_ord for s in net.socks if hasattr(s, "conn_ord") and not s.really_closed)
                if any((not hasattr(s, "conn_ord")) and not s.really_closed and not getattr(s, "interrupted", False) for s in net.socks):
                    problems.append("a socket created for a failed connect attempt was never closed (it is not idle in the pool)")
                return [q, opened, net.nconn]

            for rq in case["reqs"]:
                a = rq["retries"]
                arg = None if a[0] == "none" else (False if a[0] == "false" else (a[1] if a[0] == "int" else c04.build_retry(a[1])))
                body = b"payload" if rq["method"] in ("POST", "PUT") else None
                resp = None
                flags["newconn_fails"] = rq.get("newconn") == "raise"
                try:
                    kw = {} if rq.get("release") is None else {"release_conn": rq["release"]}
                    if rq.get("wait") == "interrupt":
                        # the caller is interrupted (KeyboardInterrupt) while it waits for a free slot
                        real_get = pool.pool.get

                        def fake_get(block=True, timeout=None, _q=pool.pool, _real=real_get):
                            if _q.empty():
                                raise KeyboardInterrupt()
                            return _real(block, timeout)
                        pool.pool.get = fake_get
                    resp = pool.urlopen(rq["method"], "/x", body=body, retries=arg, redirect=rq.get("redirect", False), preload_content=rq["preload"], pool_timeout=0.01, **kw)
                    res = [0, Z(resp.status)]
                except urllib3.exceptions.MaxRetryError as e:
                    r = e.reason
                    res = [2, []] if isinstance(r, urllib3.exceptions.ResponseError) else [2, [[S(cname(r)), Opt(inner_of(r), S)]]]
                except urllib3.exceptions.EmptyPoolError:
                    res = [4]
                except ScriptEnd:
                    res = [9]
                except KeyboardInterrupt:
                    res = [3]
                except Exception as e:
                    res = [1, [S(cname(e)), Opt(inner_of(e), S)]]
                    if not isinstance(e, urllib3.exceptions.HTTPError) and not flags["newconn_fails"]:
                        problems.append("a raw %s reached the caller (not a urllib3 exception)" % cname(e))
                if rq.get("wait") == "interrupt":
                    pool.pool.get = real_get
                held = resp is not None and getattr(resp, "_connection", None) is not None
                if held and rq["disposal"] == "hold":
                    held_all.append(resp)          # the caller keeps the response, unread, for the rest of the history
                elif held:
                    d = rq["disposal"]
                    try:
                        if d == "read_all":
                            try:
                                resp.read()
                            except urllib3.exceptions.HTTPError:
                                pass
                        elif d == "release":
                            resp.release_conn()
                        elif d == "drain":
                            resp.drain_conn()
                        elif d == "close":
                            resp.close()
                        elif d == "close_release":
                            resp.close()
                            resp.release_conn()
                        elif d == "none":
                            pass          # the body was preloaded: the caller has nothing left to do
                    except KeyboardInterrupt:
                        pass
                    except Exception as e:
                        problems.append("disposal %s raised %s" % (d, cname(e)))
                resp = None          # the caller drops the response once it has disposed of it
                gc.collect()
                out.append([res, B(held), snapshot()])
                if res == [9]:
                    break
        return out
    finally:
        ur.time = old
        _STASH[id(case)] = problems


def in_model_domain(case):
    """the model takes release_conn at its default (= preload_content); requests that pass it explicitly are judged by the oracle only"""
    if case.get("sleep_interrupt") or any(a["recv"][0] == "resp" and isinstance(a["recv"][2], str) for a in case["script"]):
        return False        # the pause before a retry fails (unparseable Retry-After, interrupt while sleeping): oracle only
    return all(rq.get("release") is None and rq.get("wait") is None and rq.get("newconn") is None and rq["disposal"] != "hold" for rq in case["reqs"])


# ---------------------------------------------------------------- oracle
def oracle(case, obs):
    problems = _STASH.pop(id(case), [])
    if problems:
        return problems[0]
    N = case["maxsize"]
    lost = 0            # responses disposed of by close() alone never give their slot back (known finding)
    holding = 0         # responses the caller keeps unread: each owns a slot and an open socket
    for i, (rq, o) in enumerate(zip(case["reqs"], obs)):
        res, held, (q, opened, nconn) = o
        if res == [9]:
            return None
        if held and rq["disposal"] == "close":
            lost += 1
        if held and rq["disposal"] == "hold":
            holding += 1
        conns = [e[0][0] for e in q if e]
        if len(set(conns)) != len(conns):
            return "after request #%d the pool holds a connection twice" % i
        if len(q) > N:
            return "after request #%d the pool holds %d entries, maxsize is %d" % (i, len(q), N)
        if case["block"] and len(opened) > N:
            return "block=True but %d sockets are open (maxsize %d)" % (len(opened), N)
        idle = {e[0][1][0] for e in q if e and e[0][1]}
        stray = [s for s in opened if s not in idle]
        if stray and len(stray) > holding:
            return "after request #%d (disposal %s) socket(s) %s are open but not idle in the pool" % (i, rq["disposal"], stray)
        if holding and len(q) != N - lost - holding:
            return "after request #%d the pool offers %d slots instead of %d (maxsize %d, %d responses still held)" % (i, len(q), N - lost - holding, N, holding)
        if holding:
            continue
        if len(q) != N - lost:
            if lost:
                return "after request #%d the pool offers %d slots instead of %d: a response disposed of by close() alone never returns its slot" % (i, len(q), N)
            return "after request #%d (result %s, disposal %s) the pool offers %d slots instead of %d" % (i, res[0], rq["disposal"], len(q), N)
        if lost and len(q) != N:
            return "after request #%d the pool offers %d slots instead of %d: a response disposed of by close() alone never returns its slot" % (i, len(q), N)
    return None


def signature(case, obs, msg):
    m = msg or ""
    sig = {"msg": m[:45]}
    mm = __import__("re").match(r"after request #(\d+) ", m)
    if mm and ("slots instead of" in m or "are open but not idle in the pool" in m):
        rq = case["reqs"][int(mm.group(1))]
        if rq.get("release") is False and rq["preload"] and rq["disposal"] == "none":
            return {"kind": "preloaded-with-release-conn-false-never-released"}
    if "disposed of by close() alone" in m:
        sig["kind"] = "close-only-disposal"
    return sig


def nontrivial(case, obs):
    interesting = any(o[0][0] != 0 or o[1] for o in obs)
    if not interesting:
        return None
    return hashlib.sha1(repr((case, obs)).encode()).hexdigest()[:16]


def histogram(cases, obss):
    h = {"maxsize": {}, "block": {}, "nreq": {}, "result": {}, "disposal": {}}
    names = {0: "response", 1: "raised", 2: "MaxRetryError", 3: "interrupt", 4: "EmptyPoolError", 9: "script-end"}
    for c, o in zip(cases, obss):
        h["maxsize"][c["maxsize"]] = h["maxsize"].get(c["maxsize"], 0) + 1
        h["block"][str(c["block"])] = h["block"].get(str(c["block"]), 0) + 1
        h["nreq"][len(c["reqs"])] = h["nreq"].get(len(c["reqs"]), 0) + 1
        for rq, r in zip(c["reqs"], o or []):
            k = names.get(r[0][0]); h["result"][k] = h["result"].get(k, 0) + 1
            if r[1]:
                h["disposal"][rq["disposal"]] = h["disposal"].get(rq["disposal"], 0) + 1
    return h


# ---------------------------------------------------------------- generators
def rand_attempt(rng):
    r = rng.random()
    a = {"connect": "ok", "send": "ok", "recv": ["resp", 200, None, True, "ok"]}
    if r < 0.05:
        a["connect"] = "ok2"
    elif r < 0.15:
        a["connect"] = rng.choice(["refused", "timeout", "interrupt"])
    elif r < 0.27:
        a["send"] = rng.choice(["epipe", "reset", "other", "timeout", "interrupt"])
        if a["send"] in ("epipe", "reset"):
            a["recv"] = rng.choice([["eof"], ["resp", 200, None, True, "ok"], ["reset"]])
    elif r < 0.45:
        a["recv"] = rng.choice([["timeout"], ["reset"], ["eof"], ["garbage"], ["interrupt"]])
    else:
        status = rng.choice([200, 200, 200, 500, 503, 302, 307])
        ra = rng.choice([None, None, 0, 1]) if status == 503 else None
        a["recv"] = ["resp", status, ra, rng.random() < 0.7, rng.choice(["ok", "ok", "ok", "short", "interrupt"])]
    return a


def rand_policy(rng):
    r = rng.random()
    if r < 0.2:
        return ["false"]
    if r < 0.5:
        return ["int", rng.choice([0, 1, 2])]
    if r < 0.55:
        return ["retry", {"total": 3, "redirect": rng.choice([0, 1]), "raise_on_redirect": rng.random() < 0.6}]
    if r < 0.6:
        return ["none"]
    return ["retry", {"total": rng.choice([1, 2, 3]), "forcelist": rng.choice([[], [500, 503]]), "raise_on_status": rng.random() < 0.5,
                      "allowed": rng.choice(["default", None])}]


def one_case(rng, nreq=None):
    n = nreq or rng.randint(1, 4)
    reqs = [{"method": rng.choice(["GET", "GET", "POST"]), "preload": rng.random() < 0.45, "retries": rand_policy(rng),
             "disposal": rng.choice(["read_all", "release", "drain", "close", "close_release", "read_all", "drain"]),
             "redirect": rng.random() < 0.5} for _ in range(n)]
    script = [rand_attempt(rng) for _ in range(3 * n + 2)] + [{"connect": "ok", "send": "ok", "recv": ["resp", 200, None, True, "ok"]}] * (4 * n + 4)
    for q in reqs:
        if rng.random() < 0.08:
            q["release"] = rng.random() < 0.5
    return {"maxsize": rng.choice([1, 1, 2, 3]), "block": rng.random() < 0.5, "reqs": reqs, "script": script}


def cases(rng, tier):
    out = []
    n = 8000 if tier == "quick" else 200000
    for _ in range(n):
        out.append(one_case(rng))
    # systematic: single request, every single-attempt outcome x disposal x preload x block, followed by a probe request
    ok = {"connect": "ok", "send": "ok", "recv": ["resp", 200, None, True, "ok"]}
    firsts = []
    for c in ("refused", "timeout", "interrupt"):
        firsts.append({"connect": c, "send": "ok", "recv": ["resp", 200, None, True, "ok"]})
    for s in ("epipe", "reset", "other", "timeout", "interrupt"):
        firsts.append({"connect": "ok", "send": s, "recv": ["eof"] if s in ("epipe", "reset") else ["resp", 200, None, True, "ok"]})
    for r in (["timeout"], ["reset"], ["eof"], ["garbage"], ["interrupt"]):
        firsts.append({"connect": "ok", "send": "ok", "recv": r})
    for status in (200, 503, 302):
        for keep in (True, False):
            for body in ("ok", "short", "interrupt"):
                firsts.append({"connect": "ok", "send": "ok", "recv": ["resp", status, 0 if status == 503 else None, keep, body]})
    # the pause before a status retry fails - Retry-After that cannot be parsed, an interrupt while sleeping - with the response of the
    # retried status still in the caller's or urlopen's hands
    for ra, si in (("soon", False), (1, True)):
        for preload in (False, True):
            for maxsize, block in ((1, True), (2, False)):
                first = {"method": "GET", "preload": preload, "retries": ["retry", {"total": 3, "forcelist": [500, 503], "raise_on_status": False, "allowed": "default"}],
                         "disposal": "read_all", "redirect": False}
                probe2 = {"method": "GET", "preload": True, "retries": ["int", 0], "disposal": "read_all", "redirect": False}
                out.append({"maxsize": maxsize, "block": block, "sleep_interrupt": si, "reqs": [first, dict(probe2), dict(probe2)],
                            "script": [{"connect": "ok", "send": "ok", "recv": ["resp", 503, ra, True, "ok"]}] + [ok] * 8})
    # release_conn=False with the body preloaded: "will release if you read the entire contents of the response such as when
    # preload_content=True" (urlopen's docstring) - the caller does nothing more
    for maxsize, block in ((1, True), (2, False)):
        out.append({"maxsize": maxsize, "block": block,
                    "reqs": [{"method": "GET", "preload": True, "release": False, "retries": ["int", 0], "disposal": "none", "redirect": False},
                             {"method": "GET", "preload": True, "retries": ["int", 0], "disposal": "read_all", "redirect": False}],
                    "script": [ok] * 4})
    # interrupted while waiting for a free slot: nothing was taken, nothing may be given back
    holder = {"method": "GET", "preload": False, "retries": ["int", 0], "disposal": "hold", "redirect": False}
    waiter = {"method": "GET", "preload": True, "retries": ["int", 0], "disposal": "read_all", "redirect": False, "wait": "interrupt"}
    for maxsize in (1, 2):
        for pol in (["int", 0], ["none"], ["false"]):
            out.append({"maxsize": maxsize, "block": True, "reqs": [dict(holder)] * maxsize + [dict(waiter, retries=pol), dict(waiter, retries=pol)],
                        "script": [ok] * 8})
    # the connection object cannot be built (_new_conn raises) after a slot was taken: the slot goes back
    failing = {"method": "GET", "preload": True, "retries": ["int", 0], "disposal": "read_all", "redirect": False, "newconn": "raise"}
    plain = {"method": "GET", "preload": True, "retries": ["int", 0], "disposal": "read_all", "redirect": False}
    for maxsize in (1, 2, 3):
        for block in (True, False):
            for pol in (["int", 0], ["int", 2], ["none"], ["false"]):
                out.append({"maxsize": maxsize, "block": block, "reqs": [dict(failing, retries=pol)] * (maxsize + 1) + [dict(plain), dict(failing, retries=pol), dict(plain)],
                            "script": [ok] * 8})
    # release_conn given explicitly, agreeing or not with preload_content: who gives the connection back, and how often
    probe = {"method": "GET", "preload": True, "retries": ["int", 0], "disposal": "read_all", "redirect": False}
    for f in firsts:
        for release in (True, False):
            for preload in (True, False):
                for disp in ("read_all", "release", "drain"):
                    for maxsize, block in ((1, True), (2, False), (2, True)):
                        first = {"method": "GET", "preload": preload, "release": release, "retries": ["int", 1], "disposal": disp, "redirect": True}
                        out.append({"maxsize": maxsize, "block": block, "reqs": [first, dict(probe), dict(first), dict(probe)], "script": [f] + [ok] * 10})
    for f in firsts:
        for disp in DISP:
            for preload in (True, False):
                for block in (True, False):
                    for pol in (["false"], ["int", 1]):
                        out.append({"maxsize": 1, "block": block, "reqs": [{"method": "GET", "preload": preload, "retries": pol, "disposal": disp, "redirect": True},
                                                                           {"method": "GET", "preload": True, "retries": ["int", 0], "disposal": "read_all", "redirect": False}],
                                    "script": [f] + [ok] * 6})
    return out


def shrinks(case):
    rq = case["reqs"]
    for i in range(len(rq)):
        if len(rq) > 1:
            c = dict(case); c["reqs"] = rq[:i] + rq[i + 1:]
            yield c
    sc = case["script"]
    for i in range(min(len(sc), 8)):
        c = dict(case); c["script"] = sc[:i] + sc[i + 1:]
        yield c
