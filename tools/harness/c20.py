"""C20 — multipart form encoding is structurally sound for any field content.

case = {"boundary": str, "shape": "list"|"dict"|"rf", "fields": [{"name":s, "filename":s|None, "ctype":s|None|"guess", "data":["s",str]|["b",hex]}]}
The implementation input is built in the requested shape (list of tuples, dict, RequestField objects);
the model receives the normalised fields (content type of 2-tuples = urllib3.fields.guess_content_type, an oracle)."""
from __future__ import annotations

import hashlib
import itertools

from sexp import S, Opt

ID = "C20"
GEN = ["Gen_Form"]
RULE = ("field lists of <= 4 fields; names/filenames from the hostile alphabet {\", CR, LF, ;, \\, =, space, non-ASCII, %} exhaustively up to the "
        "tier's length and random beyond; values str/bytes incl. CRLF, dash runs and near-boundary strings; tuple / dict / RequestField inputs; "
        "explicit boundary not occurring in the data; non-trivial = at least one field; distinct = distinct case")
TRUSTED_BASE = [
    "model coq/model/Multipart.v (encoder over bytes with a Gallina UTF-8 encoder) and the strict reference parser in the same file (WHATWG reading of quoted parameters)",
    "mimetypes.guess_type is an oracle returning a header-safe string",
]
ASSUMPTIONS = ["boundary consists of RFC 2046 bchars (ASCII, no CR/LF) and CRLF--boundary does not occur in any field's data",
               "caller-supplied content types are header-safe (no CR/LF)"]
EXHAUSTIVE = {"quick": False, "thorough": False}


def describe(case):
    return case


def ctype_of(f):
    if f["ctype"] == "guess":
        from urllib3.fields import guess_content_type
        return guess_content_type(f["filename"])
    return f["ctype"]


def data_of(f):
    return f["data"][1] if f["data"][0] == "s" else bytes.fromhex(f["data"][1])


def encode(case):
    fs = []
    for f in case["fields"]:
        d = f["data"]
        fs.append([S(f["name"]), Opt(f["filename"], S), Opt(ctype_of(f), S), [0, S(d[1])] if d[0] == "s" else [1, list(bytes.fromhex(d[1]))]])
    return [S(case["boundary"]), fs]


def build_input(case):
    from urllib3.fields import RequestField
    items = []
    for f in case["fields"]:
        d = data_of(f)
        if case.get("bnames"):
            # names and filenames given as UTF-8 bytes (accepted, and documented, by the header-parameter formatter): same encoding
            # (a file name whose content type is to be guessed must be a str: mimetypes does not take bytes)
            f = dict(f, name=f["name"].encode("utf-8"),
                     filename=f["filename"] if (f["filename"] is None or f["ctype"] == "guess") else f["filename"].encode("utf-8"))
        if case["shape"] == "rf":
            rf = RequestField(f["name"], d, filename=f["filename"])
            rf.make_multipart(content_type=ctype_of(f))
            items.append(rf)
        else:
            if f["filename"] is None and f["ctype"] is None:
                items.append((f["name"], d))
            elif f["ctype"] == "guess":
                items.append((f["name"], (f["filename"], d)))
            else:
                items.append((f["name"], (f["filename"], d, f["ctype"])))
    if case["shape"] == "dict":
        return dict(items)
    return items


def in_model_domain(case):
    """requests made through request_encode_body draw a random boundary: judged by the oracle only"""
    return not case.get("via_request")


def impl_via_request(case):
    """two requests through RequestMethods.request_encode_body with one and the same headers object: what does the second one send?"""
    import urllib3
    from urllib3._request_methods import RequestMethods
    sent = []

    class Rec(RequestMethods):
        def urlopen(self, method, url, body=None, headers=None, **kw):
            sent.append((bytes(body), dict(headers or {})))
            return None
    hk = case["via_request"]
    hdrs = urllib3.HTTPHeaderDict({"X-A": "1"}) if hk == "hd" else ({"X-A": "1"} if hk == "dict" else None)
    r = Rec(headers=hdrs) if hk == "default" else Rec()
    if hk == "default":
        r.headers = urllib3.HTTPHeaderDict({"X-A": "1"})
        hdrs = None
    try:
        for _ in range(2):
            r.request_encode_body("POST", "/u", fields=build_input(case), headers=hdrs)
    except UnicodeEncodeError:
        return [0]
    body, h = sent[-1]
    ct = [v for k, v in h.items() if k.lower() == "content-type"]
    return [1, list(body), S(ct[0] if ct else "")]


def impl(case):
    if case.get("via_request"):
        return impl_via_request(case)
    import urllib3
    try:
        inp = build_input(case)
        if case.get("twice"):
            # the same field objects encoded a second time (a retry, another boundary): encoding must not use them up
            urllib3.encode_multipart_formdata(inp, boundary="first" + case["boundary"])
        body, ct = urllib3.encode_multipart_formdata(inp, boundary=case["boundary"])
    except UnicodeEncodeError:
        return [0]
    return [1, list(body), S(ct)]


# ---------------------------------------------------------------- oracle: independent strict multipart parser
def esc_ref(s):
    return s.replace("\n", "%0A").replace("\r", "%0D").replace('"', "%22")


def parse_multipart(body: bytes, boundary: bytes):
    """strict: returns list of (header_lines, data) or raises ValueError"""
    delim = b"--" + boundary
    if not body.startswith(delim):
        raise ValueError("body does not start with the dash-boundary")
    pos = len(delim)
    parts = []
    while True:
        if body[pos:] == b"--\r\n":
            return parts
        if body[pos:pos + 2] != b"\r\n":
            raise ValueError("junk after boundary at %d" % pos)
        pos += 2
        hend = body.find(b"\r\n\r\n", pos)
        if hend < 0:
            raise ValueError("unterminated header block")
        headers = body[pos:hend].split(b"\r\n")
        pos = hend + 4
        nxt = body.find(b"\r\n" + delim, pos)
        if nxt < 0:
            raise ValueError("no closing boundary")
        parts.append((headers, body[pos:nxt]))
        pos = nxt + 2 + len(delim)


def parse_cd(value: bytes):
    """form-data; name="..."[; filename="..."] with WHATWG quoting: returns dict"""
    if not value.startswith(b"form-data"):
        raise ValueError("not form-data")
    rest = value[len(b"form-data"):]
    params = {}
    while rest:
        if not rest.startswith(b"; "):
            raise ValueError("junk in Content-Disposition: %r" % rest[:20])
        rest = rest[2:]
        eq = rest.find(b'="')
        if eq < 0:
            raise ValueError("parameter without quoted value")
        pname = rest[:eq]
        rest = rest[eq + 2:]
        q = rest.find(b'"')
        if q < 0:
            raise ValueError("unterminated quoted value")
        if pname in params:
            raise ValueError("duplicate parameter %r" % pname)
        params[pname] = rest[:q]
        rest = rest[q + 1:]
    return params


def oracle(case, obs):
    fields = case["fields"]
    if case["shape"] == "dict":
        # a dict keeps one entry per name (last value, first position)
        d = {}
        for f in fields:
            d[f["name"]] = f
        fields = list(d.values())
    if obs[0] == 0:
        def enc_ok(s):
            try:
                s.encode("utf-8"); return True
            except UnicodeEncodeError:
                return False
        ok = all(enc_ok(f["name"]) and (f["filename"] is None or enc_ok(f["filename"])) and (f["data"][0] != "s" or enc_ok(f["data"][1])) for f in fields)
        return None if not ok else "UnicodeEncodeError for encodable input"
    body, ct = bytes(obs[1]), "".join(chr(c) for c in obs[2])
    boundary = case["boundary"]
    if case.get("via_request"):
        # a random boundary: the one the body really starts with
        boundary = body[2:body.index(b"\r\n")].decode("latin-1") if body.startswith(b"--") and b"\r\n" in body else ""
        if ct != "multipart/form-data; boundary=" + boundary:
            return "the second request through request_encode_body sent Content-Type %r, its body uses the boundary %r" % (ct, boundary)
    elif ct != "multipart/form-data; boundary=" + case["boundary"]:
        return "returned content type %r does not name the boundary used" % ct
    try:
        parts = parse_multipart(body, boundary.encode("latin-1"))
    except ValueError as e:
        return "encoded body is not well-formed multipart: %s" % e
    if len(parts) != len(fields):
        return "%d fields encoded but a strict parser sees %d parts" % (len(fields), len(parts))
    for i, (f, (headers, data)) in enumerate(zip(fields, parts)):
        exp_data = data_of(f)
        if isinstance(exp_data, str):
            exp_data = exp_data.encode("utf-8")
        if data != exp_data:
            return "part %d: data differs from the field's data (%r... vs %r...)" % (i, data[:20], exp_data[:20])
        exp_headers = {}
        cdp = {b"name": esc_ref(f["name"]).encode("utf-8")}
        if f["filename"] is not None:
            cdp[b"filename"] = esc_ref(f["filename"]).encode("utf-8")
        c = ctype_of(f)
        seen = {}
        for h in headers:
            if b": " not in h:
                return "part %d: malformed header line %r" % (i, h[:40])
            k, v = h.split(b": ", 1)
            if k in seen:
                return "part %d: duplicate header %r" % (i, k)
            seen[k] = v
        if set(seen) != ({b"Content-Disposition"} | ({b"Content-Type"} if c else set())):
            return "part %d: unexpected header set %r" % (i, sorted(seen))
        try:
            got = parse_cd(seen[b"Content-Disposition"])
        except ValueError as e:
            return "part %d: Content-Disposition does not parse strictly: %s" % (i, e)
        if got != cdp:
            return "part %d: Content-Disposition parameters %r differ from the field's %r" % (i, got, cdp)
        if c and seen[b"Content-Type"] != c.encode("utf-8"):
            return "part %d: Content-Type differs" % i
    return None


def signature(case, obs, msg):
    return {"msg": (msg or "")[:50]}


def nontrivial(case, obs):
    if not case["fields"]:
        return None
    return hashlib.sha1(repr(case).encode()).hexdigest()[:16]


def histogram(cases, obss):
    h = {"nfields": {}, "shape": {}, "outcome": {}}
    for c, o in zip(cases, obss):
        h["nfields"][len(c["fields"])] = h["nfields"].get(len(c["fields"]), 0) + 1
        h["shape"][c["shape"]] = h["shape"].get(c["shape"], 0) + 1
        k = "UnicodeEncodeError" if (o and o[0] == 0) else "encoded"
        h["outcome"][k] = h["outcome"].get(k, 0) + 1
    return h


ALPHA = ['"', "\r", "\n", ";", "\\", "=", " ", "a", "é", "%", "€", "-"]
BOUNDARIES = ["b", "xYz123", "----WebKitFormBoundary7MA4", "a-b_c.d:e=f?g", "0" * 32, "b b"]


def rand_text(rng, n, alpha=ALPHA):
    return "".join(rng.choice(alpha) for _ in range(n))


def rand_data(rng, boundary):
    r = rng.random()
    pieces = ["", "x", "\r\n", "--", "\r\n--", "\r\n-", "--" + boundary, "\r\n--" + boundary[:-1], "\n--" + boundary, "\r--" + boundary,
              'Content-Disposition: form-data; name="x"\r\n\r\n', "é€", "\r\n\r\n", "-" * 5, "\r", "\n"]
    s = "".join(rng.choice(pieces) for _ in range(rng.randint(0, 5)))
    if ("\r\n--" + boundary) in s:
        s = s.replace("\r\n--" + boundary, "\r\n-+" )
    if r < 0.5:
        return ["s", s]
    b = s.encode("utf-8")
    if rng.random() < 0.3:
        b += bytes(rng.randrange(256) for _ in range(rng.randint(1, 6)))
        if (b"\r\n--" + boundary.encode()) in b:
            b = b"zz"
    return ["b", b.hex()]


def rand_field(rng, boundary, name=None):
    name = rand_text(rng, rng.randint(0, 5)) if name is None else name
    r = rng.random()
    if r < 0.4:
        fn, ct = None, None
    elif r < 0.6:
        fn, ct = rand_text(rng, rng.randint(0, 4)), "guess"
    elif r < 0.7:
        fn, ct = rng.choice(["a.txt", "b.png", "c", "d.tar.gz", 'e".html']), "guess"
    else:
        fn, ct = rand_text(rng, rng.randint(0, 4)), rng.choice(["text/plain", "application/octet-stream; x=1", "", "image/png"])
    return {"name": name, "filename": fn, "ctype": ct, "data": rand_data(rng, boundary)}


def cases(rng, tier):
    out = []
    L = 2 if tier == "quick" else 3
    names = ["".join(p) for k in range(0, L + 1) for p in itertools.product(ALPHA, repeat=k)]
    if tier != "quick":
        names = rng.sample(names, min(len(names), 6000))
    for i, n in enumerate(names):
        b = BOUNDARIES[i % len(BOUNDARIES)]
        as_fn = (i % 3 == 0)
        f = {"name": "n" if as_fn else n, "filename": n if as_fn else None, "ctype": "text/plain" if as_fn else None, "data": ["s", "v"]}
        out.append({"boundary": b, "shape": ["list", "rf", "dict"][i % 3], "fields": [f]})
    # the same headers object used for two requests made through request_encode_body
    for hk in ("hd", "dict", "none", "default"):
        for fs in ([{"name": "a", "filename": None, "ctype": None, "data": ["s", "v"]}],
                   [{"name": "f", "filename": "x.txt", "ctype": "text/plain", "data": ["b", "0001"]}, {"name": "a", "filename": None, "ctype": None, "data": ["s", "v"]}]):
            out.append({"boundary": BOUNDARIES[0], "shape": "list", "fields": fs, "via_request": hk})
    nrand = 8000 if tier == "quick" else 150000
    for _ in range(nrand):
        b = rng.choice(BOUNDARIES)
        shape = rng.choice(["list", "list", "rf", "dict"])
        k = rng.randint(0, 4)
        fs = [rand_field(rng, b) for _ in range(k)]
        if shape == "dict":
            seen = set(); fs2 = []
            for f in fs:
                if f["name"] not in seen:
                    seen.add(f["name"]); fs2.append(f)
            fs = fs2
        if shape != "rf":
            # tuple inputs cannot express (filename None, ctype given) or (filename given, ctype None)
            for f in fs:
                if f["filename"] is None:
                    f["ctype"] = None
                elif f["ctype"] is None:
                    f["ctype"] = "guess"
        else:
            for f in fs:
                if f["ctype"] == "guess" and f["filename"] is None:
                    f["ctype"] = None
        c = {"boundary": b, "shape": shape, "fields": fs}
        if rng.random() < (0.5 if shape == "rf" else 0.15):
            c["twice"] = True          # the same input objects are encoded a second time
        if rng.random() < 0.2 and all("\ud800" <= ch <= "\udfff" for ch in "") and not any(0xd800 <= ord(ch) <= 0xdfff for f in fs for ch in f["name"] + (f["filename"] or "")):
            c["bnames"] = True
        out.append(c)
    # lone surrogates: UnicodeEncodeError
    for s in ["\ud800", "a\udfffb"]:
        out.append({"boundary": "b", "shape": "list", "fields": [{"name": s, "filename": None, "ctype": None, "data": ["s", "v"]}]})
        out.append({"boundary": "b", "shape": "list", "fields": [{"name": "n", "filename": None, "ctype": None, "data": ["s", s]}]})
    return out


def shrinks(case):
    fs = case["fields"]
    for i in range(len(fs)):
        c = dict(case); c["fields"] = fs[:i] + fs[i + 1:]
        yield c
