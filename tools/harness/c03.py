"""C03 — a response only ever contains bytes sent in reply to its own request.

case = {"maxsize": n, "reqs": [{"head": bool, "preload": bool, "caller": [kind, arg]}, ...], "replies": [reply, ...]}
The i-th request asks for /r<i>; the server answers every request it receives with the next scripted reply, whose body
bytes all carry the marker of the request being answered (request i -> byte 0x41+i); stray data carries 0x61+i.
reply = {"kind": resp|junk|eof, "status": 200|204|304, "framing": len|chunked|eof, "n": declared body length,
         "first": body bytes in the segment that holds the headers, "sent": body bytes sent in all (< n: early EOF),
         "keep": keep-alive, "stray": none|same_resp|sep_resp|same_junk|sep_junk, "eof_after": bool,
         "late": bool (Content-Length replies only: the rest of the body after `first` is held back until the next request arrives on
         that connection, and it reads like a complete response of its own - judged by the oracle only)}
caller = read_all | read_k k | release | keep | drain | close | stream amt
Observation per request: outcome, status, the runs of marker bytes delivered, whether reading raised, the socket that carried
the final attempt, the number of connections made so far."""
from __future__ import annotations

import gc
import hashlib

from sexp import S, Z, B, Opt

ID = "C03"
GEN = ["Gen_Exc", "Gen_Urlopen", "Gen_Read"]
RULE = ("histories of 2-4 GET/HEAD requests on one pool (maxsize 1-2) against a scripted keep-alive server: Content-Length / chunked / "
        "close-delimited / body-less replies, body split over segments, early EOF, keep-alive or close, a stray second response or junk after "
        "a reply (same or separate segment), EOF after a keep-alive reply, an interim 103 before the final reply (which follows at once or only with the next request; oracle only); caller reads all / reads k then releases / releases unread / keeps the "
        "unread response alive / drains / closes / streams; non-trivial = some reply was not a plain complete keep-alive one or the caller "
        "did not read it all; distinct = distinct (case, observation)")
TRUSTED_BASE = [
    "model coq/model/Wire.v (per-socket inbound item queues, checkout test, http.client response state, body readers)",
    "reply heads always arrive whole in one segment; servers answer each request only after receiving it; in-memory sockets of tools/netsim",
    "garbage collection of dropped responses is immediate (gc.collect after every disposal)",
    "interim (1xx) responses are not in the model: histories with a 103 before the final reply are judged by the oracle only (known finding C03-F2)",
]
ASSUMPTIONS = ["stray bytes are pending at checkout or never arrive (the property excludes bytes that arrive after checkout); the rest of a body may arrive late",
               "requests are issued one after the other", "retries is the library default (3)"]
EXHAUSTIVE = {"quick": False, "thorough": False}
CASE_TIMEOUT = 30

KIND = {"resp": 0, "junk": 1, "eof": 2}
FRAMING = {"len": 0, "chunked": 2, "eof": 1}
STRAY = {"none": 0, "same_resp": 1, "sep_resp": 2, "same_junk": 1, "sep_junk": 3}
END_OBS = [3, 0, [], 0, [], 0]
CALLER = {"read_all": 0, "read_k": 1, "release": 2, "keep": 3, "drain": 4, "close": 5, "stream": 6, "read1": 7}


def norm_reply(r, head):
    """what the server really does (shared by encode and impl)"""
    r = dict(r)
    if r["kind"] != "resp":
        return r
    if r.get("late"):
        r.update({"status": r["status"] if r.get("status") in BODY_STATUSES else 200, "framing": "chunked" if r.get("framing") == "chunked" else "len", "keep": True, "stray": "none", "eof_after": False})
        r["first"] = min(r["first"], 3)
        r["n"] = r["sent"] = r["first"] + LATE_TAIL
    bodyless = head or r["status"] in (204, 304)
    if bodyless:
        r["first"] = r["sent"] = 0
        r["framing"] = "len"
        r["n"] = 0 if r["status"] in (204, 304) else r["n"]
    if r["framing"] == "eof":
        r["keep"] = False
        r["stray"] = "none"
        r["sent"] = r["n"]
    r["sent"] = min(r["sent"], r["n"])
    r["first"] = min(r["first"], r["sent"])
    r["complete"] = bodyless or r["sent"] == r["n"]
    if not r["complete"]:
        r["stray"] = "none"
    r["bodyless"] = bodyless
    return r


LATE_TAIL = 56          # len of the held-back rest of a late reply (see serve)
BODY_STATUSES = (200, 201, 205, 206, 404, 500)          # statuses whose responses carry the body their framing announces


def is_late(r):
    return bool(r.get("late")) and r["kind"] == "resp"


def in_model_domain(case):
    """release_conn=True passed explicitly together with preload_content=False is judged by the oracle only"""
    return not any(q.get("release_now") or q.get("noauto") for q in case["reqs"]) and not any(r.get("interim") for r in case["replies"])


def enc_reply(r):
    # the model does not know which request a reply answers: it learns it when the request is sent
    if r["kind"] != "resp":
        return [KIND[r["kind"]]]
    if r.get("late"):
        # what is sent at once is `first` bytes; the rest (LATE_TAIL bytes) is held back until the next request arrives (model: SLate / IHold)
        first = min(r["first"], 3)
        return [0, r["status"] if r.get("status") in BODY_STATUSES else 200, FRAMING["chunked" if r.get("framing") == "chunked" else "len"], first + LATE_TAIL, first, first, B(True), 4, B(False)]
    return [0, r["status"], FRAMING[r["framing"]], r["n"], r["first"], r["sent"], B(r["keep"]), STRAY[r["stray"]], B(r["eof_after"])]


def encode(case):
    reqs = [[B(q["head"]), B(q["preload"]), [CALLER[q["caller"][0]], q["caller"][1] if len(q["caller"]) > 1 else 0]] for q in case["reqs"]]
    return [case["maxsize"], reqs, [enc_reply(r) for r in case["replies"]]]


def describe(case):
    return case


_STASH = {}


def runs(b):
    out = []
    for x in bytes(b):
        if out and out[-1][0] == x:
            out[-1][1] += 1
        else:
            out.append([x, 1])
    return out


def impl(case):
    import urllib3
    import urllib3.util.retry as ur
    from urllib3.connectionpool import HTTPConnectionPool
    from netsim.fakesock import installed, Net, Peer

    replies = list(case["replies"])
    state = {"k": 0, "end": False}
    problems = []
    served = {}

    class ScriptEnd(BaseException):
        pass

    def head_of(status, hdrs):
        return ("HTTP/1.1 %d X\r\n" % status + "".join("%s: %s\r\n" % kv for kv in hdrs) + "\r\n").encode()

    def chunked(b):
        return b"".join(b"1\r\n" + bytes([x]) + b"\r\n" for x in b)

    def serve(peer, req_index, head):
        if state["k"] >= len(replies):
            state["end"] = True
            peer.fail(ScriptEnd())
            return
        r = norm_reply(replies[state["k"]], head)
        state["k"] += 1
        if r["kind"] == "junk":
            peer.send(b"\x01\x02 not http\r\n\r\n")
            return
        if r["kind"] == "eof":
            peer.eof()
            return
        mark = bytes([0x41 + req_index])
        stray_resp = head_of(200, [("X-Req", "stray"), ("Content-Length", "3")]) + bytes([0x61 + req_index]) * 3
        stray_junk = bytes([0x61 + req_index]) * 5 + b"\r\n\r\n"
        hdrs = [("X-Req", str(req_index))]
        if r.get("bighead"):
            hdrs.append(("X-Pad", "p" * 9000))        # a head larger than the response's read buffer
        served.setdefault(req_index, []).append(r)
        fr = r["framing"]
        if r["bodyless"]:
            if r["status"] == 200:
                hdrs.append(("Content-Length", str(r["n"])))
        elif fr == "len":
            hdrs.append(("Content-Length", str(r["n"])))
        elif fr == "chunked":
            hdrs.append(("Transfer-Encoding", "chunked"))
        if not r["keep"]:
            hdrs.append(("Connection", "close"))
        body = mark * r["sent"]
        late = bool(r.get("late")) and not r["bodyless"]
        if late:
            # the rest of this body reads like a response of its own (to a client that lost track of the framing)
            tail = head_of(200, [("X-Req", str(req_index)), ("Content-Length", "3")]) + mark * 3
            tail = tail + mark * (LATE_TAIL - len(tail))
            assert len(tail) == LATE_TAIL
            body = mark * r["first"] + tail
        wire = (lambda b, last: chunked(b) + (b"0\r\n\r\n" if last else b"")) if fr == "chunked" and not r["bodyless"] else (lambda b, last: b)
        complete = r["complete"]
        seg1 = head_of(r["status"], hdrs) + wire(body[:r["first"]], complete and r["first"] == r["sent"])
        segs = [seg1]
        if r["sent"] > r["first"]:
            segs.append(wire(body[r["first"]:], complete))
        if complete:
            st = r["stray"]
            if st == "same_resp":
                segs[-1] += stray_resp
            elif st == "same_junk":
                segs[-1] += stray_junk
            elif st == "sep_resp":
                segs.append(stray_resp)
            elif st == "sep_junk":
                segs.append(stray_junk)
        if r.get("interim") and not late:
            # an interim 103 response first (RFC 8297); the final response follows at once ("pending") or only when the next request
            # arrives on the connection ("late": the server was still working on it)
            pre = b"HTTP/1.1 103 Early Hints\r\nX-Req: %d\r\nLink: </s.css>; rel=preload\r\n\r\n" % req_index
            if r["interim"] == "pending":
                segs[0] = pre + segs[0]
            else:
                peer.send(pre)
                peer.held = b"".join(segs)
                return
        if late and fr == "chunked":
            # the size line of the last data chunk arrives with the first bytes; its data - which reads like a response - is held back
            peer.send(head_of(r["status"], hdrs) + chunked(mark * r["first"]) + b"%x\r\n" % LATE_TAIL)
            peer.held = tail + b"\r\n0\r\n\r\n"
            return
        if late:
            peer.send(segs[0])
            peer.held = b"".join(segs[1:])
            return
        for s in segs:
            peer.send(s)
        if (not r["keep"]) or (not complete) or r["eof_after"] or fr == "eof":
            peer.eof()

    class Net3(Net):
        def __init__(self):
            super().__init__()
            self.nconn = 0

        def connect(self, sock, host, port):
            sock.conn_ord = self.nconn
            self.nconn += 1
            buf = bytearray()

            def on_data(peer, data):
                buf.extend(data)
                while b"\r\n\r\n" in buf:
                    headb, _, rest = bytes(buf).partition(b"\r\n\r\n")
                    del buf[:len(headb) + 4]
                    line = headb.split(b"\r\n")[0].decode()
                    method, path, _ = line.split(" ")
                    idx = int(path[2:])
                    sock.last_req = idx
                    if getattr(peer, "held", None):
                        peer.send(peer.held)          # the rest of a late body arrives now
                        peer.held = None
                    serve(peer, idx, method == "HEAD")
            return Peer(on_data)

    net = Net3()
    net.tls_like = bool(case.get("tls"))          # sockets with a TLS layer's pending(): decrypted bytes that poll() does not see

    class FakeTime:
        @staticmethod
        def sleep(x):
            pass

        @staticmethod
        def time():
            return 1.7e9
    old = ur.time
    ur.time = FakeTime
    out = []
    kept = []
    try:
        with installed(net):
            last_sock = {"s": None}

            net.before_send = lambda sock, data: last_sock.__setitem__("s", sock.conn_ord)
            pool = HTTPConnectionPool("dest.example", 80, maxsize=case["maxsize"], block=False)
            for i, rq in enumerate(case["reqs"]):
                resp = None
                delivered = b""
                read_err = False
                status = 0
                last_sock["s"] = None
                before = net.nconn
                try:
                    kw = {"release_conn": True} if rq.get("release_now") else {}
                    resp = pool.urlopen("HEAD" if rq["head"] else "GET", "/r%d" % i, preload_content=rq["preload"], pool_timeout=0.01, **kw)
                    outcome = 0
                    status = resp.status
                    if resp.headers.get("X-Req") != str(i):
                        problems.append("request #%d was handed a response the server did not send in reply to it (X-Req: %s)" % (i, resp.headers.get("X-Req")))
                except urllib3.exceptions.MaxRetryError as e:
                    outcome = 1
                except ScriptEnd:
                    outcome = 3
                except urllib3.exceptions.HTTPError as e:
                    outcome = 2
                except Exception as e:
                    outcome = 4
                    problems.append("a raw %s reached the caller" % type(e).__name__)
                if resp is not None:
                    c = rq["caller"]
                    if rq.get("noauto") and not rq["preload"]:
                        resp.auto_close = False          # the documented setting for wrapping a response in io.TextIOWrapper
                    try:
                        if rq["preload"]:
                            delivered = resp.data
                        elif c[0] == "read_all":
                            delivered = resp.read()
                        elif c[0] == "read_k":
                            delivered = resp.read(c[1])
                            resp.release_conn()
                        elif c[0] == "read1":
                            delivered = resp.read1(c[1])
                        elif c[0] == "release":
                            resp.release_conn()
                        elif c[0] == "keep":
                            resp.release_conn()
                            kept.append(resp)
                        elif c[0] == "drain":
                            resp.drain_conn()
                        elif c[0] == "close":
                            resp.close()
                            if rq.get("noauto"):
                                resp.release_conn()
                        elif c[0] == "stream":
                            acc = bytearray()
                            try:
                                for ch in resp.stream(c[1]):
                                    acc += ch
                            finally:
                                delivered = bytes(acc)
                    except urllib3.exceptions.HTTPError:
                        read_err = True
                    except ScriptEnd:
                        outcome = 3
                    except Exception as e:
                        read_err = True
                        problems.append("reading raised a raw %s" % type(e).__name__)
                sock_used = last_sock["s"]
                resp = None
                gc.collect()
                if outcome == 3:
                    out.append(END_OBS)
                    break
                out.append([outcome, status, [[x, n] for x, n in runs(delivered)], B(read_err), Opt(sock_used), net.nconn])
        return out
    finally:
        ur.time = old
        kept.clear()
        _STASH[id(case)] = (problems, served)


# ---------------------------------------------------------------- oracle (independent of the model)
def oracle(case, obs):
    problems, served = _STASH.pop(id(case), ([], {}))
    if problems:
        return problems[0]
    for i, o in enumerate(obs):
        outcome, status, delivered, read_err, sock, nconn = o
        if outcome == 3:
            return None
        mark = 0x41 + i
        late_here = any(r.get("late") for r in served.get(i, []))
        for x, n in delivered:
            if x != mark and not late_here:
                return "request #%d was delivered %d byte(s) 0x%02x that the server did not send for it" % (i, n, x)
        total = sum(n for _, n in delivered)
        sent = [r["sent"] for r in served.get(i, []) if r["kind"] == "resp"]
        if total and total > max(sent or [0]):
            return "request #%d was delivered %d bytes, more than the server sent for it" % (i, total)
        if outcome == 0 and status not in [r["status"] for r in served.get(i, []) if r["kind"] == "resp"] + [103 for r in served.get(i, []) if r.get("interim")]:
            return "request #%d got status %d which no reply to it carried" % (i, status)
    return None


def signature(case, obs, msg):
    import re
    m = re.match(r"request #(\d+) was handed a response the server did not send in reply to it", msg or "")
    if m and int(m.group(1)) >= 1 and case["reqs"][int(m.group(1)) - 1].get("release_now"):
        return {"kind": "explicit-release-conn-with-unread-body"}
    m = re.match(r"request #(\d+) (was delivered|got status|was handed a response the server did not send in reply to it)", msg or "")
    if m and any(r.get("interim") == "late" for r in case["replies"]):
        return {"kind": "interim-response-taken-as-final"}
    return {"msg": (msg or "")[:40]}


def plain(r):
    return r["kind"] == "resp" and r["status"] == 200 and r["framing"] == "len" and r["first"] >= r["n"] and r["sent"] == r["n"] \
        and r["keep"] and r["stray"] == "none" and not r["eof_after"]


def nontrivial(case, obs):
    used = case["replies"][:len(obs) + 2]
    if all(plain(r) for r in used) and all(q["caller"][0] == "read_all" for q in case["reqs"]):
        return None
    return hashlib.sha1(repr((case, obs)).encode()).hexdigest()[:16]


def histogram(cases, obss):
    h = {"maxsize": {}, "nreq": {}, "caller": {}, "reply": {}, "outcome": {}, "reused_socket": 0, "fresh_socket": 0}
    names = {0: "response", 1: "MaxRetryError", 2: "raised", 3: "script-end", 4: "raw"}
    for c, o in zip(cases, obss):
        h["maxsize"][c["maxsize"]] = h["maxsize"].get(c["maxsize"], 0) + 1
        h["nreq"][len(c["reqs"])] = h["nreq"].get(len(c["reqs"]), 0) + 1
        for q in c["reqs"]:
            k = "preload" if q["preload"] else q["caller"][0]
            h["caller"][k] = h["caller"].get(k, 0) + 1
        for r in c["replies"][:len(c["reqs"]) + 1]:
            k = r["kind"] if r["kind"] != "resp" else "%s%s%s%s" % (r["framing"], "" if r["keep"] else "/close", "" if r["stray"] == "none" else "/" + r["stray"],
                                                                  "/short" if r["sent"] < r["n"] else "")
            h["reply"][k] = h["reply"].get(k, 0) + 1
        prev = 0
        for r in o or []:
            h["outcome"][names.get(r[0])] = h["outcome"].get(names.get(r[0]), 0) + 1
            if r[0] == 0:
                if r[5] > prev and prev:
                    h["fresh_socket"] += 1
                elif prev:
                    h["reused_socket"] += 1
            prev = r[5]
    return h


# ---------------------------------------------------------------- generators
PLAIN = {"kind": "resp", "status": 200, "framing": "len", "n": 4, "first": 4, "sent": 4, "keep": True, "stray": "none", "eof_after": False}
CALLERS = [["read_all"], ["read_k", 1], ["read_k", 2], ["release"], ["keep"], ["drain"], ["close"], ["stream", 1], ["stream", 3], ["stream", 64],
           ["read1", 2], ["read1", 64]]


def rand_reply(rng):
    x = rng.random()
    if x < 0.05:
        return {"kind": "junk"}
    if x < 0.1:
        return {"kind": "eof"}
    n = rng.choice([0, 1, 2, 3, 4, 5, 7])
    sent = n if rng.random() < 0.8 else rng.randint(0, n)
    return {"kind": "resp", "status": rng.choice([200, 200, 200, 200, 204, 304, 205, 404, 201]), "framing": rng.choice(["len", "len", "chunked", "eof"]),
            "n": n, "first": rng.choice([0, 1, 2, n, n]), "sent": sent, "keep": rng.random() < 0.75,
            "stray": rng.choice(["none", "none", "none", "same_resp", "sep_resp", "same_junk", "sep_junk"]), "eof_after": rng.random() < 0.12}


def rand_caller(rng, n=7):
    c = rng.choice(CALLERS)
    if c[0] == "read_k":
        return ["read_k", rng.randint(1, 6)]
    if c[0] == "read1":
        return ["read1", rng.choice([1, 3, 64])]
    return list(c)


def one_case(rng):
    k = rng.randint(2, 4)
    reqs = [{"head": rng.random() < 0.15, "preload": rng.random() < 0.2, "caller": rand_caller(rng)} for _ in range(k)]
    replies = [rand_reply(rng) if rng.random() < 0.8 else dict(PLAIN) for _ in range(2 * k + 2)] + [dict(PLAIN)] * (4 * k + 4)
    for r in replies[:2 * k + 2]:
        if r["kind"] == "resp" and rng.random() < 0.06:
            r["late"] = True          # the rest of this body arrives only with the next request on the connection
    if any(q["caller"][0] == "read1" for q in reqs):
        for r in replies:          # read1 is modelled for Content-Length framing only
            if r.get("framing") in ("chunked", "eof"):
                r["framing"] = "len"
    if rng.random() < 0.3:
        for r in replies[:2 * k + 2]:
            if r["kind"] == "resp" and rng.random() < 0.5:
                r["bighead"] = True
        return {"maxsize": rng.choice([1, 1, 2]), "reqs": reqs, "replies": replies, "tls": True}
    return {"maxsize": rng.choice([1, 1, 2]), "reqs": reqs, "replies": replies}


def cases(rng, tier):
    out = []
    # systematic: one reply shape x one caller behaviour, then a probe request that reads everything
    shapes = []
    for framing in ("len", "chunked", "eof"):
        for n, first, sent in ((4, 4, 4), (4, 1, 4), (4, 0, 4), (4, 1, 2), (4, 2, 2), (0, 0, 0), (5, 2, 3)):
            for keep in (True, False):
                for stray in ("none", "same_resp", "sep_resp", "same_junk", "sep_junk"):
                    for ea in (False, True):
                        shapes.append({"kind": "resp", "status": 200, "framing": framing, "n": n, "first": first, "sent": sent, "keep": keep, "stray": stray, "eof_after": ea})
    for status in (204, 304):
        for keep in (True, False):
            for stray in ("none", "same_resp", "sep_resp", "same_junk", "sep_junk"):
                shapes.append({"kind": "resp", "status": status, "framing": "len", "n": 0, "first": 0, "sent": 0, "keep": keep, "stray": stray, "eof_after": False})
    shapes += [{"kind": "junk"}, {"kind": "eof"}]
    # an interim 103 before the final response, which follows at once or only after the caller has moved on
    for interim in ("pending", "late"):
        for framing, n in (("len", 4), ("chunked", 4), ("len", 0)):
            for keep in (True, False):
                shapes.append({"kind": "resp", "status": 200, "framing": framing, "n": n, "first": n, "sent": n, "keep": keep, "stray": "none", "eof_after": False, "interim": interim})
    for sh in shapes:
        for c in CALLERS:
            if c[0] == "read1" and sh.get("framing", "len") != "len":
                continue
            for head in (False, True):
                if head and sh.get("framing") != "len":
                    continue
                for preload in ((False, True) if c[0] == "read_all" else (False,)):
                    out.append({"maxsize": 1, "reqs": [{"head": head, "preload": preload, "caller": list(c)}, {"head": False, "preload": False, "caller": ["read_all"]},
                                                       {"head": False, "preload": True, "caller": ["read_all"]}],
                                "replies": [dict(sh)] + [dict(PLAIN)] * 12})
    # runs of failures: the retry budget (3) is used up or just suffices
    for fails in ([{"kind": "junk"}] * 4, [{"kind": "eof"}] * 4, [{"kind": "junk"}, {"kind": "eof"}, {"kind": "junk"}], [{"kind": "eof"}] * 5,
                  [dict(PLAIN, sent=1)] * 4, [dict(PLAIN, sent=1)] * 3):
        for pre in (True, False):
            for c in (["read_all"], ["keep"], ["stream", 1]):
                out.append({"maxsize": 1, "reqs": [{"head": False, "preload": pre, "caller": list(c)}, {"head": False, "preload": pre, "caller": ["read_all"]},
                                                   {"head": False, "preload": True, "caller": ["read_all"]}],
                            "replies": [dict(f) for f in fails] + [dict(PLAIN)] * 12})
    if tier == "quick":
        out = [c for i, c in enumerate(out) if i % 3 == 0 or c["replies"][0].get("stray", "none") != "none"]
    # a body whose rest arrives late: the caller stops early (one read1 as large as it likes, read(k) within what has arrived, release, keep,
    # close), the next requests read everything
    for first in (0, 1, 3):
        for c in (["read1", 1], ["read1", 3], ["read1", 64], ["read1", 1000], ["read1", LATE_TAIL], ["read1", LATE_TAIL + first], ["read1", LATE_TAIL + 1],
                  ["read_k", 1], ["release"], ["keep"], ["close"]):
            if c[0] == "read_k" and first == 0:
                continue
            for maxsize in (1, 2):
                out.append({"maxsize": maxsize, "reqs": [{"head": False, "preload": False, "caller": list(c)}, {"head": False, "preload": False, "caller": ["read_all"]},
                                                         {"head": False, "preload": True, "caller": ["read_all"]}],
                            "replies": [dict(PLAIN, first=first, late=True)] + [dict(PLAIN)] * 12})
                if c[0] in ("close", "read_k", "release", "read1"):
                    # auto_close switched off by the caller (io.TextIOWrapper use): close() then release_conn() still closes the connection
                    out.append({"maxsize": maxsize, "reqs": [{"head": False, "preload": False, "noauto": True, "caller": list(c)}, {"head": False, "preload": False, "caller": ["read_all"]},
                                                             {"head": False, "preload": True, "caller": ["read_all"]}],
                                "replies": [dict(PLAIN, first=first, late=True)] + [dict(PLAIN)] * 12})
                for st in (201, 205, 206, 404, 500):
                    # the same for other statuses whose responses carry a body (205 Reset Content with a Content-Length does)
                    out.append({"maxsize": maxsize, "reqs": [{"head": False, "preload": False, "caller": list(c)}, {"head": False, "preload": False, "caller": ["read_all"]},
                                                             {"head": False, "preload": True, "caller": ["read_all"]}],
                                "replies": [dict(PLAIN, status=st, first=first, late=True)] + [dict(PLAIN)] * 12})
                if c[0] != "read1":
                    out.append({"maxsize": maxsize, "reqs": [{"head": False, "preload": False, "caller": list(c)}, {"head": False, "preload": False, "caller": ["read_all"]},
                                                             {"head": False, "preload": True, "caller": ["read_all"]}],
                                "replies": [dict(PLAIN, first=first, late=True, framing="chunked")] + [dict(PLAIN)] * 12})
                if c[0] in ("release", "close", "keep"):
                    # release_conn=True given explicitly with preload_content=False: urlopen itself puts the connection back, body unread
                    out.append({"maxsize": maxsize, "reqs": [{"head": False, "preload": False, "release_now": True, "caller": list(c)},
                                                             {"head": False, "preload": False, "caller": ["read_all"]},
                                                             {"head": False, "preload": True, "caller": ["read_all"]}],
                                "replies": [dict(PLAIN, first=first, late=True)] + [dict(PLAIN)] * 12})
    # sockets with a TLS layer (bytes already decrypted are invisible to poll()): a reply whose head is larger than the response's
    # read buffer, followed in the same record by stray bytes
    for status, head in ((200, True), (204, False), (304, False), (200, False)):
        for stray in ("same_resp", "same_junk", "sep_resp", "none"):
            for keep in (True, False):
                for big in (True, False):
                    sh = {"kind": "resp", "status": status, "framing": "len", "n": 0 if status != 200 or head else 4, "first": 4, "sent": 4, "keep": keep,
                          "stray": stray, "eof_after": False, "bighead": big}
                    for c in (["read_all"], ["release"], ["close"]):
                        out.append({"tls": True, "maxsize": 1, "reqs": [{"head": head, "preload": False, "caller": list(c)}, {"head": False, "preload": False, "caller": ["read_all"]},
                                                                        {"head": False, "preload": True, "caller": ["read_all"]}],
                                    "replies": [dict(sh)] + [dict(PLAIN)] * 12})
    n = 7000 if tier == "quick" else 200000
    for _ in range(n):
        out.append(one_case(rng))
    return out


def shrinks(case):
    rq = case["reqs"]
    for i in range(len(rq)):
        if len(rq) > 1:
            c = dict(case); c["reqs"] = rq[:i] + rq[i + 1:]
            yield c
    rp = case["replies"]
    for i in range(min(len(rp), 8)):
        c = dict(case); c["replies"] = rp[:i] + rp[i + 1:]
        yield c
        if rp[i] != PLAIN:
            c = dict(case); c["replies"] = rp[:i] + [dict(PLAIN)] + rp[i + 1:]
            yield c
