"""C15 — what goes on the wire is exactly what the URL says.

case = {"url": str, "variant": str | None, "proxy": None | "http"}
A PoolManager (or a ProxyManager in front of an http proxy) requests `url`, then `variant` (the same URL with other letter
case in scheme/host and/or the default port spelled out).  The in-memory network records where each connection was
opened, the TLS server name offered (ssl_wrap_socket is replaced by a recorder, nothing else of the TLS path), and the
request head written.
Observation: accepted?, then for the first request (dns host, port, server name, request target, Host header value,
 CONNECT target if a tunnel was made), and for the variant: same connection reused?, same request bytes?"""
from __future__ import annotations

import hashlib

from sexp import S, B, Opt

ID = "C15"
GEN = ["Gen_Url", "Gen_Wire"]
RULE = ("URLs built from scheme (http/https, mixed case) x userinfo x host (names, mixed case, trailing dot, IPv4, bracketed IPv6 with and without "
        "zone, IDN) x port (absent, default, explicit default, odd, leading zeros, empty) x path (empty, '/', spaces, dot segments, escapes, non-ASCII) x "
        "query x fragment, with and without an http proxy; each followed by a case/default-port variant of itself; non-trivial = every accepted URL; "
        "distinct = distinct (case, observation)")
TRUSTED_BASE = [
    "model coq/model/WireUrl.v over coq/model/Url.v (parse_url): PoolManager.connection_from_url / _new_pool / HTTPConnectionPool.__init__ / _new_conn, "
    "HTTPConnection host handling, http.client's _get_hostport and Host header construction, the request target chosen by urlopen, the CONNECT target, the server name normalisation of _ssl_wrap_socket_and_match_hostname",
    "TLS itself is not run: urllib3.connection.ssl_wrap_socket is replaced by a recorder of server_hostname",
    "IDNA encoding is an oracle (table of the idna package's answers for the labels of the case)",
]
ASSUMPTIONS = ["the caller passes no Host header", "proxy: http://proxy.example:3128 without credentials"]
EXHAUSTIVE = {"quick": False, "thorough": False}
CASE_TIMEOUT = 30
ENCODE_WITH_OBS = False


def idna_table(url):
    """answers of the idna package for every dot-separated label of the authority's host (as C14 does)"""
    import re
    out = []
    m = re.match(r"^[a-zA-Z][a-zA-Z0-9+.\-]*://([^/?#]*)", url)
    auth = m.group(1) if m else ""
    host = auth.rsplit("@", 1)[-1]
    if host.startswith("["):
        return out
    host = host.rsplit(":", 1)[0] if re.search(r":[0-9]*$", host) else host
    try:
        import idna
    except ImportError:
        idna = None
    for label in host.split("."):
        if label and any(ord(c) > 127 for c in label):
            v = None
            if idna is not None:
                try:
                    v = idna.encode(label.lower(), strict=True, std3_rules=True).decode("ascii")
                except Exception:
                    v = None
            out.append([S(label), Opt(v, S)])
    return out


def encode(case):
    if case.get("redirect_to"):
        return [S(case["url"]), [], Opt(None, S), [], B(case["proxy"] == "http")]
    return [S(case["url"]), idna_table(case["url"]), Opt(case["variant"], S), idna_table(case["variant"] or ""), B(case["proxy"] == "http")]


def describe(case):
    return case


_STASH = {}


def run_one(pm, net, url, rec):
    import urllib3
    before = len(net.socks)
    rec["sni"] = None
    try:
        r = pm.request("GET", url, retries=False, redirect=False)
        ok = True
    except (urllib3.exceptions.LocationValueError, urllib3.exceptions.URLSchemeUnknown) as e:
        return None
    except UnicodeError:
        return None
    socks = net.socks[before:]
    return {"new_socks": len(socks), "sock": rec["last_sock"], "head": rec["last_head"], "connect_line": rec.get("connect_line"), "dns": rec.get("dns"),
            "port": rec.get("port"), "sni": rec["sni"]}


def in_model_domain(case):
    """a redirect from one URL to another is two requests: judged by the oracle only (the model is about one URL)"""
    return not case.get("redirect_to")


def impl_redirect(case):
    """url answers 302 with Location: redirect_to; what is written for the second request?"""
    import urllib3
    from netsim.fakesock import installed, Net, Peer, http_response
    heads = []

    class NetR(Net):
        def resolve(self, host, port):
            return super().resolve("10.0.0.9", port)

        def connect(self, sock, host, port):
            buf = bytearray()

            def on_data(peer, data):
                buf.extend(data)
                while b"\r\n\r\n" in buf:
                    head, _, rest = bytes(buf).partition(b"\r\n\r\n")
                    del buf[:len(head) + 4]
                    heads.append(head)
                    if len(heads) == 1:
                        peer.send(http_response(302, "Found", [("Location", case["redirect_to"])], b""))
                    else:
                        peer.send(http_response(200, "OK", [], b"ok"))
            return Peer(on_data)
    problems = []
    try:
        with installed(NetR()):
            pm = urllib3.ProxyManager("http://proxy.example:3128") if case["proxy"] == "http" else urllib3.PoolManager()
            pm.request("GET", case["url"], headers=dict(case.get("headers") or {}) or None)
    except Exception as e:
        problems.append("a raw %s: %s" % (type(e).__name__, str(e)[:100]))
    _STASH[id(case)] = problems
    if len(heads) < 2:
        return [8]
    h2 = heads[1]
    return [2, S(h2.split(b"\r\n")[0].decode("latin-1")), [S(l.decode("latin-1")) for l in h2.split(b"\r\n")[1:] if l.lower().startswith(b"host:")]]


def impl(case):
    if case.get("redirect_to"):
        return impl_redirect(case)
    import urllib3
    import urllib3.connection as uconn
    from netsim.fakesock import installed, Net, Peer, http_response

    rec = {"last_sock": None, "last_head": None, "sni": None}
    problems = []

    class Net15(Net):
        def resolve(self, host, port):
            rec["dns"] = host
            rec["port"] = port
            return super().resolve("10.0.0.9", port)

        def connect(self, sock, host, port):
            buf = bytearray()

            def on_data(peer, data):
                buf.extend(data)
                while b"\r\n\r\n" in buf:
                    head, _, rest = bytes(buf).partition(b"\r\n\r\n")
                    del buf[:len(head) + 4]
                    if head.startswith(b"CONNECT "):
                        rec["connect_line"] = head.split(b"\r\n")[0].decode("latin-1")
                        rec["connect_head"] = head
                        peer.send(b"HTTP/1.1 200 Connection established\r\n\r\n")
                        continue
                    rec["last_head"] = head
                    rec["last_sock"] = sock.ordinal
                    peer.send(http_response(200, "OK", [], b"ok"))
            return Peer(on_data)

    net = Net15()

    def fake_wrap(sock, server_hostname=None, ssl_context=None, tls_in_tls=False, **kw):
        rec["sni"] = server_hostname
        sock.getpeercert = lambda binary_form=False: (b"" if binary_form else {})
        sock.version = lambda: "TLSv1.3"
        return sock

    old_wrap = uconn.ssl_wrap_socket
    uconn.ssl_wrap_socket = fake_wrap
    try:
        with installed(net):
            if case["proxy"] == "http":
                pm = urllib3.ProxyManager("http://proxy.example:3128")
            else:
                pm = urllib3.PoolManager()
            rec.pop("connect_line", None)
            a = run_one(pm, net, case["url"], rec)
            if a is None:
                return [0]
            first_connect = rec.get("connect_line")
            out = [1, S(a["dns"]), a["port"], Opt(a["sni"], S), S(a["head"].split(b"\r\n")[0].decode("latin-1")),
                   [S(l.decode("latin-1")) for l in a["head"].split(b"\r\n")[1:] if l.lower().startswith(b"host:")],
                   Opt(first_connect, S)]
            if case["variant"] is not None:
                b = run_one(pm, net, case["variant"], rec)
                if b is None:
                    out.append([0])
                else:
                    out.append([1, B(b["new_socks"] == 0 and b["sock"] == a["sock"]), B(b["head"] == a["head"]), S(b["dns"] if b["new_socks"] else "")])
            else:
                out.append([])
            return out
    except Exception as e:
        problems.append("a raw %s: %s" % (type(e).__name__, str(e)[:100]))
        return [9]
    finally:
        uconn.ssl_wrap_socket = old_wrap
        _STASH[id(case)] = problems


# ---------------------------------------------------------------- oracle (independent of the model: a plain reading of the URL)
def _txt(x):
    return bytes(x).decode("latin-1") if isinstance(x, list) else x


def expected_host(h):
    """the URL's host as it may legitimately appear: lower case, IDNA, no zone; returns (bare, bracketed?)"""
    h = h.lower()
    if h.startswith("["):
        inner = h[1:-1]
        inner = inner.split("%", 1)[0]
        return inner, True
    labels = []
    for lab in h.split("."):
        if any(ord(c) > 127 for c in lab):
            import idna
            lab = idna.encode(lab, strict=True, std3_rules=True).decode("ascii")
        labels.append(lab)
    return ".".join(labels), False


def oracle_redirect(case, obs):
    problems = _STASH.pop(id(case), [])
    if problems:
        return problems[0]
    if obs[0] != 2:
        return "the redirect was not followed (%r)" % (obs,)
    from urllib.parse import urlsplit
    u = urlsplit(case["redirect_to"])
    want = u.hostname + ("" if u.port in (None, 80) else ":%d" % u.port)
    hosts = [_txt(h).split(":", 1)[1].strip().lower() for h in obs[2]]
    if hosts not in ([want], [want + ":80"]):
        return "the request for %s carried Host: %s" % (case["redirect_to"], ", ".join(hosts) or "(none)")
    return None


def oracle(case, obs):
    if case.get("redirect_to"):
        return oracle_redirect(case, obs)
    problems = _STASH.pop(id(case), [])
    if problems:
        return problems[0]
    if obs[0] != 1:
        return None
    import re
    url = case["url"]
    m = re.match(r"^([a-zA-Z][a-zA-Z0-9+.\-]*)://([^/?#]*)([^?#]*)(\?[^#]*)?(#.*)?$", url, re.S)
    if not m:
        return None
    scheme, authority, path, query, frag = m.group(1).lower(), m.group(2), m.group(3), m.group(4), m.group(5)
    userinfo, at, hostport = authority.rpartition("@")
    hm = re.match(r"^(\[[^\]]*\]|[^:]*)(?::(\d*))?$", hostport)
    if not hm:
        return None
    host, port = hm.group(1), hm.group(2)
    default = 443 if scheme == "https" else 80
    want_port = int(port) if port not in (None, "") else default
    try:
        bare, bracketed = expected_host(host)
    except Exception:
        return None
    _, dns, cport, sni, line, hosts, connect, var = obs
    dns, line = _txt(dns), _txt(line)
    sni = _txt(sni[0]) if sni else None
    hosts = [_txt(h) for h in hosts]
    connect = _txt(connect[0]) if connect else None
    zone = host[1:-1].split("%", 1)[1] if host.startswith("[") and "%" in host else None
    # where the connection goes
    if case["proxy"] is None:
        d = dns.split("%", 1)[0]
        if d.rstrip(".") != bare.rstrip(".") or cport != want_port:
            return "the connection was opened to %s:%s, the URL says %s:%s" % (dns, cport, bare, want_port)
    elif (dns, cport) != ("proxy.example", 3128):
        return "the connection did not go to the proxy"
    # the request target
    target = line.split(" ")[1] if line.count(" ") >= 2 else line
    if "#" in target:
        return "the request target carries the fragment: %r" % target
    if at and (userinfo + "@") in target:
        return "the request target carries the userinfo: %r" % target
    if case["proxy"] is None or scheme == "https":
        if not target.startswith("/"):
            return "the request target is not origin-form: %r" % target
    elif not target.lower().startswith("http://"):
        return "the forwarded request target is not absolute-form: %r" % target
    # the Host header
    if len(hosts) != 1:
        return "the request carries %d Host headers" % len(hosts)
    hv = hosts[0].split(":", 1)[1].strip()
    hm2 = re.match(r"^(\[[0-9a-fA-F:.]+\]|[^\[\]:@/]+)(?::(\d+))?$", hv)
    if not hm2:
        return "the Host header is malformed: %r" % hv
    hh, hp = hm2.group(1), hm2.group(2)
    hb = hh[1:-1] if hh.startswith("[") else hh
    if hb.rstrip(".") != bare.rstrip(".") or hh.startswith("[") != bracketed:
        return "the Host header names %r, the URL says %r" % (hh, host)
    if (int(hp) if hp else default) != want_port:
        return "the Host header says port %s, the URL says %s" % (hp, want_port)
    # the TLS server name
    if scheme == "https":
        if sni is None or sni != bare.rstrip("."):
            return "the TLS server name is %r, the URL's host is %r" % (sni, bare)
        if case["proxy"] is not None:
            cm = re.match(r"^CONNECT (\S+) HTTP/1.1$", connect or "")
            if not cm:
                return "an https URL behind a proxy was not tunnelled"
            ct = cm.group(1)
            chost, _, cp = ct.rpartition(":")
            cb = chost[1:-1].split("%", 1)[0] if chost.startswith("[") else chost
            if cb.rstrip(".") != bare.rstrip(".") or chost.startswith("[") != bracketed or int(cp) != want_port:
                return "CONNECT names %r, the URL says %s:%s" % (ct, host, want_port)
    elif sni is not None:
        return "a TLS handshake was made for an http URL"
    # the case / default-port variant
    if var and var[0] == 1 and case.get("variant_kind") == "dot":
        if var[1]:
            return "a URL whose host differs by a trailing dot was sent over the connection opened for the other name"
    elif var and var[0] == 1:
        if not var[1]:
            return "a URL differing only in letter case or an explicit default port did not reuse the pooled connection"
        if not var[2]:
            return "a URL differing only in letter case or an explicit default port produced different request bytes"
    return None


def signature(case, obs, msg):
    if case.get("redirect_to") and case.get("proxy") == "http" and "carried Host:" in (msg or ""):
        return {"kind": "stale-host-after-redirect-through-proxy"}
    return _signature(case, obs, msg)


def _signature(case, obs, msg):
    sig = {"msg": (msg or "")[:50]}
    import re
    if msg and ("the URL says" in msg) and re.search(r"^[a-zA-Z]+://[^/?#]*:0+(?:[/?#]|$)", case["url"]) and msg.rstrip().endswith((":0", " 0")):
        return {"kind": "explicit-port-zero-read-as-absent"}
    if msg and "Host header is malformed" in msg and "[[" in msg:
        sig["kind"] = "tunnel-ipv6-host-double-brackets"
    elif msg and "Host header is malformed" in msg and "%" in msg and case["proxy"] == "http" and case["url"].lower().startswith("http:"):
        sig["kind"] = "forwarded-ipv6-zone"
    elif msg and "produced different request bytes" in msg and case["proxy"] == "http" and case["url"].lower().startswith("http:"):
        sig["kind"] = "forwarded-explicit-default-port"
    return sig


def nontrivial(case, obs):
    if not obs or obs[0] not in (1, 2):
        return None
    return hashlib.sha1(repr((case, obs)).encode()).hexdigest()[:16]


def histogram(cases, obss):
    h = {"accepted": 0, "rejected": 0, "proxy": {}, "scheme": {}}
    for c, o in zip(cases, obss):
        if o and o[0] == 1:
            h["accepted"] += 1
        else:
            h["rejected"] += 1
        k = str(c["proxy"])
        h["proxy"][k] = h["proxy"].get(k, 0) + 1
        s = c["url"].split(":", 1)[0].lower()
        h["scheme"][s] = h["scheme"].get(s, 0) + 1
    return h


# ---------------------------------------------------------------- generators
SCHEMES = ["http", "https", "HTTP", "Https"]
USERINFO = ["", "", "user@", "user:pa%20ss@", "u:p:x@"]
HOSTS = ["example.com", "Example.COM", "example.com.", "a.b.example", "192.168.0.1", "[::1]", "[2001:DB8::1]", "[fe80::1%25eth0]", "[fe80::1%eth0]",
         "b\u00fccher.example", "xn--bcher-kva.example", "localhost", "EXAMPLE.com.", "1.2.3", "a_b.example"]
PORTS = ["", "", ":80", ":443", ":8080", ":0080", ":", ":65535", ":0"]
PATHS = ["", "/", "/a/b", "/a b", "/a/../b/./c", "/%7euser/%2f", "/\u00fc", "//double", "/a;p=1", "/a%zz"]
QUERIES = ["", "", "?", "?x=1&y=2", "?a b", "?q=\u00fc", "?a?b", "?x=%2f"]
FRAGS = ["", "", "#frag", "#a?b#c", "#"]


def variant_of(rng, url):
    import re
    m = re.match(r"^([a-zA-Z]+)://([^/?#@]*@)?([^/?#]*)(.*)$", url, re.S)
    if not m:
        return None
    scheme, ui, hostport, rest = m.group(1), m.group(2) or "", m.group(3), m.group(4)
    scheme2 = scheme.swapcase() if rng.random() < 0.6 else scheme
    hp = hostport
    mm = re.match(r"^(\[[^\]]*\]|[^:]*)(:\d*)?$", hostport)
    if mm:
        host, port = mm.group(1), mm.group(2) or ""
        if rng.random() < 0.6 and not host.startswith("["):
            host = host.swapcase()
        default = ":80" if scheme.lower() == "http" else ":443"
        if port in ("", ":") and rng.random() < 0.7:
            port = default
        elif port == default and rng.random() < 0.5:
            port = ""
        hp = host + port
    return scheme2 + "://" + ui + hp + rest


def dot_variant(url):
    """the same URL with a trailing dot added to (or taken off) a registered name: another DNS name, another pool"""
    import re
    m = re.match(r"^([a-zA-Z]+://(?:[^/?#@]*@)?)([^/?#:\[\]]+)((?::\d*)?(?:[/?#].*)?)$", url, re.S)
    if not m or re.fullmatch(r"[0-9.]+", m.group(2)):
        return None
    host = m.group(2)
    return m.group(1) + (host[:-1] if host.endswith(".") else host + ".") + m.group(3)


def one_case(rng):
    url = rng.choice(SCHEMES) + "://" + rng.choice(USERINFO) + rng.choice(HOSTS) + rng.choice(PORTS) + rng.choice(PATHS) + rng.choice(QUERIES) + rng.choice(FRAGS)
    if rng.random() < 0.15 and dot_variant(url):
        return {"url": url, "variant": dot_variant(url), "variant_kind": "dot", "proxy": None}
    return {"url": url, "variant": variant_of(rng, url) if rng.random() < 0.8 else None, "proxy": rng.choice([None, None, "http"])}


def cases(rng, tier):
    out = []
    for h in HOSTS:
        for p in PORTS:
            for s in ("http", "https"):
                for proxy in (None, "http"):
                    url = "%s://%s%s/x?y=1#z" % (s, h, p)
                    out.append({"url": url, "variant": variant_of(rng, url), "proxy": proxy})
    for u in ("http://example.com/x", "https://example.com./", "http://Example.COM:8080/a?b", "https://a.b.example/"):
        out.append({"url": u, "variant": dot_variant(u), "variant_kind": "dot", "proxy": None})
    # a redirect to another origin, with and without a forwarding proxy: the second request is for the second URL
    for proxy in (None, "http"):
        for u1, u2 in (("http://a.test/start", "http://b.test:81/landing"), ("http://a.test:8080/start", "http://b.test/landing"),
                       ("http://a.test/start", "http://a.test:81/other-port"), ("http://A.test/start", "http://c.test/x?y=1")):
            out.append({"url": u1, "variant": None, "redirect_to": u2, "proxy": proxy})
    for _ in range(7000 if tier == "quick" else 200000):
        out.append(one_case(rng))
    return out


def shrinks(case):
    if case["variant"] is not None:
        c = dict(case); c["variant"] = None
        yield c
