"""C16 — HTTPHeaderDict behaves as a case-insensitive, order-preserving multimap.

case = {"probes": [str], "ops": [op]}  (see encode_op for the op shapes).
The implementation side runs the real urllib3._collections.HTTPHeaderDict on a
store of objects (object 0 is an empty HTTPHeaderDict) and records, after every
operation, the operation's result and every public observation of every object.
The model side (coq/corr/Run_C16.v) must print the same text.  The oracle is an
independent reference multimap (RefMM below) written from the property text."""
from __future__ import annotations

import hashlib
import itertools

from sexp import S, B, Opt

ID = "C16"
GEN = ["Gen_Coll"]
RULE = ("operation sequences on a store of HTTPHeaderDict objects: exhaustive over the op alphabet up to the "
        "tier's length bound, then random longer ones incl. copies/unions mutated afterwards; a case is non-trivial "
        "when some object is non-empty at some point or an op returned a value/KeyError; distinct = distinct final observation text")
TRUSTED_BASE = [
    "model coq/model/HeaderDict.v is a hand-written line-by-line model of HTTPHeaderDict + CPython's MutableMapping mixins (pop, popitem, setdefault, update, clear); str.lower modelled on ASCII",
    "Python dict = insertion-ordered association list",
]
ASSUMPTIONS = ["names are str (the bytes-key latin-1 branch is not exercised)", "str.lower() is modelled on ASCII only; theorems are parametric in `lower`"]
EXHAUSTIVE = {"quick": False, "thorough": False}

NAMES = ["A", "a", "B", "b", "Set-Cookie", "set-cookie"]
VALUES = ["1", "2", "x, y", ""]
PROBES = ["A", "a", "B", "b", "Set-Cookie", "SET-COOKIE", "Content-Type"]


# ------------------------------------------------------------------ encoding
def enc_pairs(l):
    return [[S(k), S(v)] for k, v in l]


def enc_src(s):
    if s[0] == "pairs":
        return [0, enc_pairs(s[1])]
    if s[0] in ("dict", "keys"):
        return [1, enc_pairs(s[1])]
    if s[0] == "msg":
        return [0, enc_pairs(s[1])]            # (never sent to the model)
    return [2, s[1]]


def encode_op(op):
    t = op[0]
    if t == "set":
        return [0, op[1], S(op[2]), S(op[3])]
    if t == "del":
        return [1, op[1], S(op[2])]
    if t == "add":
        return [2, op[1], S(op[2]), S(op[3]), B(op[4])]
    if t == "extend":
        return [3, op[1], enc_src(op[2])]
    if t == "update":
        return [4, op[1], enc_src(op[2])]
    if t == "setdefault":
        return [5, op[1], S(op[2]), S(op[3])]
    if t == "pop":
        return [6, op[1], S(op[2]), Opt(op[3], S)]
    if t == "popitem":
        return [7, op[1]]
    if t == "discard":
        return [8, op[1], S(op[2])]
    if t == "clear":
        return [9, op[1]]
    if t == "copy":
        return [10, op[1]]
    if t == "new":
        return [11, enc_src(op[1])]
    if t == "or":
        return [12, op[1], enc_src(op[2])]
    if t == "ior":
        return [13, op[1], enc_src(op[2])]
    if t == "ror":
        return [14, op[1], enc_src(op[2])]
    if t == "prepare":
        return [15, op[1]]
    raise ValueError(op)


def encode(case):
    return [[S(p) for p in case["probes"]], [encode_op(o) for o in case["ops"]]]


def describe(case):
    return case


# ------------------------------------------------------------------ implementation
def _src_obj(store, s):
    if s[0] == "pairs":
        return [(k, v) for k, v in s[1]]
    if s[0] == "dict":
        return dict((k, v) for k, v in s[1])
    if s[0] == "keys":
        # the fourth accepted source type: anything with keys() and __getitem__ (and nothing else of a mapping)
        class KeysOnly:
            def __init__(self, d):
                self._d = d

            def keys(self):
                return list(self._d)

            def __getitem__(self, k):
                return self._d[k]
        return KeysOnly(dict((k, v) for k, v in s[1]))
    if s[0] == "msg":
        # an http.client.HTTPMessage (it has keys() and __getitem__, and also __iter__ over its field names)
        import http.client
        m = http.client.HTTPMessage()
        for k, v in s[1]:
            m.add_header(k, v)
        return m
    return store[s[1]]


def _obs_pairs(it):
    try:
        return [[[S(k), S(v)] for k, v in it()]]
    except Exception:
        return []


def observe_obj(d, probes):
    out = [_obs_pairs(lambda: list(d.iteritems())), _obs_pairs(lambda: list(d.itermerged())),
           [S(n) for n in list(d)], len(d)]
    pr = []
    for k in probes:
        try:
            g = [S(d[k])]
        except KeyError:
            g = []
        pr.append([g, B(k in d), [S(v) for v in d.getlist(k)]])
    out.append(pr)
    return out


def observe_store(store, probes):
    eqm = []
    for a in store:
        row = []
        for b in store:
            try:
                row.append([B(a == b)])
            except Exception:
                row.append([])
        eqm.append(row)
    return [[observe_obj(d, probes) for d in store], eqm]


def apply_op(HD, store, op):
    """returns the result encoding; mutates store"""
    t = op[0]
    try:
        if t == "set":
            store[op[1]][op[2]] = op[3]
            return [0]
        if t == "del":
            del store[op[1]][op[2]]
            return [0]
        if t == "add":
            store[op[1]].add(op[2], op[3], combine=bool(op[4]))
            return [0]
        if t == "extend":
            store[op[1]].extend(_src_obj(store, op[2]))
            return [0]
        if t == "update":
            store[op[1]].update(_src_obj(store, op[2]))
            return [0]
        if t == "setdefault":
            return [1, S(store[op[1]].setdefault(op[2], op[3]))]
        if t == "pop":
            if op[3] is None:
                return [1, S(store[op[1]].pop(op[2]))]
            return [1, S(store[op[1]].pop(op[2], op[3]))]
        if t == "popitem":
            k, v = store[op[1]].popitem()
            return [2, S(k), S(v)]
        if t == "discard":
            store[op[1]].discard(op[2])
            return [0]
        if t == "clear":
            store[op[1]].clear()
            return [0]
        if t == "copy":
            store.append(store[op[1]].copy())
            return [4, len(store) - 1]
        if t == "new":
            store.append(HD(_src_obj(store, op[1])))
            return [4, len(store) - 1]
        if t == "or":
            store.append(store[op[1]] | _src_obj(store, op[2]))
            return [4, len(store) - 1]
        if t == "ior":
            d = store[op[1]]
            d |= _src_obj(store, op[2])
            store[op[1]] = d
            return [0]
        if t == "ror":
            store.append(_src_obj(store, op[2]) | store[op[1]])
            return [4, len(store) - 1]
        if t == "prepare":
            r = store[op[1]]._prepare_for_method_change()
            return [0] if r is store[op[1]] else [5]
    except KeyError:
        return [3]
    except Exception:
        return [5]
    raise ValueError(op)


def impl(case):
    from urllib3._collections import HTTPHeaderDict as HD
    store = [HD()]
    out = []
    for op in case["ops"]:
        r = apply_op(HD, store, op)
        out.append([r, observe_store(store, case["probes"])])
    return out


# ------------------------------------------------------------------ reference multimap (oracle)
class RefMM:
    """Flat list of header lines [name, value]; names compare case-insensitively;
    assignment replaces (in place of the group's first line), add appends to the group."""

    def __init__(self, lines=None):
        self.lines = [list(l) for l in (lines or [])]

    def _idx(self, k):
        return [i for i, l in enumerate(self.lines) if l[0].lower() == k.lower()]

    def get(self, k):
        ix = self._idx(k)
        if not ix:
            raise KeyError(k)
        return ", ".join(self.lines[i][1] for i in ix)

    def set(self, k, v):
        ix = self._idx(k)
        if not ix:
            self.lines.append([k, v])
            return
        first = ix[0]
        self.lines[first] = [k, v]
        for i in reversed(ix[1:]):
            del self.lines[i]

    def delete(self, k):
        ix = self._idx(k)
        if not ix:
            raise KeyError(k)
        for i in reversed(ix):
            del self.lines[i]

    def add(self, k, v, combine=False):
        ix = self._idx(k)
        if not ix:
            self.lines.append([k, v])
        elif combine:
            self.lines[ix[-1]][1] += ", " + v
        else:
            self.lines.insert(ix[-1] + 1, [self.lines[ix[0]][0], v])

    def groups(self):
        seen, out = [], []
        for n, v in self.lines:
            if n.lower() not in seen:
                seen.append(n.lower())
                out.append(n)
        return out

    def merged(self):
        return [[n, self.get(n)] for n in self.groups()]

    def copy(self):
        return RefMM(self.lines)

    def as_dict(self):
        return {n.lower(): v for n, v in self.merged()}


def ref_src_lines(store, s):
    """the (name, value) lines a source contributes when *added*"""
    if s[0] == "pairs":
        return [list(p) for p in s[1]]
    if s[0] in ("dict", "keys"):
        return [[k, v] for k, v in dict((k, v) for k, v in s[1]).items()]
    if s[0] == "msg":
        return [list(p) for p in s[1]]         # its field lines, in order
    return [list(l) for l in store[s[1]].lines]


def ref_src_items(store, s):
    """the (key, value) items a source contributes when used as a mapping (update)"""
    if s[0] == "hd":
        return store[s[1]].merged()
    return ref_src_lines(store, s)


CSH = ["Content-Encoding", "Content-Language", "Content-Location", "Content-Type", "Content-Length", "Digest", "Last-Modified"]


def ref_apply(store, op):
    t = op[0]
    try:
        if t == "set":
            store[op[1]].set(op[2], op[3]); return [0]
        if t == "del":
            store[op[1]].delete(op[2]); return [0]
        if t == "add":
            store[op[1]].add(op[2], op[3], bool(op[4])); return [0]
        if t in ("extend", "ior"):
            for k, v in ref_src_lines(store, op[2]):
                store[op[1]].add(k, v)
            return [0]
        if t == "update":
            for k, v in ref_src_items(store, op[2]):
                store[op[1]].set(k, v)
            return [0]
        if t == "setdefault":
            try:
                return [1, S(store[op[1]].get(op[2]))]
            except KeyError:
                store[op[1]].set(op[2], op[3]); return [1, S(op[3])]
        if t == "pop":
            try:
                v = store[op[1]].get(op[2])
            except KeyError:
                if op[3] is None:
                    raise
                return [1, S(op[3])]
            store[op[1]].delete(op[2]); return [1, S(v)]
        if t == "popitem":
            g = store[op[1]].groups()
            if not g:
                raise KeyError()
            v = store[op[1]].get(g[0]); store[op[1]].delete(g[0]); return [2, S(g[0]), S(v)]
        if t == "discard":
            try:
                store[op[1]].delete(op[2])
            except KeyError:
                pass
            return [0]
        if t == "clear":
            store[op[1]].lines = []; return [0]
        if t == "copy":
            store.append(store[op[1]].copy()); return [4, len(store) - 1]
        if t == "new":
            n = RefMM()
            for k, v in ref_src_lines(store, op[1]):
                n.add(k, v)
            store.append(n); return [4, len(store) - 1]
        if t == "or":
            n = store[op[1]].copy()
            for k, v in ref_src_lines(store, op[2]):
                n.add(k, v)
            store.append(n); return [4, len(store) - 1]
        if t == "ror":
            n = RefMM()
            for k, v in ref_src_lines(store, op[2]):
                n.add(k, v)
            for k, v in store[op[1]].lines:
                n.add(k, v)
            store.append(n); return [4, len(store) - 1]
        if t == "prepare":
            for h in CSH:
                try:
                    store[op[1]].delete(h)
                except KeyError:
                    pass
            return [0]
    except KeyError:
        return [3]
    raise ValueError(op)


def ref_observe(store, probes):
    objs = []
    for d in store:
        pr = []
        for k in probes:
            try:
                g = [S(d.get(k))]
            except KeyError:
                g = []
            ix = d._idx(k)
            pr.append([g, B(bool(ix)), [S(d.lines[i][1]) for i in ix]])
        objs.append([[[[S(n), S(v)] for n, v in d.lines]], [[[S(n), S(v)] for n, v in d.merged()]],
                     [S(n) for n in d.groups()], len(d.groups()), pr])
    eqm = [[[B(a.as_dict() == b.as_dict())] for b in store] for a in store]
    return [objs, eqm]


def oracle(case, obs):
    store = [RefMM()]
    for i, op in enumerate(case["ops"]):
        r = ref_apply(store, op)
        exp = [r, ref_observe(store, case["probes"])]
        if i >= len(obs):
            return "implementation stopped after %d ops" % len(obs)
        if obs[i] != exp:
            what = "result" if obs[i][0] != exp[0] else "observable state"
            return "after op #%d %r the %s differs from the reference multimap" % (i, op, what)
    return None


def _srcs(case):
    return [x for o in case["ops"] for x in o if isinstance(x, list) and x and x[0] in ("pairs", "dict", "hd", "keys", "msg")]


def in_model_domain(case):
    return not any(x[0] in ("keys", "msg") for x in _srcs(case))


def signature(case, obs, msg):
    if any(x[0] == "msg" for x in _srcs(case)):
        return {"kind": "http-message-source-read-as-pairs"}
    return {"ops": [o[0] for o in case["ops"]], "msg": msg.split(" the ")[-1] if msg else ""}


def nontrivial(case, obs):
    txt = repr(obs[-1]) if obs else ""
    interesting = any(o[0] != [0] for o in obs) or any(x[3] > 0 for o in obs for x in o[1][0])
    if not interesting:
        return None
    return hashlib.sha1((repr([o[0] for o in case["ops"]]) + txt).encode()).hexdigest()[:16]


def histogram(cases, obss):
    h = {"len": {}, "op": {}, "result": {}, "objects": {}}
    rn = {0: "None", 1: "str", 2: "pair", 3: "KeyError", 4: "new-object", 5: "internal"}
    for c, o in zip(cases, obss):
        n = len(c["ops"])
        h["len"][n] = h["len"].get(n, 0) + 1
        for op in c["ops"]:
            h["op"][op[0]] = h["op"].get(op[0], 0) + 1
        if o:
            for st in o:
                k = rn.get(st[0][0], "?")
                h["result"][k] = h["result"].get(k, 0) + 1
            k = len(o[-1][1][0])
            h["objects"][k] = h["objects"].get(k, 0) + 1
    return h


# ------------------------------------------------------------------ generators
def alphabet(names, values, objs=(0,), full=True):
    ops = []
    for o in objs:
        for k in names:
            for v in values:
                ops.append(["set", o, k, v])
                ops.append(["add", o, k, v, 0])
                if full:
                    ops.append(["add", o, k, v, 1])
            ops.append(["del", o, k])
            if full:
                ops.append(["discard", o, k])
                ops.append(["pop", o, k, None])
                ops.append(["pop", o, k, "dflt"])
                ops.append(["setdefault", o, k, values[0]])
        ops.append(["popitem", o])
        ops.append(["copy", o])
        if full:
            ops.append(["clear", o])
            ops.append(["prepare", o])
        p2 = [[names[0], values[0]], [names[1 % len(names)], values[-1]]]
        for kind in ("pairs", "dict"):
            ops.append(["extend", o, [kind, p2]])
            if full:
                ops.append(["update", o, [kind, p2]])
                ops.append(["or", o, [kind, p2]])
                ops.append(["ior", o, [kind, p2]])
                ops.append(["ror", o, [kind, p2]])
                ops.append(["new", [kind, p2]])
        ops.append(["extend", o, ["hd", 0]])
        if full:
            ops.append(["update", o, ["hd", 0]])
            ops.append(["or", o, ["hd", 0]])
            ops.append(["new", ["hd", 0]])
    return ops


def random_case(rng, maxlen):
    n = rng.randint(1, maxlen)
    ops = []
    nobj = 1
    for _ in range(n):
        o = rng.randrange(nobj)
        k = rng.choice(NAMES + ["Content-Type", "content-length"])
        v = rng.choice(VALUES)

        def src():
            r = rng.random()
            if r < 0.35:
                return ["hd", rng.randrange(nobj)]
            l = [[rng.choice(NAMES), rng.choice(VALUES)] for _ in range(rng.randint(0, 4))]
            return ["pairs" if r < 0.7 else "dict", l]
        t = rng.choice(["set", "set", "add", "add", "add", "del", "extend", "update", "setdefault", "pop", "popitem",
                        "discard", "clear", "copy", "new", "or", "ior", "ror", "prepare"])
        if t == "set":
            ops.append(["set", o, k, v])
        elif t == "add":
            ops.append(["add", o, k, v, rng.randrange(2)])
        elif t in ("del", "discard"):
            ops.append([t, o, k])
        elif t in ("extend", "update", "ior"):
            ops.append([t, o, src()])
        elif t == "or":
            ops.append([t, o, src()]); nobj += 1
        elif t == "ror":
            s = src()
            if s[0] == "hd":
                s = ["pairs", [[k, v]]]
            ops.append([t, o, s]); nobj += 1
        elif t == "setdefault":
            ops.append([t, o, k, v])
        elif t == "pop":
            ops.append([t, o, k, rng.choice([None, "dflt"])])
        elif t in ("popitem", "clear", "prepare"):
            ops.append([t, o])
        elif t == "copy":
            ops.append([t, o]); nobj += 1
        elif t == "new":
            ops.append([t, src()]); nobj += 1
    return {"probes": PROBES, "ops": ops}


def cases(rng, tier):
    out = []
    full = alphabet(NAMES, VALUES, full=True)
    red = alphabet(["A", "a", "B"], ["1", "x, y"], full=False)
    # exhaustive length 1 (full) and 2 (full, sampled in quick), 3 (reduced, sampled)
    for a in full:
        out.append({"probes": PROBES, "ops": [a]})
    pairs2 = list(itertools.product(full, repeat=2))
    trip = list(itertools.product(red, repeat=3))
    if tier == "quick":
        pairs2 = rng.sample(pairs2, 6000)
        trip = rng.sample(trip, 6000)
        nrand, maxlen = 1500, 14
    else:
        pairs2 = rng.sample(pairs2, min(len(pairs2), 60000))
        trip = rng.sample(trip, min(len(trip), 60000))
        nrand, maxlen = 20000, 30
    out += [{"probes": PROBES, "ops": list(p)} for p in pairs2]
    out += [{"probes": PROBES, "ops": list(p)} for p in trip]
    for _ in range(nrand):
        out.append(random_case(rng, maxlen))
    # the fourth accepted source type (keys() and __getitem__), as a plain object and as an http.client.HTTPMessage
    for lines in ([["A", "1"]], [["A", "1"], ["B", "2"]], [["Set-Cookie", "1"], ["set-cookie", "2"]], [["TE", "x, y"]], [["A", "1"], ["a", "2"], ["B", ""]], []):
        for kind in ("keys", "msg"):
            if kind == "keys" and len({k.lower() for k, v in lines}) != len(lines):
                continue
            for pre in ([], [["set", 0, "A", "x, y"]], [["add", 0, "B", "1", 0], ["add", 0, "b", "2", 0]]):
                for t in ("extend", "ior", "or", "new", "update"):
                    if t == "new":
                        out.append({"probes": PROBES, "ops": pre + [["new", [kind, lines]]]})
                    else:
                        out.append({"probes": PROBES, "ops": pre + [[t, 0, [kind, lines]]]})
    return out


def shrinks(case):
    ops = case["ops"]
    for i in range(len(ops)):
        cand = ops[:i] + ops[i + 1:]
        # keep object ids valid: only drop ops that do not create objects
        if ops[i][0] in ("copy", "new", "or", "ror"):
            continue
        yield {"probes": case["probes"], "ops": cand}
    if len(ops) > 1 and ops[-1][0] in ("copy", "new", "or", "ror"):
        yield {"probes": case["probes"], "ops": ops[:-1]}
