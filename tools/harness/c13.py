"""C13 — a cut-off or corrupt response is never presented as complete.

case = {"payload": bytes, "coding": identity|gzip|deflate|zstd, "framing": len|chunked|eof, "chunks": [sizes], "ext": False|True|2|3|4 (chunk extensions as in C12), "segs": [sizes],
        "decode": bool, "api": [name, arg], "fault": ["cut", k] | ["corrupt", pos, byte] | ["zcut", k] | ["none"]}
The framed body is built as in C12; a cut ends the stream (EOF) after k body bytes, a corruption replaces one body byte; zcut: the
compressed stream itself stops after k bytes and is then framed correctly (the framing is complete, the content is not).
api = read | read_n n | read1_n n | read1_all (read1() without a size, until empty) | stream amt | read_chunked amt | data (preload)
Observation: how reading ended (0 normal end, 1 InvalidChunkLength, 2 ended prematurely, 3 IncompleteRead, 4 DecodeError, 5 other urllib3 error,
6 raw exception), the bytes delivered before that, and whether the next request on the same pool used another socket."""
from __future__ import annotations

import hashlib
import zlib

from sexp import S, B, Opt
from harness import c12

ID = "C13"
GEN = ["Gen_Read"]
RULE = ("C12's responses (payload 0..120 bytes, identity/gzip/zlib/zstd, Content-Length / chunked with chunk vectors and extensions / close-delimited), cut at "
        "every position from the first body byte to the last framing byte, or with one byte of a chunk-size line or of the compressed stream replaced; "
        "or with the compressed stream itself stopping short inside complete framing; read(), read(n) loops, read1(n) loops, read1() loops, stream(amt), read_chunked(amt), preloaded; decode on/off; followed by a second request on the same pool; "
        "non-trivial = every case with a fault; distinct = distinct (case, observation)")
TRUSTED_BASE = [
    "model coq/model/ChunkParse.v (read_chunked / _update_chunk_length / _handle_chunk over the bytes after the headers ending in EOF, http.client._safe_read, BufferedReader.readline, int(line, 16))",
    "model coq/model/LenRead.v (Content-Length framing: _raw_read's length check, read() / read(n) / stream(n) without a content decoder, over http.client's HTTPResponse.read as transcribed there)",
    "http.client's own chunk handling (the read()/read1() path of a chunked body), read1 on a body with a length, and the content decoders are judged by the oracle only",
]
ASSUMPTIONS = ["enforce_content_length is left at its default", "a chunk-size line that is still well-formed after a corruption cannot be detected by any client (either-region)",
               "a cut at or after the zero of the last-chunk line delivers the whole payload (either-region)"]
EXHAUSTIVE = {"quick": False, "thorough": False}
CASE_TIMEOUT = 30

APIS = {"read": 0, "read_n": 1, "read1_n": 2, "stream": 3, "read_chunked": 4, "data": 5, "read1_all": 6}


def build(case):
    """(head, body bytes as delivered, complete_point, size_line_spans) — body after the fault was applied"""
    if case.get("empty_encoded"):
        # a response without a body that names a content coding: HEAD (any Content-Length), 304, 204, Content-Length: 0
        kind = case["empty_encoded"]
        hdrs = [("Content-Encoding", c12.header_coding(case["coding"]))]
        status = {"head": 200, "304": 304, "204": 204, "cl0": 200}[kind]
        if kind == "head":
            hdrs.append(("Content-Length", "10"))
        elif kind == "cl0":
            hdrs.append(("Content-Length", "0"))
        head = ("HTTP/1.1 %d X\r\n" % status + "".join("%s: %s\r\n" % kv for kv in hdrs) + "\r\n").encode()
        return b"", head, b"", 0, [], False
    if case["fault"][0] == "zcut":
        raw, head, body = c12.wire_of(case, raw=c12.compress(case["coding"], case["payload"])[:case["fault"][1]])
    else:
        raw, head, body = c12.wire_of(case)
    spans = []
    if case["framing"] == "chunked":
        i = 0
        while i < len(body):
            j = body.index(b"\r\n", i)
            spans.append((i, j + 2))
            n = int(body[i:j].split(b";")[0], 16)
            if n == 0:
                break
            i = j + 2 + n + 2
        complete = spans[-1][0] + 1            # the payload is complete once the zero of the last-chunk line is there
    elif case["framing"] == "len":
        complete = len(body)
    else:
        complete = None
    f = case["fault"]
    eof = case["framing"] == "eof"
    if f[0] == "corrupt" and case.get("keepalive"):
        body = body[:f[1]] + bytes([f[2]]) + body[f[1] + 1:] if f[1] < len(body) else body
        return raw, head, body, complete, spans, eof
    if f[0] == "cut":
        body = body[:f[1]]
        eof = True
    elif f[0] == "corrupt" and f[1] < len(body):
        body = body[:f[1]] + bytes([f[2]]) + body[f[1] + 1:]
        eof = True               # the server closes after the response, so that a reader that wants more sees EOF, not a stall
    return raw, head, body, complete, spans, eof


def in_model_domain(case):
    if case.get("empty_encoded"):
        return False               # no body at all: judged by the oracle (an intact response is read back, here as b"")
    if case.get("keepalive"):
        return False               # the model reads up to EOF; a server that keeps the connection open is judged by the oracle
    if case["decode"] and case["coding"] != "identity":
        return False
    if case["framing"] == "len":
        # Content-Length framing: coq/model/LenRead.v (read(), preload, read(n) loops, stream(n); not read1)
        api, arg = case["api"][0], case["api"][1]
        if api in ("read", "data"):
            return True
        return api in ("read_n", "stream") and arg is not None and arg >= 1
    if case["framing"] != "chunked" or case["api"][0] not in ("stream", "read_chunked"):
        return False
    raw, head, body, complete, spans, eof = build(case)
    f = case["fault"]
    if f[0] == "corrupt" and f[2] == 0x2d:
        return False               # a negative chunk size: not modelled
    if case["api"][1] == 0:
        return False
    return True


def encode(case):
    raw, head, body, complete, spans, eof = build(case)
    if case["framing"] == "len":
        declared = len(body) if case["fault"][0] == "zcut" else len(c12.wire_of(case)[2])
        return [1, list(body), declared, {"read": 0, "data": 0, "read_n": 1, "stream": 3}.get(case["api"][0], 9), case["api"][1] or 0, B(case["decode"]), B(eof)]
    return [list(body), Opt(case["api"][1]), B(eof)]


def describe(case):
    d = dict(case)
    d["payload"] = case["payload"].hex()
    return d


_STASH = {}


def impl(case):
    import http.client
    import urllib3
    from urllib3.connectionpool import HTTPConnectionPool
    from netsim.fakesock import installed, Net, Peer, http_response

    raw, head, body, complete, spans, eof = build(case)
    wire = head + body
    segs = list(case["segs"]) or [len(wire)]
    state = {"n": 0}

    class Net13(Net):
        def __init__(self):
            super().__init__()
            self.nconn = 0

        def connect(self, sock, host, port):
            sock.conn_ord = self.nconn
            self.nconn += 1

            def on_data(peer, data):
                if not bytes(peer.inbox).endswith(b"\r\n\r\n"):
                    return
                state["n"] += 1
                if state["n"] > 1:
                    state["second_sock"] = sock.conn_ord
                    peer.send(http_response(200, "OK", [], b"second"))
                    return
                state["first_sock"] = sock.conn_ord
                i = 0
                k = 0
                while i < len(wire):
                    n = max(1, segs[k % len(segs)])
                    k += 1
                    peer.send(wire[i:i + n])
                    i += n
                if eof:
                    peer.eof()
            return Peer(on_data)

    net = Net13()
    problems = []
    got = bytearray()
    end = 0
    dc = case["decode"]
    api, arg = case["api"][0], case["api"][1]
    method = "HEAD" if case.get("empty_encoded") == "head" else "GET"
    with installed(net):
        pool = HTTPConnectionPool("h.example", 80, maxsize=1)
        r = None
        try:
            if api == "data":
                r = pool.urlopen(method, "/", preload_content=True, decode_content=dc, retries=False)
                got += r.data
            else:
                r = pool.urlopen(method, "/", preload_content=False, decode_content=dc, retries=False)
                if api == "read":
                    got += r.read(decode_content=dc)
                elif api == "read_n":
                    while True:
                        p = r.read(arg, decode_content=dc)
                        if not p:
                            break
                        got += p
                elif api == "read1_n":
                    while True:
                        p = r.read1(arg, decode_content=dc)
                        if not p:
                            break
                        got += p
                elif api == "read1_all":
                    while True:
                        p = r.read1(decode_content=dc)
                        if not p:
                            break
                        got += p
                elif api == "stream":
                    for p in r.stream(arg, decode_content=dc):
                        got += p
                elif api == "read_chunked":
                    for p in r.read_chunked(arg, decode_content=dc):
                        got += p
        except urllib3.exceptions.DecodeError:
            end = 4
        except urllib3.exceptions.ProtocolError as e:
            inner = e.args[1] if len(e.args) > 1 else None
            if isinstance(inner, urllib3.exceptions.InvalidChunkLength):
                end = 1
            elif "ended prematurely" in str(e):
                end = 2
            elif isinstance(inner, http.client.IncompleteRead) or isinstance(e, urllib3.exceptions.IncompleteRead):
                end = 3
            else:
                end = 5
        except urllib3.exceptions.HTTPError as e:
            end = 5
        except Exception as e:
            end = 6
            problems.append("reading raised a raw %s: %s" % (type(e).__name__, str(e)[:80]))
        r = None
        import gc
        gc.collect()
        pooled_open = any(c is not None and getattr(c, "sock", None) is not None for c in list(pool.pool.queue))
        reused = None
        try:
            r2 = pool.urlopen("GET", "/again", retries=False)
            reused = state.get("second_sock") == state.get("first_sock")
        except Exception as e:
            problems.append("the request after the faulty response failed with %s" % type(e).__name__)
    _STASH[id(case)] = problems
    return [end, list(got), B(bool(reused)), B(pooled_open)]


def reference_undecodable(case, body_raw):
    """does a plain streaming decoder reject the (corrupted) compressed stream, or find it incomplete (zstd), however it is fed?
    (the zstandard library accepts some damaged frame headers when fed byte by byte and rejects them when fed whole)"""
    import zstandard
    c = case["coding"]

    def feed(pieces):
        try:
            if c == "gzip":
                o = zlib.decompressobj(16 + zlib.MAX_WBITS)
            elif c == "zstd":
                o = zstandard.ZstdDecompressor().decompressobj()
            else:
                o = zlib.decompressobj()
            try:
                for p in pieces:
                    o.decompress(p)
            except zlib.error:
                if c != "deflate":
                    raise
                o = zlib.decompressobj(-zlib.MAX_WBITS)
                for p in pieces:
                    o.decompress(p)
            if c == "zstd":
                return not o.eof
            o.flush()
            return False
        except Exception:
            return True
    return feed([body_raw]) and feed([body_raw[i:i + 1] for i in range(len(body_raw))])


SIMPLE = ("identity", "gzip", "deflate", "zstd")


def _stage(c, pieces):
    """one coding, every member / frame of the stream, fed piece by piece: 'ok' | 'bad' (a plain decoder rejects it) | 'short' (zstd: it ends
    inside a frame); with the bytes decoded so far"""
    import zstandard
    data = b"".join(pieces)
    out = b""
    if c in ("gzip", "gzip2", "x-gzip"):
        rest = data
        while rest:
            d = zlib.decompressobj(16 + zlib.MAX_WBITS)
            try:
                out += d.decompress(rest)
            except zlib.error:
                return out, "bad"
            if not d.eof:
                return out, "ok"          # a truncated gzip member is not something the property asks to be detected
            rest = d.unused_data
        return out, "ok"
    if c in ("deflate", "rawdeflate"):
        for wbits in (zlib.MAX_WBITS, -zlib.MAX_WBITS):
            try:
                d = zlib.decompressobj(wbits)
                return d.decompress(data) + d.flush(), "ok"
            except zlib.error:
                continue
        # urllib3's DeflateDecoder falls back from zlib to raw deflate on the first error and then takes what that yields: what a
        # damaged zlib stream decodes to is not pinned down by any plain decoder (either-region)
        return out, "unknown"
    if c in ("zstd", "zstd2"):
        for mode in ("whole", "bytes"):
            rest = data
            out = b""
            status = "ok"
            try:
                while rest:
                    o = zstandard.ZstdDecompressor().decompressobj()
                    if mode == "whole":
                        out += o.decompress(rest)
                    else:
                        for i in range(len(rest)):
                            out += o.decompress(rest[i:i + 1])
                            if o.eof:
                                break
                    if not o.eof:
                        status = "short"
                        break
                    rest = o.unused_data if mode == "whole" else rest[i + 1:] + b""
            except Exception:
                status = "bad"
            if status == "ok":
                return out, "ok"          # (the library accepts some damaged frame headers in one feeding mode only: either-region)
        return out, status
    return data, "ok"


def stacked_status(coding, stream):
    """'ok' | 'bad' | 'short' for a stream under a list of codings (the last listed was applied last and is removed first)"""
    data = stream
    if any(x.strip() in ("deflate", "rawdeflate") for x in coding.split(",")):
        return "ok"          # DeflateDecoder's fall-back to raw deflate decides what the next stage is fed: either-region
    for c in reversed([x.strip() for x in coding.split(",")]):
        data, st = _stage(c, [data])
        if st == "unknown":
            return "ok"
        if st != "ok":
            return st
    return "ok"


def oracle(case, obs):
    problems = _STASH.pop(id(case), [])
    if problems:
        return problems[0]
    end, got, reused, pooled_open = obs
    got = bytes(got)
    raw, head, body, complete, spans, eof = build(case)
    f = case["fault"]
    want = case["payload"] if case["decode"] else raw
    if case.get("empty_encoded"):
        if end != 0 or got != b"":
            return "a complete response without a body (%s, Content-Encoding: %s) was not read back as empty (end %d, %d bytes)" % (
                case["empty_encoded"], case["coding"], end, len(got))
        return None
    if f[0] == "zcut":
        # the framing is intact; the content coding is what is cut
        full = c12.compress(case["coding"], case["payload"])
        # (with not one byte of the stream the response is a complete one without a body)
        if end == 0 and case["decode"] and case["coding"] == "zstd" and 0 < f[1] < len(full):
            return "the zstd stream is incomplete (%d of %d bytes inside complete framing) but reading ended normally with %d bytes" % (f[1], len(full), len(got))
        if end == 0 and case["decode"] and case["coding"] not in SIMPLE and 0 < f[1] < len(full):
            st = stacked_status(case["coding"], full[:f[1]])
            if st != "ok":
                return "the %s stream (%s) is %s (%d of %d bytes inside complete framing) but reading ended normally with %d bytes" % (
                    "zstd" if st == "short" else "compressed", case["coding"], "incomplete" if st == "short" else "undecodable", f[1], len(full), len(got))
        if end == 0 and not case["decode"] and got != raw:
            return "an intact (undecoded) body was not read back"
        if end not in (0, 4):
            return "a body with intact framing failed with end %d" % end
        return None
    if f[0] == "none":
        if end != 0 or got != want:
            return "an intact response was not read back (end %d)" % end
        return None
    must_raise = None
    if f[0] == "cut":
        if complete is not None and f[1] < complete:
            must_raise = "the body was cut after %d of %d framed bytes" % (f[1], len(c12.wire_of(case)[2]))
        elif complete is None and case["decode"] and case["coding"] == "zstd" and 0 < f[1] < len(raw):
            must_raise = "the zstd stream is incomplete"
        elif complete is None and case["decode"] and case["coding"] not in SIMPLE and 0 < f[1] < len(raw) and stacked_status(case["coding"], raw[:f[1]]) == "short":
            must_raise = "the zstd stream (%s) is incomplete" % case["coding"]
    else:
        pos = f[1]
        in_size_line = any(a <= pos < b for a, b in spans)
        if in_size_line:
            a, b = [(a, b) for a, b in spans if a <= pos < b][0]
            nl = body.find(b"\n", a)
            line = body[a:nl + 1] if nl >= 0 else body[a:]
            import re
            # RFC 9112 7.1: chunk-size = 1*HEXDIG, then optional extensions (BWS ";" ...), then CRLF
            if not re.fullmatch(rb"[0-9a-fA-F]+([ \t]*;[^\r\n]*)?\r\n", line):
                must_raise = "a chunk-size line is malformed (%r)" % line
        elif case["decode"] and case["coding"] in SIMPLE and case["coding"] != "identity" and case["framing"] != "chunked":
            if reference_undecodable(case, body):
                must_raise = "the compressed stream is undecodable"
        elif case["decode"] and case["coding"] not in SIMPLE and case["framing"] != "chunked":
            st = stacked_status(case["coding"], body)
            if st != "ok":
                must_raise = "the compressed stream (%s) is %s" % (case["coding"], "undecodable" if st == "bad" else "incomplete (zstd)")
    if end == 0:
        if must_raise:
            return "%s but reading ended normally with %d bytes" % (must_raise, len(got))
        if f[0] == "cut" and complete is not None and got != want:
            return "a cut response ended normally with %d bytes instead of the payload's %d" % (len(got), len(want))
    elif pooled_open:
        return "the connection that carried the faulty response was left in the pool with its socket open%s" % (" (after DecodeError)" if end == 4 else "")
    elif reused:
        return "the connection that carried the faulty response was handed to the next request%s" % (" (after DecodeError)" if end == 4 else "")
    return None


LENIENT_SIZE_LINE = rb"[ \t\r\x0b\x0c]*[+-]?(0[xX]_?)?[0-9a-fA-F]+(_[0-9a-fA-F]+)*[ \t\r\x0b\x0c]*(;[^\n]*)?\n"


def signature(case, obs, msg):
    import re
    sig = {"msg": (msg or "")[:50]}
    f = case["fault"]
    if "raw ValueError: read length must be non-negative" in (msg or ""):
        # a size line that parses to a negative number reaches http.client's read(-n) / int(): the call site of C13-F1, however the '-' got there
        return {"kind": "negative-chunk-size"}
    if "(after DecodeError)" in (msg or ""):
        # the paths on which the decoder runs after the framing has been read to its end, outside the error catcher: read(), read(n),
        # read1(...) and - for a body with a length - stream(n), which loops over read(n); stream() / read_chunked() on a chunked body
        # and a preloaded body decode inside the catcher and close the connection
        if case["api"][0] in ("read", "read_n", "read1_n", "read1_all") or (case["api"][0] == "stream" and case["framing"] == "len"):
            return {"kind": "connection-kept-after-decode-error"}
        return {"msg": (msg or "")[:50], "api": case["api"][0], "framing": case["framing"]}
    codings = [x.strip() for x in case["coding"].split(",")]
    if "but reading ended normally" in (msg or "") and "incomplete" in (msg or "") and len(codings) > 1 and codings[-1] in ("zstd", "zstd2"):
        return {"kind": "outer-zstd-of-a-stack-not-flushed"}
    if "is undecodable but reading ended normally" in (msg or "") and "gzip2" in codings and f[0] == "corrupt":
        first = len(__import__("gzip").compress(case["payload"][:len(case["payload"]) // 2], 6, mtime=0))
        if codings == ["gzip2"] and f[1] >= first:
            return {"kind": "damage-after-the-first-gzip-member-taken-for-trailing-garbage"}
    m = re.search(r"a chunk-size line is malformed \((b['\"].*['\"])\) but reading ended normally", msg or "")
    if m:
        try:
            line = eval(m.group(1))
        except Exception:
            line = b""
        if re.fullmatch(LENIENT_SIZE_LINE, line):
            return {"kind": "chunk-size-line-accepted-by-int"}
    if f[0] == "corrupt" and f[2] == 0x2d and case["framing"] == "chunked":
        raw, head, body, complete, spans, eof = build(dict(case, fault=["none"]))
        if any(a == f[1] for a, b in spans):
            sig["kind"] = "negative-chunk-size"
    return sig


def nontrivial(case, obs):
    if case["fault"][0] == "none":
        return None
    return hashlib.sha1(repr((describe(case), obs)).encode()).hexdigest()[:16]


def histogram(cases, obss):
    h = {"coding": {}, "framing": {}, "fault": {}, "api": {}, "end": {}, "decode": {}}
    names = {0: "normal end", 1: "InvalidChunkLength", 2: "ended prematurely", 3: "IncompleteRead", 4: "DecodeError", 5: "other urllib3 error", 6: "raw"}
    for c, o in zip(cases, obss):
        for k, v in (("coding", c["coding"]), ("framing", c["framing"]), ("fault", c["fault"][0]), ("api", c["api"][0]), ("decode", str(c["decode"]))):
            h[k][v] = h[k].get(v, 0) + 1
        if o:
            h["end"][names.get(o[0])] = h["end"].get(names.get(o[0]), 0) + 1
    return h


# ---------------------------------------------------------------- generators
def apis(rng=None):
    return [["read", None], ["read_n", 1], ["read_n", 7], ["read_n", 1000], ["read1_n", 3], ["read1_n", 1000], ["read1_all", None], ["stream", 1], ["stream", 2], ["stream", 64], ["stream", None],
            ["read_chunked", None], ["read_chunked", 3], ["data", None]]


def base_case(rng, framing=None):
    n = rng.choice([0, 1, 5, 17, 40, 120])
    payload = bytes(rng.choice(b"ab\n") for _ in range(n)) if rng.random() < 0.6 else bytes(rng.randrange(256) for _ in range(n))
    framing = framing or rng.choice(["len", "chunked", "chunked", "eof"])
    return {"payload": payload, "coding": rng.choice(["identity", "identity", "gzip", "deflate", "zstd", "gzip", "deflate", "zstd", "gzip2", "zstd2", "gzip, zstd", "zstd, gzip", "gzip, deflate"]), "framing": framing,
            "chunks": [rng.choice([1, 2, 5, 16, 1000]) for _ in range(rng.randint(1, 3))], "ext": rng.choice([False, False, True, 2, 3, 4]),
            "segs": [rng.choice([1, 3, 10, 10000]) for _ in range(rng.randint(1, 2))], "decode": rng.random() < 0.6}


def cases(rng, tier):
    out = []
    # every cut position of a few small responses x every API
    for _ in range(6 if tier == "quick" else 40):
        b = base_case(rng, rng.choice(["len", "chunked"]))
        b["payload"] = b["payload"][:17]
        total = len(c12.wire_of(dict(b, fault=["none"]))[2])
        for k in range(total):
            for a in apis():
                if a[0] == "read_chunked" and b["framing"] != "chunked":
                    continue
                out.append(dict(b, api=list(a), fault=["cut", k]))
    # responses without a body that name a content coding x every API: nothing to decode, nothing incomplete
    for kind in ("head", "304", "204", "cl0"):
        for coding in ("gzip", "deflate", "zstd"):
            for dc in (True, False):
                for a in apis():
                    if a[0] == "read_chunked":
                        continue
                    out.append({"payload": b"", "coding": coding, "framing": "len", "chunks": [1], "ext": False, "segs": [10000], "decode": dc,
                                "api": list(a), "fault": ["none"], "empty_encoded": kind})
    # a zstd stream stopping at every position inside complete framing x every API
    for _ in range(2 if tier == "quick" else 12):
        b = base_case(rng, rng.choice(["len", "chunked", "eof"]))
        b["coding"], b["decode"], b["payload"] = "zstd", True, (b["payload"] + b"abcdefgh")[:16]
        for k in range(len(c12.compress("zstd", b["payload"])) + 1):
            for a in apis():
                if a[0] == "read_chunked" and b["framing"] != "chunked":
                    continue
                out.append(dict(b, api=list(a), fault=["zcut", k]))
    # random cuts and corruptions
    for _ in range(4000 if tier == "quick" else 150000):
        b = base_case(rng)
        total = len(c12.wire_of(dict(b, fault=["none"]))[2])
        a = rng.choice(apis())
        if a[0] == "read_chunked" and b["framing"] != "chunked":
            a = ["stream", 7]
        x = rng.random()
        if x < 0.12 and b["coding"] != "identity":
            fault = ["zcut", rng.randrange(len(c12.compress(b["coding"], b["payload"])) + 1)]
        elif x < 0.45 and total:
            fault = ["cut", rng.randrange(total)]
        elif x < 0.9 and total:
            c = dict(b, fault=["none"])
            raw, head, body, complete, spans, eof = build(c)
            if spans and rng.random() < 0.6:
                sa, sb = rng.choice(spans)
                pos = rng.randrange(sa, sb)
            else:
                pos = rng.randrange(total)
            fault = ["corrupt", pos, rng.choice([0, 10, 13, 32, 43, 45, 48, 49, 59, 95, 102, 103, 120, 255, rng.randrange(256)])]
            if fault[2] == body[pos]:
                fault[2] = (fault[2] + 1) % 256
        else:
            fault = ["none"]
        out.append(dict(b, api=list(a), fault=fault))
        if fault[0] == "corrupt" and b["framing"] != "eof" and rng.random() < 0.5:
            out.append(dict(b, api=list(a), fault=fault, keepalive=True))      # the server does not close after the corrupt response
    return out


def shrinks(case):
    if len(case["payload"]) > 2:
        c = dict(case); c["payload"] = case["payload"][:len(case["payload"]) // 2]
        yield c
    if case["segs"] != [10000]:
        c = dict(case); c["segs"] = [10000]
        yield c
