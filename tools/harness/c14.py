"""C14 — URL parsing is total, canonical, and agrees with RFC 3986 on what the host is.

case = {"url": str}.  Observation: LocationParseError | all seven fields + Url.url + request_uri | other exception.
idna.encode answers for the non-ASCII host labels are recorded and given to the model as an oracle table."""
from __future__ import annotations

import hashlib
import itertools
import time

from sexp import S, Opt

ID = "C14"
GEN = ["Gen_Url"]
RULE = ("all strings up to the tier's length over a delimiter-heavy alphabet (with http:// , // and no prefix), grammar-generated hostile URLs "
        "(nested @, backslashes, % forms, IPv6/zone literals, IDN, port forms, dot-segment mixes), random unicode; "
        "non-trivial = parse succeeded with a host or raised; distinct = distinct input")
TRUSTED_BASE = [
    "model coq/model/Url.v: explicit scanners standing for the regular expressions of util/url.py, pinned to the pattern literals regenerated into gen/Gen_Url.v",
    "idna.encode is an oracle (answers recorded and replayed); str.lower()/upper() are ASCII in the positions where the code applies them to ASCII-only text",
    "the running-time clause is a measurement on the implementation (a test), not a theorem",
]
ASSUMPTIONS = ["input is a str (bytes input not modelled)"]
EXHAUSTIVE = {"quick": False, "thorough": False}
CASE_TIMEOUT = 8


def describe(case):
    return case


def _labels(url):
    """candidate host labels (a superset, computed without the implementation): every non-ASCII piece of the
    input between the characters that can never occur inside a host label"""
    import re
    return sorted(set(p for p in re.split(r"[/?#\\\\@:.]", url) if p and not p.isascii()))


def _idna(label):
    import idna
    try:
        return idna.encode(label.lower(), strict=True, std3_rules=True).decode("ascii")
    except idna.IDNAError:
        return None


def in_model_domain(case):
    """the extracted model is quadratic in the length of its input (lists of code points): the longest inputs, which are there for
    the running-time clause of the implementation, are judged by the oracle only"""
    return len(case["url"]) <= 4000


def encode(case):
    t = [[S(l), Opt(_idna(l), S)] for l in _labels(case["url"])]
    return [S(case["url"]), t]


_STASH = {}


def impl(case):
    from urllib3.util.url import parse_url
    from urllib3.exceptions import LocationParseError
    t0 = time.perf_counter()
    try:
        r = parse_url(case["url"])
    except LocationParseError:
        _STASH[id(case)] = (time.perf_counter() - t0, None)
        return [0]
    except Exception as e:
        _STASH[id(case)] = (time.perf_counter() - t0, "%s: %s" % (type(e).__name__, e))
        return [2]
    _STASH[id(case)] = (time.perf_counter() - t0, None)
    return [1, Opt(r.scheme, S), Opt(r.auth, S), Opt(r.host, S), Opt(r.port), Opt(r.path, S), Opt(r.query, S), Opt(r.fragment, S), S(r.url), S(r.request_uri)]


# ---------------------------------------------------------------- oracle
UNRES = set("ABCDEFGHIJKLMNOPQRSTUVWXYZabcdefghijklmnopqrstuvwxyz0123456789._-~")
SUB = set("!$&'()*+,;=")
USERINFO = UNRES | SUB | {":"}
PATHC = USERINFO | {"@", "/"}
QUERYC = PATHC | {"?"}


def rfc3986_authority(url):
    """independent reading: scheme ':' '//' authority, where the authority ends at the first / ? # or backslash;
    userinfo = before the last '@'; port = after the last ':' that is outside brackets; returns None when there is no authority"""
    s = url
    i = 0
    if s[:1].isascii() and s[:1].isalpha():
        j = 1
        while j < len(s) and s[j].isascii() and (s[j].isalnum() or s[j] in "+.-"):
            j += 1
        if j < len(s) and s[j] == ":":
            i = j + 1
    if s[i:i + 2] != "//":
        return None
    i += 2
    j = i
    while j < len(s) and s[j] not in "/?#\\":
        j += 1
    auth = s[i:j]
    userinfo = None
    if "@" in auth:
        userinfo, _, hostport = auth.rpartition("@")
    else:
        hostport = auth
    if hostport.startswith("["):
        k = hostport.find("]")
        if k < 0:
            return ("invalid",)
        host, rest = hostport[:k + 1], hostport[k + 1:]
        if rest == "":
            port = None
        elif rest.startswith(":"):
            port = rest[1:]
        else:
            return ("invalid",)
    elif ":" in hostport:
        host, _, port = hostport.rpartition(":")
    else:
        host, port = hostport, None
    return (userinfo, host, port)


def check_component(name, comp, allowed):
    i = 0
    while i < len(comp):
        c = comp[i]
        if c == "%":
            h = comp[i + 1:i + 3]
            if len(h) == 2 and all(x in "0123456789ABCDEF" for x in h):
                i += 3
                continue
            return "%s %r contains '%%' that is not an upper-case escape" % (name, comp)
        if c not in allowed:
            return "%s %r contains %r outside the RFC 3986 set" % (name, comp, c)
        i += 1
    return None


def decode_once(b):
    """percent-decoding, one level: what the component stands for"""
    out = bytearray()
    i = 0
    while i < len(b):
        if b[i:i + 1] == b"%" and len(b) >= i + 3 and all(c in b"0123456789abcdefABCDEF" for c in b[i + 1:i + 3]):
            out.append(int(b[i + 1:i + 3], 16)); i += 3
        else:
            out.append(b[i]); i += 1
    return bytes(out)


def input_components(url):
    """(path or None, query or None, fragment or None) of an http(s) URL as written, by the generic split: the fragment follows the first '#',
    the query the first '?' before it, the path runs from the end of the authority (first '/', '?', '#' or backslash after '//')"""
    frag = url.split("#", 1)[1] if "#" in url else None
    rest = url.split("#", 1)[0]
    query = rest.split("?", 1)[1] if "?" in rest else None
    rest = rest.split("?", 1)[0]
    import re
    m = re.match(r"^[hH][tT][tT][pP][sS]?://[^/\\]*(/.*)?$", rest, re.S)
    path = m.group(1) if m else None
    if path is not None and ("\\" in path or any(seg in (".", "..") for seg in path.split("/"))):
        path = None          # backslashes and dot segments: the path is rewritten before it is encoded
    return path, query, frag


def oracle(case, obs):
    dt, other = _STASH.pop(id(case), (0, None))
    url = case["url"]
    if obs[0] == 2:
        return "parse_url raised %s (only LocationParseError is allowed)" % other
    n = len(url)
    if dt > 0.05 + 2e-5 * n * 4 and n >= 2000:
        # crude super-linearity alarm for long inputs: > 4x the linear budget of 20 us/char
        return "parse_url took %.2fs on a %d-character input (super-linear running time)" % (dt, n)
    if obs[0] == 0:
        return None
    un = lambda x: None if not x else "".join(chr(c) for c in x[0])
    scheme, auth, host, port, path, query, frag = un(obs[1]), un(obs[2]), un(obs[3]), (obs[4][0] if obs[4] else None), un(obs[5]), un(obs[6]), un(obs[7])
    urlstr = "".join(chr(c) for c in obs[8])
    if port is not None and not (0 <= port <= 65535):
        return "port %r outside 0-65535" % port
    # agreement with the independent RFC 3986 reading of the authority
    src = url
    import re as _re
    m_rfc = _re.match(r"^[a-zA-Z][a-zA-Z0-9+.-]*:", src)
    m_strict = _re.match(r"^[a-zA-Z][a-zA-Z0-9+-]*:", src)
    if m_rfc and not m_strict:
        # 'name.with.dots:...' : urllib3 documents reading this as host:port ('google.com:80'), RFC 3986 as a scheme: either-region
        return None
    ref = rfc3986_authority(src)
    if ref is None and not (src[:1] == "/" ):
        # urllib3 reads scheme-less input as '//'+input unless it looks like 'scheme:' or starts with '/'
        import re
        if not re.match(r"^[a-zA-Z][a-zA-Z0-9+-]*:", src):
            ref = rfc3986_authority("//" + src)
    if ref is not None and ref != ("invalid",) and host is not None:
        r_user, r_host, r_port = ref
        if r_host.lower() != host.lower() and not any(ord(c) > 127 for c in r_host) and "%" not in r_host:
            return "host %r differs from the RFC 3986 reading %r" % (host, r_host)
        if r_port is not None:
            if r_port == "":
                if port is not None:
                    return "empty port read as %r" % port
            elif not (r_port.isascii() and r_port.isdigit()):
                return "port text %r is not a decimal number but parsing succeeded with port %r" % (r_port, port)
            elif int(r_port) != port:
                return "port %r differs from the RFC 3986 reading %r" % (port, r_port)
        elif port is not None:
            return "port %r but the RFC 3986 reading has none" % port
        if (r_user or None) is None and auth is not None:
            return "userinfo %r but the RFC 3986 reading has none" % auth
    elif ref == ("invalid",) and host is not None:
        return "authority is invalid for RFC 3986 but parsing succeeded with host %r" % host
    # normal form for http/https
    if scheme in ("http", "https") and host:
        if scheme != scheme.lower():
            return "scheme not lower-cased"
        # (an IPv6 zone identifier is an opaque, case-sensitive interface name: only what precedes it is a host name)
        hname = host[:host.index("%")] if host.startswith("[") and "%" in host else host
        if hname != hname.lower() and hname.isascii():
            return "host %r not lower-cased" % host
        if path:
            segs = path.split("/")
            if "." in segs or ".." in segs:
                return "path %r still contains dot segments" % path
        for name, comp, allowed in (("userinfo", auth, USERINFO), ("path", path, PATHC), ("query", query, QUERYC), ("fragment", frag, QUERYC)):
            if comp:
                m = check_component(name, comp, allowed)
                if m:
                    return m
        # no double-encoding of valid escapes: decoded once, a component stands for what the caller wrote
        ipath, iquery, ifrag = input_components(url)
        for name, given, got in (("path", ipath, path), ("query", iquery, query), ("fragment", ifrag, frag)):
            if given is None or got is None:
                continue
            try:
                want = decode_once(given.encode("utf-8", "surrogatepass"))
            except UnicodeEncodeError:
                continue
            if decode_once(got.encode("ascii", "replace")) != want:
                return "%s %r was written %r: decoded once it is not what the caller wrote (a valid escape was encoded again)" % (name, given[:60], got[:80])
        # re-parsing the string form gives the same Url
        from urllib3.util.url import parse_url
        try:
            again = parse_url(urlstr)
        except Exception as e:
            return "the string form %r of the result does not re-parse (%s)" % (urlstr, type(e).__name__)
        if tuple(again) != (scheme, auth, host, port, path, query, frag):
            return "re-parsing %r gives %r, not %r" % (urlstr, tuple(again), (scheme, auth, host, port, path, query, frag))
    return None


def signature(case, obs, msg):
    m = msg or ""
    sig = {"msg": m[:40]}
    if "is not a decimal number but parsing succeeded" in m:
        sig["kind"] = "port-trailing-newline" if case["url"].endswith("\n") or "\n" in case["url"] else "port-text"
    if m.startswith("authority is invalid for RFC 3986 but parsing succeeded"):
        # the same '$': a bracketed literal followed by one final newline
        import re
        u = case["url"]
        a = re.match(r"[^/?#\\]*", u[u.index("//") + 2:] if "//" in u else u, re.S).group(0)
        if a.endswith("]\n") and "\n" not in a[:-1]:
            sig["kind"] = "port-trailing-newline"
    if "a valid escape was encoded again" in m:
        import re
        comp = re.search(r"^(path|query|fragment) ", m).group(1)
        ipath, iquery, ifrag = input_components(case["url"])
        given = {"path": ipath, "query": iquery, "fragment": ifrag}[comp] or ""
        valid = len(re.findall(r"%[0-9a-fA-F]{2}", given))
        if valid and given.count("%") > valid:
            sig = {"kind": "valid-escape-reencoded-beside-stray-percent"}
    return sig


def nontrivial(case, obs):
    if obs[0] == 1 and not obs[3]:
        return None
    return hashlib.sha1(case["url"].encode("utf-8", "surrogatepass")).hexdigest()[:16]


def histogram(cases, obss):
    h = {"len": {}, "outcome": {}}
    for c, o in zip(cases, obss):
        n = len(c["url"])
        k = str(n) if n <= 8 else ("9-50" if n <= 50 else ("51-2000" if n <= 2000 else ">2000"))
        h["len"][k] = h["len"].get(k, 0) + 1
        k = {0: "LocationParseError", 1: "Url", 2: "other-exception"}.get(o[0] if o else None, "?")
        h["outcome"][k] = h["outcome"].get(k, 0) + 1
    return h


ALPHA = ["a", "A", "1", "0", ":", "/", "@", "?", "#", "\\", "[", "]", "%", ".", "-", "\u0662", "é", "\n"]
PREFIXES = ["http://", "//", ""]


def grammar_url(rng):
    scheme = rng.choice(["http", "HTTP", "https", "HtTpS", "ftp", "x-y.z+1", "", ""])
    users = ["", "", "user", "u:p", "a@b", "u%41", "u%zz", "ü", "a\\b", ":", "@"]
    hosts = ["example.com", "EXAMPLE.com", "ex%41mple.com", "a.b.", "bücher.example", "xn--bcher-kva.example", "1.2.3.4", "999.1.1.1", "1.2.3",
             "[::1]", "[FE80::1%eth0]", "[fe80::1%25eth0]", "[fe80::1%25]", "[::1%25%41b]", "[1:2:3:4:5:6:7:8]", "[1:2:3:4:5:6:1.2.3.4]", "[::ffff:1.2.3.4]",
             "[1::2::3]", "[:::]", "[::1", "::1", "[g::1]", "[1:2:3:4:5:6:7:8:9]", "[::1]x", "", "a b", "a\tb", "ß.example", "a..b", "-a.example", "exa\nmple.com",
             "%41.com", "a%2fb", "[v1.fe80::a]", "０.example", "a" * 70 + ".example"]
    ports = ["", "", ":80", ":0", ":", ":00080", ":65535", ":65536", ":99999", ":100000", ":8a", ":-1", ":٨٠", ":80\n", ":\n", ": 80", ":+80", ":080", ":8\u0660", ":1\uff12", ":\u0661", ":1\u00b2"]
    paths = ["", "/", "/a/b", "/a/../b", "/../a", "/a/./b/.", "/a/..", "a/b", "/%7e%zz", "/é", "/a b", "/a%2Fb", "//a//b", "/.", "/..", "/a/.././../b/", "\\a\\b", "/a\\..\\b"]
    queries = ["", "", "?", "?a=b&c=d", "?%zz", "?é", "?a#b", "??", "?a b"]
    frags = ["", "", "#", "#f", "#é%41%zz", "##", "#a?b"]
    u = ""
    if scheme:
        u += scheme + ":"
    if scheme == "" or rng.random() < 0.9:
        u += "//" if rng.random() < 0.9 else ""
        us = rng.choice(users)
        if us:
            u += us + "@"
        u += rng.choice(hosts) + rng.choice(ports)
    u += rng.choice(paths) + rng.choice(queries) + rng.choice(frags)
    if rng.random() < 0.1:
        i = rng.randrange(len(u) + 1)
        u = u[:i] + rng.choice(ALPHA + ["\x00", "\ud800", "\U0001f600"]) + u[i:]
    return u


def cases(rng, tier):
    out = []
    L = 3 if tier == "quick" else 5
    short = ["".join(p) for k in range(0, L + 1) for p in itertools.product(ALPHA, repeat=k)]
    cap = 40000 if tier == "quick" else 1200000
    for pre in PREFIXES:
        for s in short:
            out.append({"url": pre + s})
    if len(out) > cap:
        out = rng.sample(out, cap)
    for _ in range(5000 if tier == "quick" else 60000):
        out.append({"url": grammar_url(rng)})
    for _ in range(500 if tier == "quick" else 5000):
        n = rng.randint(1, 12)
        out.append({"url": rng.choice(PREFIXES) + "".join(chr(rng.choice([rng.randrange(32, 127), rng.randrange(0x80, 0x2000), rng.randrange(0x10000, 0x10ffff)])) for _ in range(n))})
    # one final newline after each authority form; valid escapes beside a '%' that begins none, in every component
    for pre in ("http://", "https://", "//", "HTTP://u@"):
        for a in ("[::1]", "[::1]:80", "[fe80::1%25eth0]", "h:80", "h:", "h", "1.2.3.4", "1.2.3.4:8", "[::1]:"):
            for nl in ("\n", "\n\n", "\r\n", "\r"):
                for tail in ("", "/x", "?q", "#f"):
                    out.append({"url": pre + a + nl + tail})
    for dot in ("\u3002", "\uff0e", "\uff61"):
        for h in ("safe" + dot + "evil.com", "b\u00fccher" + dot, "a" + dot + "b" + dot + "c", dot + "x.example", "trusted.example" + dot + "attacker.example"):
            for pre in ("http://", "https://u@", ""):
                out.append({"url": pre + h + "/p"})
                out.append({"url": pre + h + ":8080"})
    for comp in ("a%41%zz", "%41%", "%", "%4", "%zz%41", "%25%41%", "%41%42", "a%2f%2F%", "%e9%", "\u00e9%41%", "%41%\u00e9"):
        for u in ("http://h/" + comp, "http://h/p?" + comp, "http://h/p#" + comp, "http://h/" + comp + "?" + comp + "#" + comp, "https://u@h:8/x/" + comp + "/y"):
            out.append({"url": u})
    # running-time clause: pathological repetitions
    for n in ([2000, 20000] if tier == "quick" else [2000, 20000, 100000]):
        for unit, tail in [("a", ""), ("/", ""), ("@", ""), (":", ""), ("%", ""), ("a.", ""), ("/../", ""), ("%41", "%"), ("[", ""), ("1", ":"), ("\\", ""), ("?", "#"), ("a", "!"), (".", "@")]:
            out.append({"url": "http://" + unit * (n // len(unit)) + tail})
        out.append({"url": "http://[fe80::1%25" + "a" * n + "!]/"})
        out.append({"url": "http://[" + "1:" * (n // 2) + "]/"})
    return out
