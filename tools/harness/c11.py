"""C11 — request bodies are framed exactly and re-sent identically.

case = {"via": "pool"|"manager", "method": m, "body": body, "chunked": bool, "blocksize": n, "hist": [outcome, ...]}
body = ["none"] | ["bytes", b] | ["str", s] | ["buffer", itemsize, b] | ["file", {text, data, pos, has_tell, tell_ok, has_seek, seek_ok}]
     | ["iter", one_shot, [chunk, ...]]        chunk = ["b", bytes] | ["s", str] | ["buf", itemsize, bytes]
outcome = ok | err_before (connect refused) | err_after (reset after the request was received) | status503 | see_other (303) | redirect (301/302/307/308)
Observation: every request the server received (method, framing header, raw payload bytes) and how the call ended."""
from __future__ import annotations

import array
import hashlib
import io

from sexp import S, B

ID = "C11"
GEN = ["Gen_Body"]
RULE = ("body kinds None / bytes / str (incl. non-ASCII) / bytearray, memoryview, array('H'), array('I') / binary and text files (seekable, tell() failing, "
        "seek() failing, without tell, start offsets) / lists and generators of bytes, str and buffers incl. empty chunks; sizes 0,1,blocksize-1,blocksize,"
        "blocksize+1,3*blocksize+2 with blocksize 4 or 8; methods GET, POST, PUT, DELETE, PATCH, lower-case; chunked flag on/off; through a bare pool and "
        "through PoolManager (same-host and cross-host redirects); histories of up to 4 attempts over ok / connect error / reset after send / 503 / 303 / "
        "301,302,307,308; non-trivial = a body other than None or a history with more than one attempt; distinct = distinct (case, observation)")
TRUSTED_BASE = [
    "model coq/model/Framing.v (body_to_chunks, HTTPConnection.request framing and send loop, set_file_position, rewind_body, the body/body_pos plumbing of both urlopen recursions)",
    "file-like bodies are the harness's own classes (read/tell/seek with scripted failures); a request either fails before anything is written or after all of it was",
    "in-memory sockets of tools/netsim; the server decides a request is complete by its framing",
]
ASSUMPTIONS = ["the caller supplies no Content-Length / Transfer-Encoding header", "str bodies contain no lone surrogates",
               ]
EXHAUSTIVE = {"quick": False, "thorough": False}
CASE_TIMEOUT = 30

OUT = {"ok": 0, "err_before": 1, "err_after": 2, "status503": 3, "see_other": 4, "redirect": 5}


def norm_body(b):
    if b[0] == "file":
        f = dict(b[1])
        if f["text"]:
            f["has_tell"] = f["has_seek"] = True      # io.TextIOBase always has them
        if not f["has_tell"]:
            f["tell_ok"] = True
        if not f["has_seek"]:
            f["seek_ok"] = True
        f["pos"] = min(f["pos"], len(f["data"]))
        return ["file", f]
    return b


def enc_chunk(c):
    if c[0] == "b":
        return [0, list(c[1])]
    if c[0] == "s":
        return [1, S(c[1])]
    return [2, c[1], list(c[2])]


def enc_body(b):
    b = norm_body(b)
    k = b[0]
    if k == "none":
        return [0]
    if k == "bytes":
        return [1, list(b[1])]
    if k == "str":
        return [2, S(b[1])]
    if k == "buffer":
        return [3, b[1], list(b[2])]
    if k == "file":
        f = b[1]
        data = S(f["data"]) if f["text"] else list(f["data"])
        return [4, B(f["text"]), data, f["pos"], B(f["has_tell"]), B(f["tell_ok"]), B(f["has_seek"]), B(f["seek_ok"])]
    return [5, B(b[1]), [enc_chunk(c) for c in b[2]]]


def encode(case):
    return [B(case["via"] == "manager"), S(case["method"]), enc_body(case["body"]), B(case["chunked"]), case["blocksize"], [OUT[o] for o in case["hist"]]]


def describe(case):
    return case


def mk_buffer(itemsize, data, flavour=0):
    data = bytes(data)
    if itemsize == 1:
        return bytearray(data) if flavour % 2 == 0 else memoryview(data)
    a = array.array("H" if itemsize == 2 else "I")
    assert a.itemsize == itemsize and len(data) % itemsize == 0
    a.frombytes(data)
    return a


def mk_body(b):
    b = norm_body(b)
    k = b[0]
    if k == "none":
        return None
    if k == "bytes":
        return bytes(b[1])
    if k == "str":
        return b[1]
    if k == "buffer":
        return mk_buffer(b[1], b[2], len(b[2]))
    if k == "iter":
        def conv(c):
            return bytes(c[1]) if c[0] == "b" else (c[1] if c[0] == "s" else mk_buffer(c[1], c[2], len(c[2])))
        items = [conv(c) for c in b[2]]
        return (x for x in items) if b[1] else items
    f = b[1]

    class Core:
        def __init__(self):
            self.data = f["data"] if f["text"] else bytes(f["data"])
            self.pos = f["pos"]

        def read(self, n=-1):
            if n is None or n < 0:
                n = len(self.data)
            if f.get("short") and n > 0:
                n = min(n, f["short"])          # a pipe or socket file: fewer bytes than asked for, never none before the end
            out = self.data[self.pos:self.pos + n]
            self.pos = min(len(self.data), self.pos + n)
            return out

        def tell(self):
            if not f["tell_ok"]:
                raise OSError("tell failed")
            return self.pos

        def seek(self, p, whence=0):
            if not f["seek_ok"]:
                raise OSError("seek failed")
            self.pos = p
            return p
    core = Core()
    if f["text"]:
        class TextBody(io.TextIOBase):
            def read(self, n=-1):
                return core.read(n)

            def tell(self):
                return core.tell()

            def seek(self, p, whence=0):
                return core.seek(p, whence)
        return TextBody()

    class BinBody:
        def read(self, n=-1):
            return core.read(n)
    o = BinBody()
    if f["has_tell"]:
        o.tell = core.tell
    if f["has_seek"]:
        o.seek = core.seek
    return o


def in_model_domain(case):
    """the model's file objects fill every block: a file whose read() returns short blocks is judged by the oracle only"""
    b = case["body"]
    return not (b[0] == "file" and b[1].get("short"))


_STASH = {}


def impl(case):
    import urllib3
    import urllib3.util.retry as ur
    from urllib3.connectionpool import HTTPConnectionPool
    from netsim.fakesock import installed, Net, Peer, http_response

    hist = list(case["hist"])
    state = {"k": 0}
    received = []

    class ScriptEnd(BaseException):
        pass

    class Net11(Net):
        def connect(self, sock, host, port):
            k = state["k"]
            if k < len(hist) and hist[k] == "err_before":
                state["k"] += 1
                raise ConnectionRefusedError(111, "Connection refused")
            buf = bytearray()

            def on_data(peer, data):
                buf.extend(data)
                if b"\r\n\r\n" not in buf:
                    return
                head, _, rest = bytes(buf).partition(b"\r\n\r\n")
                lines = head.split(b"\r\n")
                hd = {}
                for ln in lines[1:]:
                    n, _, v = ln.partition(b":")
                    hd.setdefault(n.strip().lower(), []).append(v.strip())
                fr = []
                if b"content-length" in hd:
                    fr.append([1, int(hd[b"content-length"][0])])
                if b"transfer-encoding" in hd:
                    fr.append([2])
                if not fr:
                    fr = [[0]]
                if [2] in fr:
                    if not rest.endswith(b"0\r\n\r\n"):
                        return
                    payload = rest
                elif fr[0][0] == 1:
                    if len(rest) < fr[0][1]:
                        return
                    payload = rest
                else:
                    payload = rest
                del buf[:]
                method = lines[0].split(b" ")[0].decode()
                dup = sum(len(v) for n, v in hd.items() if n in (b"content-length", b"transfer-encoding"))
                received.append({"method": method, "framing": fr, "nframing": dup, "payload": payload})
                k = state["k"]
                if k >= len(hist):
                    peer.fail(ScriptEnd())
                    return
                o = hist[k]
                state["k"] += 1
                nxt = "/n%d" % k if (case["via"] == "pool" or k % 2 == 0) else "http://h%d.example/n%d" % (k, k)
                closing = k + 1 < len(hist) and hist[k + 1] == "err_before"     # so that the next attempt has to connect
                extra = [("Connection", "close")] if closing else []
                if o == "ok":
                    peer.send(http_response(200, "OK", extra, b"done"))
                elif o == "err_after":
                    peer.fail(ConnectionResetError(104, "Connection reset by peer"))
                elif o == "status503":
                    peer.send(http_response(503, "X", [("Retry-After", "0")] + extra, b""))
                elif o == "see_other":
                    peer.send(http_response(303, "X", [("Location", nxt)] + extra, b""))
                elif o == "redirect":
                    peer.send(http_response((301, 302, 307, 308)[k % 4], "X", [("Location", nxt)] + extra, b""))
                else:
                    problems.append("harness: a request arrived where the script wanted a connect failure")
                if closing and o != "err_after":
                    peer.eof()
            return Peer(on_data)

    problems = []
    net = Net11()

    class FakeTime:
        @staticmethod
        def sleep(x):
            pass

        @staticmethod
        def time():
            return 1.7e9
    old = ur.time
    ur.time = FakeTime
    try:
        with installed(net):
            retries = urllib3.Retry(total=30, redirect=30, allowed_methods=None, status_forcelist=[503], backoff_factor=0)
            body = mk_body(case["body"])
            kw = {"body": body, "retries": retries, "preload_content": True}
            if case["chunked"]:
                kw["chunked"] = True
            try:
                if case["via"] == "pool":
                    pool = HTTPConnectionPool("h0.example", 80, blocksize=case["blocksize"], maxsize=1)
                    pool.urlopen(case["method"], "/n", **kw)
                else:
                    pm = urllib3.PoolManager(blocksize=case["blocksize"])
                    pm.urlopen(case["method"], "http://h0.example/n", **kw)
                final = 0
            except urllib3.exceptions.UnrewindableBodyError:
                final = 1
            except ValueError:
                final = 2
            except UnicodeEncodeError:
                final = 3
            except ScriptEnd:
                final = 9
            except urllib3.exceptions.HTTPError as e:
                final = 7
                problems.append("the call failed with %s" % type(e).__name__)
            except Exception as e:
                final = 8
                problems.append("the call failed with a raw %s: %s" % (type(e).__name__, e))
        sends = []
        for r in received:
            fr = r["framing"][0] if len(r["framing"]) == 1 else [3]
            sends.append([S(r["method"]), fr, list(r["payload"])])
        return [sends, final]
    finally:
        ur.time = old
        _STASH[id(case)] = (problems, received)


# ---------------------------------------------------------------- oracle (independent of the model)
def body_bytes(b):
    b = norm_body(b)
    k = b[0]
    if k == "none":
        return b""
    if k == "bytes":
        return bytes(b[1])
    if k == "str":
        return b[1].encode("utf-8")
    if k == "buffer":
        return bytes(b[2])
    if k == "file":
        f = b[1]
        d = f["data"][f["pos"]:]
        return d.encode("utf-8") if f["text"] else bytes(d)
    out = b""
    for c in b[2]:
        out += bytes(c[1]) if c[0] == "b" else (c[1].encode("utf-8") if c[0] == "s" else bytes(c[2]))
    return out


def dechunk(w):
    """strict chunked decoder (independent of the model's): returns bytes or None"""
    out = bytearray()
    i = 0
    while True:
        j = w.find(b"\r\n", i)
        if j < 0:
            return None
        size = w[i:j]
        if not size or any(c not in b"0123456789abcdefABCDEF" for c in size):
            return None
        n = int(size, 16)
        i = j + 2
        if n == 0:
            return bytes(out) if w[i:] == b"\r\n" else None
        if w[i + n:i + n + 2] != b"\r\n":
            return None
        out += w[i:i + n]
        i += n + 2


NO_BODY = {"GET", "HEAD", "DELETE", "TRACE", "OPTIONS", "CONNECT"}


def oracle(case, obs):
    problems, received = _STASH.pop(id(case), ([], []))
    if problems:
        return problems[0]
    sends, final = obs
    if final == 2:
        return "the call failed with ValueError, not with UnrewindableBodyError"
    want = body_bytes(case["body"])
    has_body = case["body"][0] != "none"
    after_303 = False
    answered = [h for h in case["hist"] if h != "err_before"]      # connect failures consume an entry without a request
    for idx, (r, s) in enumerate(zip(received, sends)):
        method, fr, payload = r["method"], s[1], r["payload"]
        if fr == [3] or r["nframing"] > 1:
            return "request #%d carries both Content-Length and Transfer-Encoding (or one of them twice)" % idx
        if after_303:
            empty = fr == [0] and not payload          # neither framing header nor a single byte, chunked flag or not
            if method != "GET" or not empty:
                return "the request after a 303 is not a body-less GET"
            continue
        if fr == [0]:
            got = payload
        elif fr[0] == 1:
            got = payload if len(payload) == fr[1] else None
        else:
            got = dechunk(payload)
        if got is None:
            return "request #%d: the payload does not match its framing header (%s)" % (idx, "Content-Length" if fr[0] == 1 else "chunked")
        if has_body or case["chunked"]:
            if fr == [0]:
                return "request #%d has a body but no framing header" % idx
        else:
            if method.upper() in NO_BODY:
                if fr != [0]:
                    return "body-less %s request #%d is framed" % (method, idx)
            elif fr != [1, 0]:
                return "body-less %s request #%d does not carry Content-Length: 0" % (method, idx)
        if got != want:
            which = "first request" if idx == 0 else "request #%d (sent again)" % idx
            if idx > 0 and got == b"" and want:
                return "%s carries an empty body instead of the %d bytes of the first attempt" % (which, len(want))
            return "%s carries %d payload bytes that differ from the body's %d bytes" % (which, len(got), len(want))
        if idx < len(answered) and answered[idx] == "see_other":
            after_303 = True
    return None


def one_shot(b):
    b = norm_body(b)
    return (b[0] == "iter" and b[1]) or (b[0] == "file" and not b[1]["has_tell"])


def signature(case, obs, msg):
    m = msg or ""
    sig = {"msg": m[:40]}
    if "carries an empty body instead" in m and one_shot(case["body"]):
        sig["kind"] = "one-shot-body-resent-empty"
    return sig


def nontrivial(case, obs):
    if case["body"][0] == "none" and len(case["hist"]) <= 1:
        return None
    return hashlib.sha1(repr((case, obs)).encode()).hexdigest()[:16]


def histogram(cases, obss):
    h = {"via": {}, "body": {}, "method": {}, "chunked": {}, "history_len": {}, "outcomes": {}, "final": {}, "sends": {}}
    names = {0: "ok", 1: "UnrewindableBodyError", 2: "ValueError", 3: "UnicodeEncodeError", 9: "script-end", 7: "other urllib3 error", 8: "raw"}
    for c, o in zip(cases, obss):
        b = norm_body(c["body"])
        k = b[0]
        if k == "file":
            f = b[1]
            k = "file/%s%s%s%s" % ("text" if f["text"] else "bin", "" if f["has_tell"] else "/no-tell", "" if f["tell_ok"] else "/tell-fails", "" if f["seek_ok"] else "/seek-fails")
        elif k == "iter":
            k = "generator" if b[1] else "list"
        elif k == "buffer":
            k = "buffer/itemsize%d" % b[1]
        for key, v in (("via", c["via"]), ("body", k), ("method", c["method"]), ("chunked", str(c["chunked"])), ("history_len", len(c["hist"]))):
            h[key][v] = h[key].get(v, 0) + 1
        for x in c["hist"]:
            h["outcomes"][x] = h["outcomes"].get(x, 0) + 1
        if o:
            h["final"][names.get(o[1])] = h["final"].get(names.get(o[1]), 0) + 1
            h["sends"][len(o[0])] = h["sends"].get(len(o[0]), 0) + 1
    return h


# ---------------------------------------------------------------- generators
ALPHA = b"abcxyz01 \x00\xff\x80"
TEXT = "abé€z\U0001f600 q"


def rand_bytes(rng, n):
    return bytes(rng.choice(ALPHA) for _ in range(n))


def rand_text(rng, n):
    return "".join(rng.choice(TEXT) for _ in range(n))


def sizes(bs):
    return [0, 1, bs - 1, bs, bs + 1, 3 * bs + 2]


def rand_body(rng, bs):
    n = rng.choice(sizes(bs))
    k = rng.random()
    if k < 0.08:
        return ["none"]
    if k < 0.2:
        return ["bytes", rand_bytes(rng, n)]
    if k < 0.3:
        return ["str", rand_text(rng, n)]
    if k < 0.42:
        it = rng.choice([1, 1, 2, 4])
        return ["buffer", it, rand_bytes(rng, n - n % it)]
    if k < 0.72:
        text = rng.random() < 0.35
        r = rng.random()
        return ["file", {"text": text, "data": rand_text(rng, n) if text else rand_bytes(rng, n), "pos": rng.choice([0, 0, 1, bs, n]),
                         "has_tell": r > 0.15, "tell_ok": rng.random() > 0.15, "has_seek": r > 0.15 and rng.random() > 0.1, "seek_ok": rng.random() > 0.15,
                         "short": (rng.choice([1, 3, 7]) if (not text and rng.random() < 0.2) else 0)}]
    chunks = []
    for _ in range(rng.randint(0, 4)):
        c = rng.random()
        m = rng.choice([0, 0, 1, 2, bs + 1])
        if c < 0.6:
            chunks.append(["b", rand_bytes(rng, m)])
        elif c < 0.8:
            chunks.append(["s", rand_text(rng, m)])
        else:
            it = rng.choice([1, 2, 4])
            chunks.append(["buf", it, rand_bytes(rng, (m - m % it))])
    return ["iter", rng.random() < 0.5, chunks]


HISTS = [["ok"], ["err_before", "ok"], ["err_after", "ok"], ["status503", "ok"], ["redirect", "ok"], ["see_other", "ok"],
         ["redirect", "redirect", "ok"], ["err_after", "redirect", "ok"], ["status503", "err_before", "ok"], ["redirect", "see_other", "ok"],
         ["see_other", "redirect", "ok"], ["err_before", "redirect", "status503", "ok"], ["redirect", "err_after", "redirect", "ok"]]


def one_case(rng):
    bs = rng.choice([4, 8])
    return {"via": rng.choice(["pool", "manager"]), "method": rng.choice(["POST", "POST", "PUT", "PATCH", "GET", "DELETE", "post", "OPTIONS"]),
            "body": rand_body(rng, bs), "chunked": rng.random() < 0.3, "blocksize": bs, "hist": list(rng.choice(HISTS))}


def cases(rng, tier):
    out = []
    bs = 4
    # systematic: every body kind x size x history x via x chunked, POST
    kinds = []
    for n in sizes(bs):
        data = bytes((97 + i % 26) for i in range(n))
        text = "".join("aé€\U0001f600"[i % 4] for i in range(n))
        kinds += [["bytes", data], ["str", text], ["buffer", 1, data], ["buffer", 2, data[:n - n % 2]],
                  ["file", {"text": False, "data": data, "pos": 0, "has_tell": True, "tell_ok": True, "has_seek": True, "seek_ok": True}],
                  ["file", {"text": False, "data": data, "pos": 0, "has_tell": True, "tell_ok": True, "has_seek": True, "seek_ok": True, "short": 3}],
                  ["file", {"text": False, "data": data, "pos": min(1, n), "has_tell": True, "tell_ok": True, "has_seek": True, "seek_ok": True}],
                  ["file", {"text": True, "data": text, "pos": 0, "has_tell": True, "tell_ok": True, "has_seek": True, "seek_ok": True}],
                  ["file", {"text": False, "data": data, "pos": 0, "has_tell": True, "tell_ok": False, "has_seek": True, "seek_ok": True}],
                  ["file", {"text": False, "data": data, "pos": 0, "has_tell": True, "tell_ok": True, "has_seek": True, "seek_ok": False}],
                  ["file", {"text": False, "data": data, "pos": 0, "has_tell": False, "tell_ok": True, "has_seek": False, "seek_ok": True}],
                  ["iter", False, [["b", data[:1]], ["b", b""], ["b", data[1:]]]],
                  ["iter", True, [["b", data[:1]], ["b", b""], ["s", text[1:]]]]]
    kinds.append(["none"])
    for body in kinds:
        for hist in HISTS[:8]:
            for via in ("pool", "manager"):
                for chunked in (False, True):
                    out.append({"via": via, "method": "POST", "body": body, "chunked": chunked, "blocksize": bs, "hist": list(hist)})
    for m in ("GET", "HEAD", "DELETE", "OPTIONS", "TRACE", "POST", "PUT", "PATCH", "get", "Put"):
        for chunked in (False, True):
            for via in ("pool", "manager"):
                out.append({"via": via, "method": m, "body": ["none"], "chunked": chunked, "blocksize": bs, "hist": ["redirect", "ok"]})
                out.append({"via": via, "method": m, "body": ["bytes", b"xy"], "chunked": chunked, "blocksize": bs, "hist": ["ok"]})
    if tier == "quick":
        out = [c for i, c in enumerate(out) if i % 2 == 0 or len(c["hist"]) <= 2]
    for _ in range(7500 if tier == "quick" else 200000):
        out.append(one_case(rng))
    return out


def shrinks(case):
    h = case["hist"]
    for i in range(len(h) - 1):
        c = dict(case); c["hist"] = h[:i] + h[i + 1:]
        yield c
    if case["chunked"]:
        c = dict(case); c["chunked"] = False
        yield c
