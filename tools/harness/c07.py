"""C07 — an HTTPS request is sent only over a connection verified as configured.

case = {"cert_reqs": default|REQUIRED|OPTIONAL|NONE, "assert_hostname": unset|false|<name>, "fingerprint": unset|right|wrong|badlen,
        "server_hostname": None|<name>, "context": none|default|nocheck, "trust": file|dir|data|none (how the CA is configured),
        "issuer": trusted (the configured CA) | system (a CA of the system store) | untrusted, "san": [names],
        "host": requested host (resolved to the loopback server whatever it is)}
The system store is a file of the harness's own (SSL_CERT_FILE / SSL_CERT_DIR point at it) holding a third CA.
A real TLS server (Python's ssl, certificates made with trustme) listens on 127.0.0.1; a real HTTPSConnectionPool makes one
request.  Observation: did request bytes reach the server, how the call ended, was InsecureRequestWarning raised, what the
pooled connection says about is_verified."""
from __future__ import annotations

import hashlib
import os
import tempfile

from sexp import S, B, Opt

ID = "C07"
GEN = ["Gen_Verify"]
RULE = ("cert_reqs {default, REQUIRED, OPTIONAL, NONE} x assert_hostname {unset, False, matching name, other name} x assert_fingerprint {unset, right, wrong, "
        "bad length} x server_hostname {unset, matching, other} x ssl_context {none, default-like, check_hostname off} x issuer {trusted, untrusted} x "
        "SAN shape {exact, other, wildcard, IPv4, IPv6} x requested host {name, upper case, trailing dot, IPv4, IPv6 with and without zone}, real TLS "
        "handshakes on the loopback interface; non-trivial = every case; distinct = distinct (case, observation)")
TRUSTED_BASE = [
    "model coq/model/TlsVerify.v (resolve_cert_reqs, create_urllib3_context's verify_mode / check_hostname, _ssl_wrap_socket_and_match_hostname, HTTPSConnection.connect's is_verified, _validate_conn's warning)",
    "OpenSSL's chain validation and host-name check, and urllib3's match_hostname (C08), enter the model as three booleans computed by the harness from the certificate and the names (exact, one-label wildcard and IP comparison)",
    "stdlib ssl backend, direct connections; the tunnel path calls the same function (not exercised with real TLS-in-TLS)",
]
ASSUMPTIONS = ["no client certificates", "the system trust store is the one SSL_CERT_FILE / SSL_CERT_DIR name (OpenSSL's rule)",
               "a caller's ssl_context carries the configured CA when one is configured and no anchor otherwise"]
EXHAUSTIVE = {"quick": False, "thorough": False}
CASE_TIMEOUT = 60
IMPL_SERIAL = False

_PKI = {}


def pki():
    """CAs and server certificates, made once per process"""
    if _PKI:
        return _PKI
    import trustme
    d = tempfile.mkdtemp(prefix="c07pki")
    good, bad, system = trustme.CA(), trustme.CA(), trustme.CA()
    good.cert_pem.write_to_path(os.path.join(d, "ca.pem"))
    # the configured CA as a hashed directory (what c_rehash makes) and as data
    cadir = os.path.join(d, "cadir")
    os.mkdir(cadir)
    good.cert_pem.write_to_path(os.path.join(cadir, subject_hash(good.cert_pem.bytes()) + ".0"))
    # the "system store": OpenSSL's default verify paths follow these two variables
    sysfile = os.path.join(d, "system.pem")
    system.cert_pem.write_to_path(sysfile)
    sysdir = os.path.join(d, "systemdir")
    os.mkdir(sysdir)
    os.environ["SSL_CERT_FILE"] = sysfile
    os.environ["SSL_CERT_DIR"] = sysdir
    _PKI.update({"dir": d, "good": good, "bad": bad, "system": system, "ca_file": os.path.join(d, "ca.pem"), "ca_dir": cadir,
                 "ca_data": good.cert_pem.bytes().decode(), "certs": {}})
    return _PKI


def _tlv(tag, body):
    n = len(body)
    if n < 128:
        ln = bytes([n])
    else:
        b = n.to_bytes((n.bit_length() + 7) // 8, "big")
        ln = bytes([0x80 | len(b)]) + b
    return bytes([tag]) + ln + body


def _oid(dotted):
    parts = [int(x) for x in dotted.split(".")]
    out = bytes([parts[0] * 40 + parts[1]])
    for p in parts[2:]:
        chunk = [p & 0x7f]
        p >>= 7
        while p:
            chunk.append(0x80 | (p & 0x7f))
            p >>= 7
        out += bytes(reversed(chunk))
    return _tlv(6, out)


def subject_hash(pem):
    """OpenSSL's X509_NAME_hash of the subject (the file name a CA directory wants): SHA-1 of the canonical name"""
    import re
    from cryptography import x509
    cert = x509.load_pem_x509_certificate(pem)
    enc = b""
    for rdn in cert.subject.rdns:
        inner = b""
        for a in rdn:
            v = re.sub(r"\s+", " ", a.value.strip()).lower()
            inner += _tlv(0x30, _oid(a.oid.dotted_string) + _tlv(0x0c, v.encode()))
        enc += _tlv(0x31, inner)
    return "%08x" % int.from_bytes(hashlib.sha1(enc).digest()[:4], "little")


def server_cert(issuer, san):
    p = pki()
    key = (issuer, tuple(san))
    if key not in p["certs"]:
        ca = {"trusted": p["good"], "system": p["system"]}.get(issuer, p["bad"])
        p["certs"][key] = ca.issue_cert(*san)
    return p["certs"][key]


def san_matches(san, name):
    """independent reading: does a certificate with these SANs name `name`? (exact, one left-most wildcard label, IP literal)"""
    if name is None:
        return False
    n = name.strip("[]")
    if "%" in n:
        n = n[:n.rfind("%")]
    import ipaddress
    try:
        ip = ipaddress.ip_address(n)
    except ValueError:
        ip = None
    for s in san:
        if ip is not None:
            try:
                if ipaddress.ip_address(s) == ip:
                    return True
            except ValueError:
                pass
            continue
        try:
            ipaddress.ip_address(s)
            continue
        except ValueError:
            pass
        a, b = s.lower().rstrip("."), name.lower().rstrip(".")
        if a == b:
            return True
        if a.startswith("*.") and "." in b and b.split(".", 1)[1] == a[2:] and b.split(".", 1)[0]:
            return True
    return False


def effective_names(case):
    """(name OpenSSL checks when check_hostname is on, name urllib3's own match uses)"""
    sh = case["server_hostname"] if case["server_hostname"] is not None else case["host"].strip("[]") if False else (case["server_hostname"] or case["host"])
    return sh


CR = {"default": 0, "REQUIRED": 1, "OPTIONAL": 2, "NONE": 3}
FP = {"unset": 0, "right": 1, "wrong": 2, "badlen": 3}
CTX = {"none": 0, "default": 1, "nocheck": 2}
TRUST = {"file": 0, "dir": 1, "data": 2, "none": 3}
ISSUER = {"trusted": 0, "system": 1, "untrusted": 2}


def encode(case):
    sh = case["server_hostname"] if case["server_hostname"] is not None else case["host"]
    sh = sh.rstrip(".")
    ah = case["assert_hostname"]
    name_for_match = ah if ah not in ("unset", "false") else sh
    return [CR[case["cert_reqs"]], 0 if ah == "unset" else (1 if ah == "false" else 2), FP[case["fingerprint"]], CTX[case["context"]],
            TRUST[case["trust"]], ISSUER[case["issuer"]], B(san_matches(case["san"], sh)), B(san_matches(case["san"], name_for_match))]


def describe(case):
    return case


_STASH = {}


def impl(case):
    import socket
    import ssl
    import threading
    import types
    import warnings
    import urllib3
    import urllib3.util.connection as uc
    from urllib3.connectionpool import HTTPSConnectionPool

    p = pki()
    cert = server_cert(case["issuer"], case["san"])
    sctx = ssl.SSLContext(ssl.PROTOCOL_TLS_SERVER)
    cert.configure_cert(sctx)
    lsock = socket.socket()
    lsock.bind(("127.0.0.1", 0))
    lsock.listen(4)
    port = lsock.getsockname()[1]
    got = {"request": False, "handshakes": 0}

    stop = {"now": False}

    def serve():
        lsock.settimeout(0.05)
        try:
            while not stop["now"]:
                try:
                    c, _ = lsock.accept()
                except socket.timeout:
                    continue
                except OSError:
                    return
                try:
                    c.settimeout(3)
                    t = sctx.wrap_socket(c, server_side=True)
                    got["handshakes"] += 1
                    data = b""
                    while b"\r\n\r\n" not in data:
                        chunk = t.recv(4096)
                        if not chunk:
                            break
                        data += chunk
                    if data:
                        got["request"] = True
                        t.sendall(b"HTTP/1.1 200 OK\r\nContent-Length: 2\r\nConnection: close\r\n\r\nok")
                    t.close()
                except Exception:
                    try:
                        c.close()
                    except Exception:
                        pass
        finally:
            lsock.close()
    th = threading.Thread(target=serve, daemon=True)
    th.start()

    # every name resolves to the loopback server
    real_socket = uc.socket
    shim = types.ModuleType("shim_socket")
    for k in dir(socket):
        if not k.startswith("__"):
            setattr(shim, k, getattr(socket, k))
    shim.getaddrinfo = lambda host, prt, family=0, type=0, proto=0, flags=0: [(socket.AF_INET, socket.SOCK_STREAM, 6, "", ("127.0.0.1", port))]
    uc.socket = shim

    der = cert.cert_chain_pems[0].bytes()
    import hashlib as hl
    der_bytes = ssl.PEM_cert_to_DER_cert(der.decode())
    right = hl.sha256(der_bytes).hexdigest()
    fp = {"unset": None, "right": right, "wrong": "00" * 32, "badlen": "abcd"}[case["fingerprint"]]
    kw = {"retries": False, "timeout": 5}
    if case["trust"] == "file":
        kw["ca_certs"] = p["ca_file"]
    elif case["trust"] == "dir":
        kw["ca_cert_dir"] = p["ca_dir"]
    elif case["trust"] == "data":
        kw["ca_cert_data"] = p["ca_data"]

    def caller_context():
        c = ssl.SSLContext(ssl.PROTOCOL_TLS_CLIENT)        # check_hostname on, CERT_REQUIRED, no anchors
        if case["trust"] != "none":
            c.load_verify_locations(cafile=p["ca_file"])
        return c
    if case["cert_reqs"] != "default":
        kw["cert_reqs"] = "CERT_" + case["cert_reqs"]
    if case["assert_hostname"] == "false":
        kw["assert_hostname"] = False
    elif case["assert_hostname"] != "unset":
        kw["assert_hostname"] = case["assert_hostname"]
    if fp is not None:
        kw["assert_fingerprint"] = fp
    if case["server_hostname"] is not None:
        kw["server_hostname"] = case["server_hostname"]
    if case["context"] == "default":
        kw["ssl_context"] = caller_context()
    elif case["context"] == "nocheck":
        c2 = caller_context()
        c2.check_hostname = False
        kw["ssl_context"] = c2
    problems = []
    outcome = 0
    warned = False
    verified = None
    try:
        with warnings.catch_warnings(record=True) as w:
            warnings.simplefilter("always")
            pool = HTTPSConnectionPool(case["host"], port, **kw)
            conns = []
            orig_new = pool._new_conn

            seen = {}

            def new_conn():
                c = orig_new()
                conns.append(c)
                orig_connect = c.connect

                def connect():
                    orig_connect()
                    seen["verified"] = bool(c.is_verified)      # close() resets the flag, so note it right after the handshake
                c.connect = connect
                return c
            pool._new_conn = new_conn
            try:
                r = pool.urlopen("GET", "/secret", retries=False, redirect=False)
                outcome = 0
            except urllib3.exceptions.SSLError:
                outcome = 1
            except urllib3.exceptions.HTTPError as e:
                outcome = 2
                problems.append("the call failed with %s: %s" % (type(e).__name__, str(e)[:100]))
            except ValueError as e:
                outcome = 3
            except Exception as e:
                outcome = 4
                problems.append("a raw %s: %s" % (type(e).__name__, str(e)[:100]))
            warned = any(issubclass(x.category, urllib3.exceptions.InsecureRequestWarning) for x in w)
            if conns:
                verified = seen.get("verified", False)
            pool.close()
    finally:
        uc.socket = real_socket
        stop["now"] = True
        th.join(timeout=6)
    _STASH[id(case)] = problems
    return [B(got["request"]), outcome, B(warned), Opt(None if verified is None else int(verified))]


def oracle(case, obs):
    problems = _STASH.pop(id(case), [])
    if problems:
        return problems[0]
    sent, outcome, warned, verified = obs
    verified = bool(verified[0]) if verified else False
    sh = (case["server_hostname"] if case["server_hostname"] is not None else case["host"]).rstrip(".")
    ah = case["assert_hostname"]
    # the anchors the settings name: the configured CA, or - none configured, context left to urllib3 - the system store
    if case["trust"] != "none":
        chain_ok = case["issuer"] == "trusted"
    else:
        chain_ok = case["issuer"] == "system" and case["context"] == "none"
    validating = case["cert_reqs"] != "NONE"
    pinned = case["fingerprint"] != "unset"
    if sent:
        if pinned:
            if case["fingerprint"] != "right":
                return "the request was sent although the pinned fingerprint does not match"
        elif validating:
            if not chain_ok:
                return "the request was sent to a server whose certificate was issued by %s, with the CA given as %s" % (
                    {"system": "a CA of the system store only", "untrusted": "an unknown CA", "trusted": "the test CA"}[case["issuer"]], case["trust"])
            if ah != "false":
                name = ah if ah != "unset" else sh
                if not san_matches(case["san"], name):
                    return "the request was sent although the certificate does not name %r" % name
        if (not pinned and case["cert_reqs"] in ("NONE", "OPTIONAL")):
            if not warned:
                return "an HTTPS request without certificate validation (cert_reqs=%s) raised no InsecureRequestWarning" % case["cert_reqs"]
            if verified:
                return "a connection made with cert_reqs=%s is reported as verified" % case["cert_reqs"]
    else:
        if outcome == 0:
            return "the call ended normally but the server saw no request"
    if outcome not in (0, 1, 3):
        return "the call ended in an unexpected way (%d)" % outcome
    return None


def signature(case, obs, msg):
    return {"msg": (msg or "")[:60]}


def nontrivial(case, obs):
    return hashlib.sha1(repr((case, obs)).encode()).hexdigest()[:16]


def histogram(cases, obss):
    h = {"cert_reqs": {}, "fingerprint": {}, "context": {}, "issuer": {}, "trust": {}, "sent": {}, "outcome": {}}
    for c, o in zip(cases, obss):
        for k in ("cert_reqs", "fingerprint", "context", "issuer", "trust"):
            h[k][c[k]] = h[k].get(c[k], 0) + 1
        if o:
            h["sent"][str(bool(o[0]))] = h["sent"].get(str(bool(o[0])), 0) + 1
            h["outcome"][o[1]] = h["outcome"].get(o[1], 0) + 1
    return h


SANS = [["localhost"], ["other.example"], ["*.example.test"], ["127.0.0.1"], ["::1"], ["localhost", "127.0.0.1"]]
HOSTS = ["localhost", "LOCALHOST", "localhost.", "127.0.0.1", "[::1]", "[::1%25lo]", "www.example.test", "a.b.example.test"]


def one_case(rng):
    host = rng.choice(HOSTS)
    return {"cert_reqs": rng.choice(["default", "REQUIRED", "OPTIONAL", "NONE"]),
            "assert_hostname": rng.choice(["unset", "unset", "false", "localhost", "other.example", "www.example.test"]),
            "fingerprint": rng.choice(["unset", "unset", "unset", "right", "wrong", "badlen"]),
            "server_hostname": rng.choice([None, None, "localhost", "other.example"]),
            "context": rng.choice(["none", "none", "default", "nocheck"]),
            "trust": rng.choice(["file", "file", "dir", "data", "none"]),
            "issuer": rng.choice(["trusted", "trusted", "untrusted", "system"]), "san": rng.choice(SANS), "host": host}


def cases(rng, tier):
    out = []
    for cr in ("default", "REQUIRED", "OPTIONAL", "NONE"):
        for ah in ("unset", "false", "localhost", "other.example"):
            for fp in ("unset", "right", "wrong", "badlen"):
                for ctx in ("none", "default", "nocheck"):
                    for issuer in ("trusted", "untrusted"):
                        for san in (["localhost"], ["other.example"]):
                            out.append({"cert_reqs": cr, "assert_hostname": ah, "fingerprint": fp, "server_hostname": None, "context": ctx, "issuer": issuer,
                                        "trust": "file", "san": san, "host": "localhost"})
    if tier == "quick":
        out = [c for i, c in enumerate(out) if i % 2 == 0]
    for trust in ("file", "dir", "data", "none"):
        for issuer in ("trusted", "system", "untrusted"):
            for ctx in ("none", "default", "nocheck"):
                for cr in ("default", "REQUIRED", "OPTIONAL", "NONE"):
                    for ah in ("unset", "false"):
                        out.append({"cert_reqs": cr, "assert_hostname": ah, "fingerprint": "unset", "server_hostname": None, "context": ctx,
                                    "issuer": issuer, "trust": trust, "san": ["localhost"], "host": "localhost"})
    for _ in range(500 if tier == "quick" else 6000):
        out.append(one_case(rng))
    return out


def shrinks(case):
    return []
