"""C07 — an HTTPS request is sent only over a connection verified as configured.

case = {"cert_reqs": default|REQUIRED|OPTIONAL|NONE, "assert_hostname": unset|false|<name>, "fingerprint": unset|right|wrong|badlen,
        "server_hostname": None|<name>, "context": none|default|nocheck, "trust": file|dir|data|none (how the CA is configured),
        "issuer": trusted (the configured CA) | system (a CA of the system store) | untrusted, "san": [names],
        "host": requested host (resolved to the loopback server whatever it is),
        "backend": ssl|pyopenssl (contrib.pyopenssl injected for the case), "route": direct|http_tunnel|https_tunnel,
        "proxy": {"issuer", "san", "assert_hostname", "fingerprint", "context"} for https_tunnel}
A tunnel goes through a proxy thread (plain or TLS) that answers CONNECT and relays to the TLS server.
The system store is a file of the harness's own (SSL_CERT_FILE / SSL_CERT_DIR point at it) holding a third CA.
A real TLS server (Python's ssl, certificates made with trustme) listens on 127.0.0.1; a real HTTPSConnectionPool makes one
request.  Observation: did request bytes reach the server, how the call ended, was InsecureRequestWarning raised, what the
pooled connection says about is_verified."""
from __future__ import annotations

import hashlib
import os
import tempfile

from sexp import S, B, Opt

ID = "C07"
GEN = ["Gen_Verify"]
RULE = ("cert_reqs {default, REQUIRED, OPTIONAL, NONE} x assert_hostname {unset, False, matching name, other name} x assert_fingerprint {unset, right, wrong, "
        "bad length} x server_hostname {unset, matching, other} x ssl_context {none, default-like, check_hostname off} x issuer {trusted, untrusted} x "
        "SAN shape {exact, other, wildcard, IPv4, IPv6} x requested host {name, upper case, trailing dot, IPv4, IPv6 with and without zone} x backend "
        "{ssl, pyOpenSSL injected} x route {direct, CONNECT through an http proxy, CONNECT through an https proxy with its own issuer / SAN / "
        "proxy_assert_hostname / proxy_assert_fingerprint / proxy_ssl_context}, real TLS handshakes (TLS in TLS for the https proxy) on the loopback interface; non-trivial = every case; distinct = distinct (case, observation)")
TRUSTED_BASE = [
    "model coq/model/TlsVerify.v (resolve_cert_reqs, create_urllib3_context's verify_mode / check_hostname, _ssl_wrap_socket_and_match_hostname, HTTPSConnection.connect's is_verified, _validate_conn's warning)",
    "OpenSSL's chain validation and host-name check, and urllib3's match_hostname (C08), enter the model as three booleans computed by the harness from the certificate and the names (exact, one-label wildcard and IP comparison)",
    "the proxy of the tunnel cases is the harness's own thread: it answers any CONNECT with 200 and relays to the TLS server",
]
ASSUMPTIONS = ["no client certificates", "the system trust store is the one SSL_CERT_FILE / SSL_CERT_DIR name (OpenSSL's rule)",
               "a caller's ssl_context carries the configured CA when one is configured and no anchor otherwise"]
EXHAUSTIVE = {"quick": False, "thorough": False}
CASE_TIMEOUT = 120
IMPL_SERIAL = False

_PKI = {}


def pki():
    """CAs and server certificates, made once per process"""
    if _PKI:
        return _PKI
    import trustme
    d = tempfile.mkdtemp(prefix="c07pki")
    good, bad, system = trustme.CA(), trustme.CA(), trustme.CA()
    good.cert_pem.write_to_path(os.path.join(d, "ca.pem"))
    # the configured CA as a hashed directory (what c_rehash makes) and as data
    cadir = os.path.join(d, "cadir")
    os.mkdir(cadir)
    good.cert_pem.write_to_path(os.path.join(cadir, subject_hash(good.cert_pem.bytes()) + ".0"))
    # the "system store": OpenSSL's default verify paths follow these two variables
    sysfile = os.path.join(d, "system.pem")
    system.cert_pem.write_to_path(sysfile)
    sysdir = os.path.join(d, "systemdir")
    os.mkdir(sysdir)
    os.environ["SSL_CERT_FILE"] = sysfile
    os.environ["SSL_CERT_DIR"] = sysdir
    _PKI.update({"dir": d, "good": good, "bad": bad, "system": system, "ca_file": os.path.join(d, "ca.pem"), "ca_dir": cadir,
                 "ca_data": good.cert_pem.bytes().decode(), "certs": {}})
    return _PKI


def _tlv(tag, body):
    n = len(body)
    if n < 128:
        ln = bytes([n])
    else:
        b = n.to_bytes((n.bit_length() + 7) // 8, "big")
        ln = bytes([0x80 | len(b)]) + b
    return bytes([tag]) + ln + body


def _oid(dotted):
    parts = [int(x) for x in dotted.split(".")]
    out = bytes([parts[0] * 40 + parts[1]])
    for p in parts[2:]:
        chunk = [p & 0x7f]
        p >>= 7
        while p:
            chunk.append(0x80 | (p & 0x7f))
            p >>= 7
        out += bytes(reversed(chunk))
    return _tlv(6, out)


def subject_hash(pem):
    """OpenSSL's X509_NAME_hash of the subject (the file name a CA directory wants): SHA-1 of the canonical name"""
    import re
    from cryptography import x509
    cert = x509.load_pem_x509_certificate(pem)
    enc = b""
    for rdn in cert.subject.rdns:
        inner = b""
        for a in rdn:
            v = re.sub(r"\s+", " ", a.value.strip()).lower()
            inner += _tlv(0x30, _oid(a.oid.dotted_string) + _tlv(0x0c, v.encode()))
        enc += _tlv(0x31, inner)
    return "%08x" % int.from_bytes(hashlib.sha1(enc).digest()[:4], "little")


class _Leaf:
    """a server certificate made by hand (trustme turns every IP-looking name into an iPAddress entry): same interface as trustme's"""

    def __init__(self, key_pem, cert_pem):
        import trustme
        self.private_key_and_cert_chain_pem = trustme.Blob(key_pem + cert_pem)
        self.cert_chain_pems = [trustme.Blob(cert_pem)]

    def configure_cert(self, ctx):
        with self.private_key_and_cert_chain_pem.tempfile() as path:
            ctx.load_cert_chain(path)


def _issue_typed(ca, san):
    """san entries "dns:<text>" become dNSName entries whatever the text looks like"""
    import datetime
    import ipaddress
    from cryptography import x509
    from cryptography.hazmat.primitives import hashes, serialization
    from cryptography.hazmat.primitives.asymmetric import ec
    from cryptography.x509.oid import NameOID
    cakey = serialization.load_pem_private_key(ca.private_key_pem.bytes(), None)
    cacert = x509.load_pem_x509_certificate(ca.cert_pem.bytes())
    key = ec.generate_private_key(ec.SECP256R1())
    names = []
    for s in san:
        if s.startswith("dns:"):
            names.append(x509.DNSName(s[4:]))
        else:
            try:
                names.append(x509.IPAddress(ipaddress.ip_address(s)))
            except ValueError:
                names.append(x509.DNSName(s))
    now = datetime.datetime.now(datetime.timezone.utc)
    cert = (x509.CertificateBuilder().subject_name(x509.Name([x509.NameAttribute(NameOID.ORGANIZATION_NAME, "c07 leaf")]))
            .issuer_name(cacert.subject).public_key(key.public_key()).serial_number(x509.random_serial_number())
            .not_valid_before(now - datetime.timedelta(days=1)).not_valid_after(now + datetime.timedelta(days=30))
            .add_extension(x509.SubjectAlternativeName(names), critical=False)
            .add_extension(x509.BasicConstraints(ca=False, path_length=None), critical=True)
            .sign(cakey, hashes.SHA256()))
    key_pem = key.private_bytes(serialization.Encoding.PEM, serialization.PrivateFormat.TraditionalOpenSSL, serialization.NoEncryption())
    return _Leaf(key_pem, cert.public_bytes(serialization.Encoding.PEM))


def server_cert(issuer, san):
    p = pki()
    key = (issuer, tuple(san))
    if key not in p["certs"]:
        ca = {"trusted": p["good"], "system": p["system"]}.get(issuer, p["bad"])
        p["certs"][key] = _issue_typed(ca, san) if any(s.startswith("dns:") for s in san) else ca.issue_cert(*san)
    return p["certs"][key]


def san_matches(san, name):
    """independent reading: does a certificate with these SANs name `name`? (exact, one left-most wildcard label, IP literal)"""
    if name is None:
        return False
    n = name.strip("[]")
    if "%" in n:
        n = n[:n.rfind("%")]
    import ipaddress
    try:
        ip = ipaddress.ip_address(n)
    except ValueError:
        ip = None
    for s in san:
        typed_dns = s.startswith("dns:")          # a dNSName entry, whatever its text looks like: it never names an IP address
        if typed_dns:
            s = s[4:]
        if ip is not None:
            try:
                if not typed_dns and ipaddress.ip_address(s) == ip:
                    return True
            except ValueError:
                pass
            continue
        try:
            ipaddress.ip_address(s)
            if not typed_dns:
                continue
        except ValueError:
            pass
        a, b = s.lower().rstrip("."), name.lower().rstrip(".")
        if a == b:
            return True
        if a.startswith("*.") and "." in b and b.split(".", 1)[1] == a[2:] and b.split(".", 1)[0]:
            return True
    return False


def effective_names(case):
    """(name OpenSSL checks when check_hostname is on, name urllib3's own match uses)"""
    sh = case["server_hostname"] if case["server_hostname"] is not None else case["host"].strip("[]") if False else (case["server_hostname"] or case["host"])
    return sh


CR = {"default": 0, "REQUIRED": 1, "OPTIONAL": 2, "NONE": 3}
FP = {"unset": 0, "right": 1, "wrong": 2, "badlen": 3}
CTX = {"none": 0, "default": 1, "nocheck": 2, "pyopenssl": 3}
TRUST = {"file": 0, "dir": 1, "data": 2, "none": 3}
ISSUER = {"trusted": 0, "system": 1, "untrusted": 2}
BACKEND = {"ssl": 0, "pyopenssl": 1}
ROUTE = {"direct": 0, "http_tunnel": 1, "https_tunnel": 2}
PROXY_HOST = "localhost"


def _ah(v):
    return 0 if v == "unset" else (1 if v == "false" else 2)


def encode(case):
    sh = case["server_hostname"] if case["server_hostname"] is not None else case["host"]
    sh = sh.rstrip(".")
    ah = case["assert_hostname"]
    name_for_match = ah if ah not in ("unset", "false") else sh
    out = [CR[case["cert_reqs"]], _ah(ah), FP[case["fingerprint"]], CTX[case["context"]],
           TRUST[case["trust"]], ISSUER[case["issuer"]], B(san_matches(case["san"], sh)), B(san_matches(case["san"], name_for_match)),
           BACKEND[case["backend"]], ROUTE[case["route"]]]
    if case["route"] == "https_tunnel":
        x = case["proxy"]
        xa = x["assert_hostname"]
        xname = xa if xa not in ("unset", "false") else PROXY_HOST
        out.append([_ah(xa), FP[x["fingerprint"]], CTX[x["context"]], ISSUER[x["issuer"]], B(san_matches(x["san"], PROXY_HOST)),
                    B(san_matches(x["san"], xname))])
    else:
        out.append([])
    return out


def describe(case):
    return case


_STASH = {}


def _fingerprint_of(cert, which):
    import hashlib as hl
    import ssl
    der_bytes = ssl.PEM_cert_to_DER_cert(cert.cert_chain_pems[0].bytes().decode())
    return {"unset": None, "right": hl.sha256(der_bytes).hexdigest(), "wrong": "00" * 32, "badlen": "abcd"}[which]


def impl(case):
    import socket
    import ssl
    import threading
    import types
    import warnings
    import urllib3
    import urllib3.util.connection as uc
    from urllib3.connectionpool import HTTPSConnectionPool

    p = pki()
    cert = server_cert(case["issuer"], case["san"])
    sctx = ssl.SSLContext(ssl.PROTOCOL_TLS_SERVER)
    cert.configure_cert(sctx)
    lsock = socket.socket()
    lsock.bind(("127.0.0.1", 0))
    lsock.listen(4)
    port = lsock.getsockname()[1]
    got = {"request": False, "handshakes": 0, "connect": False, "proxy_handshakes": 0}
    stop = {"now": False}

    def serve():
        lsock.settimeout(0.05)
        try:
            while not stop["now"]:
                try:
                    c, _ = lsock.accept()
                except socket.timeout:
                    continue
                except OSError:
                    return
                try:
                    c.settimeout(20)
                    t = sctx.wrap_socket(c, server_side=True)
                    got["handshakes"] += 1
                    data = b""
                    while b"\r\n\r\n" not in data:
                        chunk = t.recv(4096)
                        if not chunk:
                            break
                        data += chunk
                    if data:
                        got["request"] = True
                        t.sendall(b"HTTP/1.1 200 OK\r\nContent-Length: 2\r\nConnection: close\r\n\r\nok")
                    t.close()
                except Exception:
                    try:
                        c.close()
                    except Exception:
                        pass
        finally:
            lsock.close()
    threads = [threading.Thread(target=serve, daemon=True)]

    # the proxy of the tunnel cases: (TLS,) CONNECT, 200, then bytes both ways
    route = case["route"]
    psock = None
    pport = None
    pcert = None
    if route != "direct":
        psock = socket.socket()
        psock.bind(("127.0.0.1", 0))
        psock.listen(4)
        pport = psock.getsockname()[1]
        pctx = None
        if route == "https_tunnel":
            pcert = server_cert(case["proxy"]["issuer"], case["proxy"]["san"])
            pctx = ssl.SSLContext(ssl.PROTOCOL_TLS_SERVER)
            pcert.configure_cert(pctx)

        def relay(c, up):
            """bytes both ways until either side is done (one thread: an SSLSocket is not to be read and written concurrently)"""
            import select
            idle = 0.0
            while not stop["now"] and idle < 20:
                ready = [c] if (hasattr(c, "pending") and c.pending()) else select.select([c, up], [], [], 0.05)[0]
                if not ready:
                    idle += 0.05
                    continue
                idle = 0.0
                for src, dst in ((c, up), (up, c)):
                    if src in ready:
                        d = src.recv(65536)
                        if not d:
                            return
                        dst.sendall(d)

        def proxy():
            psock.settimeout(0.05)
            try:
                while not stop["now"]:
                    try:
                        c, _ = psock.accept()
                    except socket.timeout:
                        continue
                    except OSError:
                        return
                    up = None
                    try:
                        c.settimeout(20)
                        if pctx is not None:
                            c = pctx.wrap_socket(c, server_side=True)
                            got["proxy_handshakes"] += 1
                        data = b""
                        while b"\r\n\r\n" not in data:
                            chunk = c.recv(4096)
                            if not chunk:
                                break
                            data += chunk
                        if data.startswith(b"CONNECT "):
                            got["connect"] = True
                            up = socket.create_connection(("127.0.0.1", port), timeout=20)
                            c.sendall(b"HTTP/1.1 200 Connection established\r\n\r\n")
                            relay(c, up)
                        elif data:
                            got["request"] = True          # a request in the clear to the proxy: never expected
                    except Exception:
                        pass
                    finally:
                        for x in (c, up):
                            try:
                                if x is not None:
                                    x.close()
                            except Exception:
                                pass
            finally:
                psock.close()
        threads.append(threading.Thread(target=proxy, daemon=True))
    for th in threads:
        th.start()

    # every name resolves to the loopback interface
    real_socket = uc.socket
    shim = types.ModuleType("shim_socket")
    for k in dir(socket):
        if not k.startswith("__"):
            setattr(shim, k, getattr(socket, k))
    shim.getaddrinfo = lambda host, prt, family=0, type=0, proto=0, flags=0: [(socket.AF_INET, socket.SOCK_STREAM, 6, "", ("127.0.0.1", prt))]
    uc.socket = shim

    injected = False
    if case["backend"] == "pyopenssl":
        import urllib3.contrib.pyopenssl as pyo
        pyo.inject_into_urllib3()
        injected = True

    def caller_context(kind):
        if kind == "pyopenssl":
            import urllib3.contrib.pyopenssl as pyo
            c = pyo.PyOpenSSLContext(ssl.PROTOCOL_TLS_CLIENT)
            c.verify_mode = ssl.CERT_REQUIRED
            if case["trust"] != "none":
                c.load_verify_locations(cafile=p["ca_file"])
            return c
        c = ssl.SSLContext(ssl.PROTOCOL_TLS_CLIENT)        # check_hostname on, CERT_REQUIRED, no anchors
        if case["trust"] != "none":
            c.load_verify_locations(cafile=p["ca_file"])
        if kind == "nocheck":
            c.check_hostname = False
        return c

    fp = _fingerprint_of(cert, case["fingerprint"])
    kw = {"retries": False, "timeout": 30}
    if case["trust"] == "file":
        kw["ca_certs"] = p["ca_file"]
    elif case["trust"] == "dir":
        kw["ca_cert_dir"] = p["ca_dir"]
    elif case["trust"] == "data":
        kw["ca_cert_data"] = p["ca_data"]
    if case["cert_reqs"] != "default":
        kw["cert_reqs"] = "CERT_" + case["cert_reqs"]
    if case["assert_hostname"] == "false":
        kw["assert_hostname"] = False
    elif case["assert_hostname"] != "unset":
        kw["assert_hostname"] = case["assert_hostname"]
    if fp is not None:
        kw["assert_fingerprint"] = fp
    if case["server_hostname"] is not None:
        kw["server_hostname"] = case["server_hostname"]
    problems = []
    outcome = 0
    warned = False
    verified = None
    pm = None
    try:
        with warnings.catch_warnings(record=True) as w:
            warnings.simplefilter("always")
            if case["context"] != "none":
                kw["ssl_context"] = caller_context(case["context"])
            if route == "direct":
                pool = HTTPSConnectionPool(case["host"], port, **kw)
            else:
                pkw = {}
                if route == "https_tunnel":
                    x = case["proxy"]
                    if x["assert_hostname"] == "false":
                        pkw["proxy_assert_hostname"] = False
                    elif x["assert_hostname"] != "unset":
                        pkw["proxy_assert_hostname"] = x["assert_hostname"]
                    xfp = _fingerprint_of(pcert, x["fingerprint"])
                    if xfp is not None:
                        pkw["proxy_assert_fingerprint"] = xfp
                    if x["context"] != "none":
                        pkw["proxy_ssl_context"] = caller_context(x["context"])
                scheme = "https" if route == "https_tunnel" else "http"
                pm = urllib3.ProxyManager("%s://%s:%d" % (scheme, PROXY_HOST, pport), **pkw, **kw)
                pool = pm.connection_from_host(case["host"], port, scheme="https")
            conns = []
            orig_new = pool._new_conn
            seen = {}

            def new_conn():
                c = orig_new()
                conns.append(c)
                orig_connect = c.connect

                def connect():
                    orig_connect()
                    seen["verified"] = bool(c.is_verified)      # close() resets the flag, so note it right after the handshake
                c.connect = connect
                return c
            pool._new_conn = new_conn
            try:
                r = pool.urlopen("GET", "/secret", retries=False, redirect=False)
                outcome = 0
            except urllib3.exceptions.SSLError:
                outcome = 1
            except urllib3.exceptions.ProxyError as e:
                outcome = 5 if isinstance(e.original_error, (urllib3.exceptions.SSLError, ssl.SSLError)) else 2
                if outcome == 2:
                    problems.append("the call failed with ProxyError: %s" % str(e)[:100])
            except urllib3.exceptions.HTTPError as e:
                outcome = 2
                problems.append("the call failed with %s: %s" % (type(e).__name__, str(e)[:100]))
            except ValueError as e:
                outcome = 3
            except Exception as e:
                outcome = 4
                problems.append("a raw %s: %s" % (type(e).__name__, str(e)[:100]))
            warned = any(issubclass(x.category, urllib3.exceptions.InsecureRequestWarning) for x in w)
            if conns:
                verified = seen.get("verified", False)
            pool.close()
            if pm is not None:
                pm.clear()
    except Exception as e:
        outcome = 4
        problems.append("setting the case up failed: %s: %s" % (type(e).__name__, str(e)[:100]))
    finally:
        if injected:
            import urllib3.contrib.pyopenssl as pyo
            pyo.extract_from_urllib3()
        uc.socket = real_socket
        stop["now"] = True
        for th in threads:
            th.join(timeout=25)
    _STASH[id(case)] = problems
    return [B(got["request"]), outcome, B(warned), Opt(None if verified is None else int(verified)), B(got["connect"])]


def _anchor_ok(case, issuer, context):
    """the anchors the settings name: the configured CA, or - none configured, context left to urllib3 - the system store"""
    if case["trust"] != "none":
        return issuer == "trusted"
    return issuer == "system" and context == "none"


def _demanded(case, cert_reqs, fingerprint, ah, issuer, san, context, name, what):
    """None when a peer with this certificate passes what the settings demand, else why not"""
    if fingerprint != "unset":
        return None if fingerprint == "right" else "the pinned fingerprint of %s does not match" % what
    if cert_reqs == "NONE":
        return None
    if not _anchor_ok(case, issuer, context):
        return "the certificate of %s was issued by %s, with the CA given as %s" % (
            what, {"system": "a CA of the system store only", "untrusted": "an unknown CA", "trusted": "the test CA"}[issuer], case["trust"])
    if ah != "false":
        n = ah if ah != "unset" else name
        if not san_matches(san, n):
            return "the certificate of %s does not name %r" % (what, n)
    return None


def oracle(case, obs):
    problems = _STASH.pop(id(case), [])
    if problems:
        return problems[0]
    sent, outcome, warned, verified, connect_seen = obs
    verified = bool(verified[0]) if verified else False
    sh = (case["server_hostname"] if case["server_hostname"] is not None else case["host"]).rstrip(".")
    pinned = case["fingerprint"] != "unset"
    if case["route"] == "direct" and connect_seen:
        return "a CONNECT on a direct connection"
    if case["route"] == "https_tunnel" and (connect_seen or sent):
        x = case["proxy"]
        why = _demanded(case, case["cert_reqs"], x["fingerprint"], x["assert_hostname"], x["issuer"], x["san"], x["context"], PROXY_HOST, "the proxy")
        if why:
            return "the tunnel was asked for although " + why
    if sent:
        if case["route"] != "direct" and not connect_seen:
            return "the request arrived without a CONNECT"
        why = _demanded(case, case["cert_reqs"], case["fingerprint"], case["assert_hostname"], case["issuer"], case["san"], case["context"], sh, "the server")
        if why:
            return "the request was sent although " + why
        if (not pinned and case["cert_reqs"] in ("NONE", "OPTIONAL")):
            if not warned:
                return "an HTTPS request without certificate validation (cert_reqs=%s, %s) raised no InsecureRequestWarning" % (case["cert_reqs"], case["route"])
            if verified:
                return "a connection made with cert_reqs=%s is reported as verified" % case["cert_reqs"]
    else:
        if outcome == 0:
            return "the call ended normally but the server saw no request"
    if outcome not in (0, 1, 3, 5):
        return "the call ended in an unexpected way (%d)" % outcome
    return None


def signature(case, obs, msg):
    m = msg or ""
    if "raised no InsecureRequestWarning" in m and case["route"] == "https_tunnel" and case["proxy"]["fingerprint"] == "right":
        return {"kind": "no-warning-when-proxy-pinned"}
    return {"msg": m[:60]}


def nontrivial(case, obs):
    return hashlib.sha1(repr((case, obs)).encode()).hexdigest()[:16]


def histogram(cases, obss):
    h = {"cert_reqs": {}, "fingerprint": {}, "context": {}, "issuer": {}, "trust": {}, "backend": {}, "route": {}, "sent": {}, "outcome": {}}
    for c, o in zip(cases, obss):
        for k in ("cert_reqs", "fingerprint", "context", "issuer", "trust", "backend", "route"):
            h[k][c[k]] = h[k].get(c[k], 0) + 1
        if o:
            h["sent"][str(bool(o[0]))] = h["sent"].get(str(bool(o[0])), 0) + 1
            h["outcome"][o[1]] = h["outcome"].get(o[1], 0) + 1
    return h


SANS = [["localhost"], ["other.example"], ["*.example.test"], ["127.0.0.1"], ["::1"], ["localhost", "127.0.0.1"], ["dns:127.0.0.1"], ["dns:127.0.0.1", "other.example"], ["::7f00:1"], ["0.0.0.1"]]
HOSTS = ["localhost", "LOCALHOST", "localhost.", "127.0.0.1", "[::1]", "[::1%25lo]", "www.example.test", "a.b.example.test"]


def one_proxy(rng):
    return {"issuer": rng.choice(["trusted", "trusted", "trusted", "untrusted", "system"]), "san": rng.choice([["localhost"], ["localhost"], ["other.example"]]),
            "assert_hostname": rng.choice(["unset", "unset", "false", "localhost", "other.example"]),
            "fingerprint": rng.choice(["unset", "unset", "unset", "right", "wrong"]),
            "context": rng.choice(["none", "none", "default", "nocheck", "pyopenssl"])}


def one_case(rng):
    host = rng.choice(HOSTS)
    route = rng.choice(["direct", "direct", "http_tunnel", "https_tunnel", "https_tunnel"])
    c = {"cert_reqs": rng.choice(["default", "REQUIRED", "OPTIONAL", "NONE"]),
         "assert_hostname": rng.choice(["unset", "unset", "false", "localhost", "other.example", "www.example.test"]),
         "fingerprint": rng.choice(["unset", "unset", "unset", "right", "wrong", "badlen"]),
         "server_hostname": rng.choice([None, None, "localhost", "other.example"]),
         "context": rng.choice(["none", "none", "default", "nocheck", "pyopenssl"]),
         "trust": rng.choice(["file", "file", "dir", "data", "none"]),
         "issuer": rng.choice(["trusted", "trusted", "untrusted", "system"]), "san": rng.choice(SANS), "host": host,
         "backend": rng.choice(["ssl", "ssl", "pyopenssl"]), "route": route}
    if route == "https_tunnel":
        c["proxy"] = one_proxy(rng)
    return c


GOOD_PROXY = {"issuer": "trusted", "san": ["localhost"], "assert_hostname": "unset", "fingerprint": "unset", "context": "none"}


def cases(rng, tier):
    out = []
    base = {"server_hostname": None, "host": "localhost", "backend": "ssl", "route": "direct", "trust": "file"}
    for cr in ("default", "REQUIRED", "OPTIONAL", "NONE"):
        for ah in ("unset", "false", "localhost", "other.example"):
            for fp in ("unset", "right", "wrong", "badlen"):
                for ctx in ("none", "default", "nocheck"):
                    for issuer in ("trusted", "untrusted"):
                        for san in (["localhost"], ["other.example"]):
                            out.append(dict(base, cert_reqs=cr, assert_hostname=ah, fingerprint=fp, context=ctx, issuer=issuer, san=san))
    if tier == "quick":
        out = [c for i, c in enumerate(out) if i % 4 == 0]
    for trust in ("file", "dir", "data", "none"):
        for issuer in ("trusted", "system", "untrusted"):
            for ctx in ("none", "default", "nocheck"):
                for cr in ("default", "REQUIRED", "OPTIONAL", "NONE"):
                    for ah in ("unset", "false"):
                        out.append(dict(base, cert_reqs=cr, assert_hostname=ah, fingerprint="unset", context=ctx, issuer=issuer, trust=trust, san=["localhost"]))
    # a dNSName entry that spells the IP address asked for names nothing: every way of making urllib3 or the TLS library check the name
    for backend in ("ssl", "pyopenssl"):
        for cr in ("default", "OPTIONAL"):
            for ah in ("unset", "127.0.0.1"):
                for ctx in ("none", "nocheck"):
                    for san in (["dns:127.0.0.1"], ["127.0.0.1"], ["::7f00:1"], ["::127.0.0.1", "other.example"], ["::ffff:127.0.0.1"]):
                        # (an iPAddress entry of the other family with the same numeric value names another address)
                        out.append(dict(base, host="127.0.0.1", backend=backend, cert_reqs=cr, assert_hostname=ah, fingerprint="unset", context=ctx, issuer="trusted", san=san))
                    if ah == "unset":
                        for host6 in ("[::1]", "[::1%25lo]"):
                            for san in (["0.0.0.1"], ["::1"]):
                                out.append(dict(base, host=host6, backend=backend, cert_reqs=cr, assert_hostname=ah, fingerprint="unset", context=ctx, issuer="trusted", san=san))
    # the other backend and the tunnels, over the decisions that differ there
    for backend in ("ssl", "pyopenssl"):
        for route in ("direct", "http_tunnel", "https_tunnel"):
            if backend == "ssl" and route == "direct":
                continue
            for cr in ("default", "OPTIONAL", "NONE"):
                for ctx in ("none", "default", "nocheck", "pyopenssl"):
                    for fp in ("unset", "right", "wrong"):
                        for issuer, san in (("trusted", ["localhost"]), ("trusted", ["other.example"]), ("untrusted", ["localhost"])):
                            c = dict(base, backend=backend, route=route, cert_reqs=cr, assert_hostname="unset", fingerprint=fp, context=ctx, issuer=issuer, san=san)
                            if route == "https_tunnel":
                                c["proxy"] = dict(GOOD_PROXY)
                            out.append(c)
    # the proxy's own checks
    for cr in ("default", "NONE"):
        for xi, xsan in (("trusted", ["localhost"]), ("trusted", ["other.example"]), ("untrusted", ["localhost"]), ("system", ["localhost"])):
            for xah in ("unset", "false", "other.example"):
                for xfp in ("unset", "right", "wrong"):
                    for xctx in ("none", "default", "nocheck", "pyopenssl"):
                        out.append(dict(base, route="https_tunnel", cert_reqs=cr, assert_hostname="unset", fingerprint="unset", context="none", issuer="trusted",
                                        san=["localhost"], proxy={"issuer": xi, "san": xsan, "assert_hostname": xah, "fingerprint": xfp, "context": xctx}))
    for _ in range(1200 if tier == "quick" else 20000):
        out.append(one_case(rng))
    return out


def shrinks(case):
    return []
