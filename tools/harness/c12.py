"""C12 — every way of reading a response yields the same bytes.

case = {"payload": bytes, "coding": name, "framing": len|chunked|eof, "chunks": [sizes], "ext": False|True|2|3|4 (chunk extensions: none, one, two, spaced with a quoted ';', empty), "segs": [sizes],
        "decode": bool, "calls": [[api, arg], ...], "finish": [api, arg]}
coding = identity | gzip | gzip2 (two members) | deflate | rawdeflate | zstd | zstd2 (two frames) | "gzip, deflate" ... (stacked)
calls  = read None|n, read1 None|n, readinto k, spiece amt (one piece from stream(amt), generator kept), sdrop amt (same, generator dropped)          finish = none | read | stream amt | read_chunked amt | iter | data (preload)
The response is served by the in-memory network in the given segmentation and read through a real pool, connection,
http.client and HTTPResponse.  Observation: the piece each call returned, the pieces of the finisher, and how it ended."""
from __future__ import annotations

import gzip
import hashlib
import zlib

from sexp import S, B, Opt

ID = "C12"
GEN = ["Gen_Read"]
RULE = ("payloads of 0..300 bytes (compressible and not), identity / gzip / two-member gzip / zlib / raw deflate / zstd / two-frame zstd / two stacked "
        "codings, Content-Length / chunked (chunk-size vectors, extensions) / close-delimited framing, wire segmentations from 1 byte to whole, "
        "decode_content on and off, call sequences over read(), read(n), read1(), read1(n), readinto(k), read(0) with n in {1,2,3,7,64,1000}, ended "
        "by read() / stream(amt) / read_chunked(amt) / iteration / preloaded .data; non-trivial = a coding other than identity or more than one call; "
        "distinct = distinct (case, observation)")
TRUSTED_BASE = [
    "model coq/model/ReadBody.v (HTTPResponse.read / read1 / readinto / stream / read_chunked / _decode / BytesQueueBuffer over an abstract raw source and an abstract streaming decoder)",
    "the content decoders (zlib, zstandard and urllib3's wrapper classes) enter the model as a table: decoded length available after k raw bytes, measured by feeding the real decoder one byte at a time",
    "http.client and io.BufferedReader: fp.read(n) returns min(n, rest); the sizes fp.read1 returns are recorded from the run and replayed to the model",
]
ASSUMPTIONS = ["decode_content is given explicitly and is the same for every call on one response", "the response is complete and well-formed (C13 covers the rest)"]
EXHAUSTIVE = {"quick": False, "thorough": False}
CASE_TIMEOUT = 30
ENCODE_WITH_OBS = True


def compress(coding, payload):
    import zstandard
    def one(c, data):
        if c in ("gzip", "x-gzip"):
            return gzip.compress(data, 6, mtime=0)
        if c == "gzip2":
            k = len(data) // 2
            return gzip.compress(data[:k], 6, mtime=0) + gzip.compress(data[k:], 6, mtime=0)
        if c == "deflate":
            return zlib.compress(data)
        if c == "rawdeflate":
            o = zlib.compressobj(6, zlib.DEFLATED, -zlib.MAX_WBITS)
            return o.compress(data) + o.flush()
        if c == "zstd":
            return zstandard.ZstdCompressor().compress(data)
        if c == "zstd2":
            k = len(data) // 2
            return zstandard.ZstdCompressor().compress(data[:k]) + zstandard.ZstdCompressor().compress(data[k:])
        return data
    data = payload
    for c in [x.strip() for x in coding.split(",")]:
        data = one(c, data)
    return data


def header_coding(coding):
    m = {"gzip2": "gzip", "rawdeflate": "deflate", "zstd2": "zstd"}
    return ", ".join(m.get(x.strip(), x.strip()) for x in coding.split(","))


EXTS = {False: b"", None: b"", True: b";ext=1", 2: b";a=1;b=2", 3: b' ; a=1 ; b="x;y"', 4: b";;"}


def chunk_ext(e):
    """the chunk extensions after a chunk size (RFC 9112 7.1.1: any number of `;name[=value]`, with optional whitespace)"""
    return EXTS[e]


def wire_of(case, raw=None):
    """(raw body before framing, head, framed body); raw may be given (C13: a compressed stream cut before it is framed)"""
    if raw is None:
        raw = compress(case["coding"], case["payload"])
    hdrs = []
    if case["coding"] != "identity":
        hdrs.append(("Content-Encoding", header_coding(case["coding"])))
    fr = case["framing"]
    if fr == "len":
        hdrs.append(("Content-Length", str(len(raw))))
        body = raw
    elif fr == "chunked":
        hdrs.append(("Transfer-Encoding", "chunked"))
        body = b""
        i = 0
        sizes = list(case["chunks"]) or [max(1, len(raw))]
        k = 0
        while i < len(raw):
            n = max(1, sizes[k % len(sizes)])
            k += 1
            piece = raw[i:i + n]
            i += n
            body += b"%x" % len(piece) + chunk_ext(case.get("ext")) + b"\r\n" + piece + b"\r\n"
        body += b"0\r\n\r\n"
    else:
        hdrs.append(("Connection", "close"))
        body = raw
    head = ("HTTP/1.1 200 OK\r\n" + "".join("%s: %s\r\n" % kv for kv in hdrs) + "\r\n").encode()
    return raw, head, body


def chunk_vector(case, raw):
    if case["framing"] != "chunked":
        return []
    out = []
    i = 0
    sizes = list(case["chunks"]) or [max(1, len(raw))]
    k = 0
    while i < len(raw):
        n = max(1, sizes[k % len(sizes)])
        k += 1
        out.append(min(n, len(raw) - i))
        i += n
    return out


def decoder_table(case, raw):
    """decoded length available after feeding k raw bytes (k = 0..len(raw)), and the complete decoded output"""
    import urllib3.response as ur
    if case["coding"] == "identity" or not case["decode"]:
        return list(range(len(raw) + 1)), raw
    d = ur._get_decoder(header_coding(case["coding"]))
    out = bytearray()
    tbl = [0]
    for i in range(len(raw)):
        out += d.decompress(raw[i:i + 1])
        tbl.append(len(out))
    out += d.decompress(b"") + d.flush()
    return tbl, bytes(out)


API = {"read": 0, "read1": 1, "readinto": 2, "spiece": 3, "sdrop": 3}
FIN = {"none": 0, "read": 1, "stream": 2, "read_chunked": 3, "iter": 4, "data": 5}


def encode(case, obs):
    raw = compress(case["coding"], case["payload"])
    tbl, full = decoder_table(case, raw)
    tape = obs[2] if obs and len(obs) > 2 else []
    calls = [[API[c[0]], Opt(c[1])] for c in case["calls"]]
    fin = [FIN[case["finish"][0]], Opt(case["finish"][1] if len(case["finish"]) > 1 else None)]
    return [list(raw), tbl, list(full), B(case["coding"] != "identity"), B(case["decode"]), B(case["framing"] == "chunked"), chunk_vector(case, raw), calls, fin, tape]


def describe(case):
    d = dict(case)
    d["payload"] = case["payload"].hex()
    return d


_STASH = {}
_TAPES = {}


class Recorder:
    """transparent stand-in for http.client.HTTPResponse that records what read1 returns"""

    def __init__(self, inner, tape):
        object.__setattr__(self, "_inner", inner)
        object.__setattr__(self, "_tape", tape)

    def __getattr__(self, name):
        return getattr(object.__getattribute__(self, "_inner"), name)

    def __setattr__(self, name, value):
        setattr(object.__getattribute__(self, "_inner"), name, value)

    def read1(self, *a):
        data = object.__getattribute__(self, "_inner").read1(*a)
        object.__getattribute__(self, "_tape").append(len(data))
        return data


def impl(case):
    import urllib3
    from urllib3.connectionpool import HTTPConnectionPool
    from netsim.fakesock import installed, Net, Peer

    raw, head, body = wire_of(case)
    wire = head + body
    segs = list(case["segs"]) or [len(wire)]

    class Net12(Net):
        def connect(self, sock, host, port):
            def on_data(peer, data):
                if not bytes(peer.inbox).endswith(b"\r\n\r\n"):
                    return
                i = 0
                k = 0
                while i < len(wire):
                    n = max(1, segs[k % len(segs)])
                    k += 1
                    peer.send(wire[i:i + n])
                    i += n
                if case["framing"] == "eof":
                    peer.eof()
            return Peer(on_data)

    net = Net12()
    problems = []
    pieces = []
    fin_pieces = []
    tape = []
    gens = []
    end = 0
    dc = case["decode"]
    with installed(net):
        pool = HTTPConnectionPool("h.example", 80, maxsize=1)
        try:
            if case["finish"][0] == "data":
                r = pool.urlopen("GET", "/", preload_content=True, decode_content=dc, retries=False)
                fin_pieces.append(r.data)
                if r.read() != b"":
                    problems.append("read() after the preloaded body returned data")
            else:
                r = pool.urlopen("GET", "/", preload_content=False, decode_content=dc, retries=False)
                r._fp = Recorder(r._fp, tape)
                for api, arg in case["calls"]:
                    if api == "read":
                        p = r.read(arg, decode_content=dc)
                        if arg is not None and len(p) > arg:
                            problems.append("read(%d) returned %d bytes" % (arg, len(p)))
                    elif api in ("spiece", "sdrop"):
                        # one piece taken from stream(amt); the generator is kept alive ("spiece") or dropped at once ("sdrop")
                        g = r.stream(arg, decode_content=dc)
                        p = next(g, b"")
                        if api == "spiece":
                            gens.append(g)
                        else:
                            g.close()
                        del g
                    elif api == "read1":
                        p = r.read1(arg, decode_content=dc)
                        if arg is not None and p is not None and len(p) > arg:
                            problems.append("read1(%d) returned %d bytes" % (arg, len(p)))
                    else:
                        buf = bytearray(arg)
                        n = r.readinto(buf) if dc == r.decode_content else None
                        p = bytes(buf[:n])
                    pieces.append(bytes(p if p is not None else b""))
                f = case["finish"]
                if f[0] == "read":
                    fin_pieces.append(r.read(decode_content=dc))
                elif f[0] == "stream":
                    for p in r.stream(f[1], decode_content=dc):
                        if not p:
                            problems.append("stream() yielded an empty piece")
                        fin_pieces.append(p)
                elif f[0] == "read_chunked":
                    for p in r.read_chunked(f[1], decode_content=dc):
                        if not p:
                            problems.append("read_chunked() yielded an empty piece")
                        fin_pieces.append(p)
                elif f[0] == "iter":
                    for p in r:
                        fin_pieces.append(p)
                if f[0] != "none":
                    for again in (r.read(decode_content=dc), r.read(5, decode_content=dc), r.read1(5, decode_content=dc)):
                        if again:
                            problems.append("a read after the end of the body returned %d bytes" % len(again))
        except urllib3.exceptions.HTTPError as e:
            end = 1
            problems.append("reading raised %s: %s" % (type(e).__name__, str(e)[:80]))
        except Exception as e:
            end = 2
            problems.append("reading raised a raw %s: %s" % (type(e).__name__, str(e)[:80]))
    _STASH[id(case)] = problems
    _TAPES[id(case)] = tape
    if end:
        return [[list(p) for p in pieces], [list(p) for p in fin_pieces], tape, end]
    return [[list(p) for p in pieces], [list(p) for p in fin_pieces], tape]


def expected(case):
    return case["payload"] if case["decode"] else compress(case["coding"], case["payload"])


def oracle(case, obs):
    problems = _STASH.pop(id(case), [])
    if problems:
        return problems[0]
    pieces, fin = obs[0], obs[1]
    want = expected(case)
    got = b"".join(bytes(p) for p in pieces) + b"".join(bytes(p) for p in fin)
    if case["finish"][0] == "none":
        if not want.startswith(got):
            return "the pieces returned are not a prefix of the payload (%d bytes returned)" % len(got)
        return None
    if got != want:
        if len(got) < len(want) and want.endswith(got[-8:] if got else b"") and got != want[:len(got)]:
            return "bytes were lost: %d of %d payload bytes were returned" % (len(got), len(want))
        return "the concatenation of the returned pieces (%d bytes) is not the payload (%d bytes)" % (len(got), len(want))
    # read(n) returns fewer than n only at the end
    acc = 0
    for (api, arg), p in zip(case["calls"], pieces):
        acc += len(p)
        if api in ("read", "readinto") and arg and len(p) < arg and acc < len(want):
            return "%s(%d) returned %d bytes before the end of the body" % (api, arg, len(p))
    return None


def in_model_domain(case):
    """the model's read_chunked assumes nothing was read before it (the known finding C12-F1 lies outside)"""
    return not (case["finish"][0] == "read_chunked" and case["calls"]) and not any(c[0] in ("spiece", "sdrop") for c in case["calls"])


def signature(case, obs, msg):
    sig = {"msg": (msg or "")[:40]}
    if case["finish"][0] == "read_chunked" and case["calls"] and case["framing"] == "chunked":
        sig["kind"] = "read_chunked-after-partial-read"
    if case["framing"] == "chunked" and any(c[0] in ("spiece", "sdrop") for c in case["calls"]):
        # the finding: a dropped generator, or a read()-family call (also the finishing read()) after the piece; a piece followed by
        # nothing but further stream() / iteration goes on through read_chunked() and must work
        last = max(i for i, c in enumerate(case["calls"]) if c[0] in ("spiece", "sdrop"))
        later = [c[0] for c in case["calls"][last + 1:]]
        if any(c[0] == "sdrop" for c in case["calls"]) or any(x in ("read", "read1", "readinto") for x in later) or case["finish"][0] in ("read", "none", "data", "read_chunked"):
            sig = {"kind": "read-after-partial-stream-of-a-chunked-body"}
    return sig


def nontrivial(case, obs):
    if case["coding"] == "identity" and len(case["calls"]) + (case["finish"][0] != "none") <= 1:
        return None
    return hashlib.sha1(repr((describe(case), obs)).encode()).hexdigest()[:16]


def histogram(cases, obss):
    h = {"coding": {}, "framing": {}, "decode": {}, "ncalls": {}, "finish": {}, "payload_size": {}, "end": {}}
    for c, o in zip(cases, obss):
        n = len(c["payload"])
        size = "0" if n == 0 else ("1-9" if n < 10 else ("10-99" if n < 100 else "100+"))
        for k, v in (("coding", c["coding"]), ("framing", c["framing"]), ("decode", str(c["decode"])), ("ncalls", len(c["calls"])), ("finish", c["finish"][0]), ("payload_size", size)):
            h[k][v] = h[k].get(v, 0) + 1
        if o:
            e = o[3] if len(o) > 3 else 0
            h["end"][e] = h["end"].get(e, 0) + 1
    return h


# ---------------------------------------------------------------- generators
CODINGS = ["identity", "gzip", "gzip2", "deflate", "rawdeflate", "zstd", "zstd2", "gzip, deflate", "deflate, gzip", "zstd, gzip"]
NS = [1, 2, 3, 7, 64, 1000]


def rand_payload(rng):
    n = rng.choice([0, 1, 2, 5, 17, 64, 100, 300])
    if rng.random() < 0.5:
        return bytes(rng.choice(b"ab\n") for _ in range(n))
    return bytes(rng.randrange(256) for _ in range(n))


def rand_call(rng):
    a = rng.random()
    if a < 0.45:
        return ["read", rng.choice(NS + [0])]
    if a < 0.75:
        return ["read1", rng.choice(NS + [None])]
    return ["readinto", rng.choice(NS)]


def one_case(rng):
    framing = rng.choice(["len", "chunked", "eof"])
    fin = rng.choice([["read"], ["read"], ["stream", rng.choice(NS + [None])], ["iter"], ["data"], ["none"]])
    calls = [] if fin[0] == "data" else [rand_call(rng) for _ in range(rng.choice([0, 1, 2, 3, 5]))]
    if framing == "chunked" and not calls and rng.random() < 0.5:
        fin = ["read_chunked", rng.choice(NS + [None])]
    decode = rng.random() < 0.75 or fin[0] == "iter"      # iteration always decodes
    return {"payload": rand_payload(rng), "coding": rng.choice(CODINGS), "framing": framing, "chunks": [rng.choice([1, 2, 5, 16, 1000]) for _ in range(rng.randint(1, 3))],
            "ext": rng.choice([False, False, False, True, 2, 3, 4]), "segs": [rng.choice([1, 2, 3, 10, 50, 10000]) for _ in range(rng.randint(1, 3))], "decode": decode,
            "calls": calls, "finish": fin}


def cases(rng, tier):
    out = []
    pay = b"line one\nline two\n" * 4
    for coding in ("identity", "gzip", "zstd2"):
        for calls in ([["read", 3]], [["read1", 2]], [["readinto", 5]]):
            out.append({"payload": pay, "coding": coding, "framing": "chunked", "chunks": [5, 16], "ext": False, "segs": [10000], "decode": True,
                        "calls": calls, "finish": ["read_chunked", 7]})
    for coding in CODINGS:
        for framing in ("len", "chunked", "eof"):
            for calls in ([], [["read", 1]], [["read", 7], ["read1", 3]], [["read1", None], ["read", 2]], [["readinto", 3], ["read", 0], ["read", 64]]):
                for fin in (["read"], ["stream", 2], ["stream", None], ["iter"], ["data"]):
                    if fin[0] == "data" and calls:
                        continue
                    out.append({"payload": pay, "coding": coding, "framing": framing, "chunks": [3, 11], "ext": (2 if coding == "gzip" else 3 if coding == "identity" else False), "segs": [7, 1, 64], "decode": True,
                                "calls": [list(c) for c in calls], "finish": list(fin)})
    # one piece taken from stream(amt), then other reads: the generator kept alive or dropped
    for coding in ("identity", "gzip"):
        for framing in ("len", "chunked", "eof"):
            for api in ("spiece", "sdrop"):
                for amt in (2, 7, 1000):
                    for fin in (["read"], ["stream", 3], ["iter"]):
                        out.append({"payload": pay, "coding": coding, "framing": framing, "chunks": [5, 16], "ext": False, "segs": [10000], "decode": True,
                                    "calls": [[api, amt]], "finish": list(fin)})
                        out.append({"payload": pay, "coding": coding, "framing": framing, "chunks": [5, 16], "ext": False, "segs": [7, 64], "decode": True,
                                    "calls": [["read", 3], [api, amt], ["read1", 4]], "finish": list(fin)})
    for _ in range(8000 if tier == "quick" else 200000):
        out.append(one_case(rng))
    for _ in range(600 if tier == "quick" else 15000):
        c = one_case(rng)
        if c["finish"][0] in ("data", "read_chunked"):
            c["finish"] = ["read"]
        c["calls"].insert(rng.randint(0, len(c["calls"])), [rng.choice(["spiece", "sdrop"]), rng.choice(NS)])
        out.append(c)
    return out


def shrinks(case):
    cl = case["calls"]
    for i in range(len(cl)):
        c = dict(case); c["calls"] = cl[:i] + cl[i + 1:]
        yield c
    if len(case["payload"]) > 2:
        c = dict(case); c["payload"] = case["payload"][:len(case["payload"]) // 2]
        yield c
    if case["segs"] != [10000]:
        c = dict(case); c["segs"] = [10000]
        yield c
