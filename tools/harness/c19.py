"""C19 — socket waits never exceed the configured timeouts.

case = {"pool": ["T", total, connect, read] | ["raw", x],
        "objs": [[total, connect, read], ...]      request-level Timeout objects (built once, may be reused),
        "reqs": [{"t": ["default"] | ["obj", i] | ["raw", x], "d": connect-duration, "close": bool}, ...],
        "route": absent | "tunnel"   (an https origin through a CONNECT tunnel of an http proxy; the TLS handshake is replaced by the identity;
                                      connecting to the proxy takes d; judged by the oracle only)}
values: "unset" (the _DEFAULT_TIMEOUT sentinel / argument omitted), None, True (a bool), "bad" (a non-number),
        or a number given as a string fraction "p/q" (dyadic, so float arithmetic is exact).
The real HTTPConnectionPool runs over the in-memory network with a virtual
monotonic clock; connecting takes `d` virtual seconds."""
from __future__ import annotations

import hashlib
from fractions import Fraction

from sexp import Z, B

ID = "C19"
GEN = []
RULE = ("full grid of (total, connect, read) over {unset, None, 1/2, 2, 10} at pool or request level x connect durations "
        "{0, 0.3~5/16, 1, 5, 20} x sequences of 1-2 requests (fresh / reused connection, shared Timeout objects), direct or through a CONNECT tunnel, plus invalid "
        "values; non-trivial = at least one request reached the network or was rejected; distinct = distinct (case, observation)")
TRUSTED_BASE = [
    "model coq/model/Timeout.v over exact rationals (Q); IEEE rounding of total - elapsed is not modelled (grid values are dyadic so float arithmetic is exact)",
    "plain-HTTP pools (the connect happens inside conn.request) and https origins through a CONNECT tunnel of an http proxy with the TLS handshake replaced by the identity (the connect happens in _prepare_proxy); socket.getdefaulttimeout() is None in the harness",
]
ASSUMPTIONS = ["total=_DEFAULT_TIMEOUT sentinel is outside the property's domain and never generated", "virtual clock replaces time.monotonic as seen by urllib3.util.timeout"]
EXHAUSTIVE = {"quick": False, "thorough": True}


BADS = ("bad", "numstr", "numbytes", "numspace", "list")          # non-numbers, among them strings and bytes that float() would parse


def enc_q(fr):
    fr = Fraction(fr)
    return [Z(fr.numerator), fr.denominator]


def enc_raw(x):
    if x == "unset":
        return [0]
    if x is None:
        return [1]
    if x is True or x is False:
        return [2]
    if x in BADS:
        return [4]
    return [3, enc_q(x)]


def encode(case):
    p = case["pool"]
    if p[0] == "T":
        head = [0, [enc_raw(p[1]), enc_raw(p[2]), enc_raw(p[3])]]
    else:
        head = [1, enc_raw(p[1])]
    objs = [[enc_raw(a), enc_raw(b), enc_raw(c)] for a, b, c in case["objs"]]
    reqs = []
    for r in case["reqs"]:
        t = r["t"]
        if t[0] == "default":
            k, a = 0, []
        elif t[0] == "obj":
            k, a = 1, t[1]
        else:
            k, a = 2, enc_raw(t[1])
        reqs.append([k, a, enc_q(r["d"]), B(r["close"])])
    return head + [objs, reqs] + ([1] if case.get("route") == "tunnel" else [])


def describe(case):
    return case


def pyval(x):
    from urllib3.util.timeout import _DEFAULT_TIMEOUT
    if x == "unset":
        return _DEFAULT_TIMEOUT
    if x is None or x is True or x is False:
        return x
    if x in BADS:
        return {"bad": "not-a-number", "numstr": "2", "numbytes": b"2", "numspace": " 0.5 ", "list": [2]}[x]
    fr = Fraction(x)
    return int(fr) if fr.denominator == 1 else float(fr)


def build_timeout(tr):
    from urllib3.util.timeout import Timeout
    kw = {}
    for name, x in zip(("total", "connect", "read"), tr):
        if x != "unset":
            kw[name] = pyval(x)
    return Timeout(**kw)


def q_of(v):
    """float/int/None -> [] | [[sign,num],den]"""
    if v is None:
        return []
    fr = Fraction(v)
    return [enc_q(fr)]


_STASH = {}


def impl(case):
    import urllib3
    import urllib3.util.timeout as ut
    from netsim.fakesock import Net, Peer, installed, VClock, http_response

    clock = VClock(1000.0)
    state = {"d": 0.0, "close": False}

    class N(Net):
        def connect(self, sock, host, port):
            sock.timeouts_at_connect = len(sock.timeouts)
            clock.advance(state["d"])

            def on_data(peer, data):
                if bytes(peer.inbox[:8]) == b"CONNECT " and b"\r\n\r\n" in peer.inbox:
                    peer.inbox.clear()
                    peer.send(b"HTTP/1.1 200 Connection established\r\n\r\n")
                elif b"\r\n\r\n" in peer.inbox:
                    peer.inbox.clear()
                    hdrs = [("Connection", "close")] if state["close"] else []
                    peer.send(http_response(headers=hdrs))
                    if state["close"]:
                        peer.eof()
            return Peer(on_data)

    net = N()
    net.clock = clock

    class FakeTime:
        monotonic = staticmethod(clock.monotonic)
    old_time = ut.time
    ut.time = FakeTime
    problems = []
    import urllib3.connection as uconn
    import warnings

    def fake_wrap(sock, **kw):
        sock.getpeercert = lambda binary_form=False: (b"" if binary_form else {})
        sock.version = lambda: "TLSv1.3"
        sock.selected_alpn_protocol = lambda: None
        return sock
    old_wrap = uconn.ssl_wrap_socket
    tunnel = case.get("route") == "tunnel"
    if tunnel:
        uconn.ssl_wrap_socket = fake_wrap
        warnings.simplefilter("ignore")

    def make_pool(**kw):
        if tunnel:
            pm = urllib3.ProxyManager("http://proxy.example:3128", cert_reqs="CERT_NONE", maxsize=1, **kw)
            return pm.connection_from_host("h.example", 443, "https")
        return urllib3.HTTPConnectionPool("h.example", 80, maxsize=1, **kw)
    try:
        built = []
        built_ok = []
        for tr in case["objs"]:
            try:
                built.append(build_timeout(tr)); built_ok.append(1)
            except ValueError:
                built.append(None); built_ok.append(0)
        with installed(net):
            try:
                p = case["pool"]
                if p[0] == "T":
                    pool_t = build_timeout(p[1:])
                    pool = make_pool(timeout=pool_t)
                elif p[1] == "unset":
                    pool_t = None
                    pool = make_pool()
                else:
                    pool_t = None
                    pool = make_pool(timeout=pyval(p[1]))
            except ValueError:
                return [0, built_ok]
            out = []
            for r in case["reqs"]:
                state["d"] = float(Fraction(r["d"]))
                state["close"] = r["close"]
                n_conn = len(net.connects)
                marks = [(s, len(s.timeouts)) for s in net.socks]
                kw = {}
                t = r["t"]
                if t[0] == "obj":
                    kw["timeout"] = built[t[1]]
                elif t[0] == "raw":
                    if t[1] != "unset":
                        kw["timeout"] = pyval(t[1])
                t_before = clock.t
                try:
                    resp = pool.urlopen("GET", "/", retries=False, **kw)
                    resp.data
                    outcome = 0
                except urllib3.exceptions.ReadTimeoutError:
                    outcome = 1
                    if clock.t - t_before > state["d"] + 1e-9:
                        problems.append("ReadTimeoutError for an exhausted budget was raised only after waiting")
                except ValueError:
                    outcome = 2
                except urllib3.exceptions.TimeoutStateError:
                    outcome = 3
                evs = []
                for (h, po, tm) in net.connects[n_conn:]:
                    evs.append([0, q_of(tm)])
                for s, n0 in marks:
                    for v in s.timeouts[n0:]:
                        evs.append([1, q_of(v)])
                for s in net.socks[len(marks):]:
                    for v in s.timeouts[getattr(s, "timeouts_at_connect", 0):]:
                        evs.append([1, q_of(v)])
                out.append([evs, outcome])
            for i, tobj in enumerate(built):
                if tobj is not None and tobj._start_connect is not None:
                    problems.append("the caller's Timeout object #%d had its clock started (requests share state)" % i)
            if pool_t is not None and pool_t._start_connect is not None:
                problems.append("the pool's Timeout object had its clock started")
            return [1, built_ok, out]
    finally:
        ut.time = old_time
        uconn.ssl_wrap_socket = old_wrap
        _STASH[id(case)] = problems


def in_model_domain(case):
    return True


# ---------------------------------------------------------------- oracle: the property's formulae with Fraction
def num(x):
    return None if x in ("unset", None) else Fraction(x)


def valid(x):
    if x in ("unset", None):
        return True
    if x is True or x is False or x in BADS:
        return False
    return Fraction(x) > 0


def oracle(case, obs):
    problems = _STASH.pop(id(case), [])
    if problems:
        return problems[0]
    objs_ok = [all(valid(x) for x in tr) for tr in case["objs"]]
    if obs[1] != [1 if o else 0 for o in objs_ok]:
        return "Timeout construction accepted/rejected the wrong values: %r" % (obs[1],)
    p = case["pool"]
    pool_ok = all(valid(x) for x in p[1:])
    if obs[0] == 0:
        return None if not pool_ok else "a valid pool timeout was rejected"
    if not pool_ok:
        return "an invalid pool timeout %r was accepted" % (p,)
    if p[0] == "T":
        pool_cfg = (num(p[1]), num(p[2]), num(p[3]))
    else:
        pool_cfg = (None, num(p[1]), num(p[1]))
    have_conn = False
    for i, (r, o) in enumerate(zip(case["reqs"], obs[2])):
        t = r["t"]
        if t[0] == "default":
            cfg = pool_cfg
        elif t[0] == "obj":
            tr = case["objs"][t[1]]
            cfg = (num(tr[0]), num(tr[1]), num(tr[2]))
        else:
            if not valid(t[1]):
                if o[1] != 2:
                    return "request #%d: invalid timeout %r was not rejected" % (i, t[1])
                continue
            cfg = pool_cfg if t[1] == "unset" else (None, num(t[1]), num(t[1]))
        total, connect, read = cfg
        evs, outcome = o
        d = Fraction(r["d"]) if not have_conn else Fraction(0)
        exp_connect = min([x for x in (connect, total) if x is not None], default=None)
        budget = [x for x in (read, (total - d) if total is not None else None) if x is not None]
        exp_read = max(Fraction(0), min(budget)) if budget else None
        applied = [(k, (None if not v else Fraction(v[0][0][1] * (1 if v[0][0][0] == 0 else -1), v[0][1]))) for k, v in evs]
        for k, v in applied:
            if v is not None and v < 0:
                return "request #%d: negative timeout applied" % i
        if not have_conn:
            conn_ev = [v for k, v in applied if k == 0]
            if conn_ev != [exp_connect]:
                return "request #%d: connect-phase timeout %r, expected min(connect,total) = %r" % (i, conn_ev, exp_connect)
        if exp_read is not None and exp_read == 0:
            if outcome != 1:
                return "request #%d: remaining read budget is 0 but no ReadTimeoutError (outcome %d)" % (i, outcome)
            have_conn = False
            continue
        if outcome != 0:
            return "request #%d: unexpected outcome %d" % (i, outcome)
        sets = [v for k, v in applied if k == 1]
        if not sets or sets[-1] != exp_read:
            return "request #%d: response wait used timeout %r, expected min(read, total - connect time) = %r" % (i, sets[-1:] , exp_read)
        for v in sets:
            for bound in (x for x in (total,) if x is not None):
                if v is None or v > bound:
                    return "request #%d: a socket wait %r is looser than total=%r" % (i, v, bound)
        have_conn = not r["close"]
    return None


def signature(case, obs, msg):
    m = msg or ""
    if case.get("route") == "tunnel" and ("response wait used timeout" in m or "remaining read budget is 0 but no ReadTimeoutError" in m):
        return {"kind": "tunnel-connect-time-not-subtracted"}
    return {"msg": m[:50]}


def nontrivial(case, obs):
    return hashlib.sha1(repr((case, obs)).encode()).hexdigest()[:16]


def histogram(cases, obss):
    h = {"pool_kind": {}, "nreq": {}, "outcomes": {}}
    names = {0: "ok", 1: "ReadTimeoutError", 2: "ValueError", 3: "TimeoutStateError"}
    for c, o in zip(cases, obss):
        h["pool_kind"][c["pool"][0]] = h["pool_kind"].get(c["pool"][0], 0) + 1
        h["nreq"][len(c["reqs"])] = h["nreq"].get(len(c["reqs"]), 0) + 1
        if o and o[0] == 1:
            for r in o[2]:
                k = names.get(r[1])
                h["outcomes"][k] = h["outcomes"].get(k, 0) + 1
        elif o:
            h["outcomes"]["pool-ValueError"] = h["outcomes"].get("pool-ValueError", 0) + 1
    return h


VALS = ["unset", None, "1/2", "2", "10"]
DUR = ["0", "5/16", "1", "5", "20"]
INVALID = ["0", "-1", True, "bad", "-1/2", "numstr", "numbytes", "numspace", "list"]


def cases(rng, tier):
    out = []
    import itertools
    grid = list(itertools.product([None, "1/2", "2", "10"], VALS, VALS))   # total is None or a number ("unset" total = None)
    # single requests, pool-level and request-level placement
    for tr in grid:
        for d in DUR:
            out.append({"pool": ["T"] + list(tr), "objs": [], "reqs": [{"t": ["default"], "d": d, "close": False}]})
            out.append({"pool": ["raw", "unset"], "objs": [list(tr)], "reqs": [{"t": ["obj", 0], "d": d, "close": False}]})
    for x in VALS:
        for y in VALS:
            for d in DUR:
                out.append({"pool": ["raw", x], "objs": [], "reqs": [{"t": ["raw", y], "d": d, "close": False}]})
    # invalid values
    for bad in INVALID:
        for pos in range(3):
            tr = ["2", "2", "2"]; tr[pos] = bad
            out.append({"pool": ["T"] + tr, "objs": [], "reqs": []})
            out.append({"pool": ["raw", "unset"], "objs": [tr], "reqs": []})
        out.append({"pool": ["raw", bad], "objs": [], "reqs": []})
        out.append({"pool": ["raw", "2"], "objs": [], "reqs": [{"t": ["raw", bad], "d": "0", "close": False},
                                                                 {"t": ["default"], "d": "1", "close": False}]})
    # sequences of two requests sharing the pool Timeout / one request-level object, reuse vs fresh
    seqs = []
    for tr in grid:
        for d1 in DUR:
            for d2 in DUR:
                for close in (False, True):
                    seqs.append({"pool": ["T"] + list(tr), "objs": [], "reqs": [{"t": ["default"], "d": d1, "close": close}, {"t": ["default"], "d": d2, "close": False}]})
                    seqs.append({"pool": ["raw", "10"], "objs": [list(tr)], "reqs": [{"t": ["obj", 0], "d": d1, "close": close}, {"t": ["obj", 0], "d": d2, "close": False}]})
    pool2 = []
    for tr in rng.sample(grid, 20):
        for tr2 in rng.sample(grid, 6):
            for d1 in ("0", "1", "5"):
                pool2.append({"pool": ["T"] + list(tr), "objs": [list(tr2)], "reqs": [{"t": ["obj", 0], "d": d1, "close": rng.random() < 0.5},
                                                                                   {"t": ["default"], "d": rng.choice(DUR), "close": False},
                                                                                   {"t": ["obj", 0], "d": rng.choice(DUR), "close": False}]})
    # the same through a CONNECT tunnel: connecting (to the proxy) still counts against total
    tun = []
    for tr in grid:
        for d in DUR:
            tun.append({"route": "tunnel", "pool": ["T"] + list(tr), "objs": [], "reqs": [{"t": ["default"], "d": d, "close": False}]})
            tun.append({"route": "tunnel", "pool": ["raw", "unset"], "objs": [list(tr)], "reqs": [{"t": ["obj", 0], "d": d, "close": False}]})
            tun.append({"route": "tunnel", "pool": ["raw", "10"], "objs": [list(tr)], "reqs": [{"t": ["obj", 0], "d": d, "close": rng.random() < 0.5},
                                                                                              {"t": ["obj", 0], "d": rng.choice(DUR), "close": False}]})
    if tier == "quick":
        tun = rng.sample(tun, 400)
    out += tun
    if tier == "quick":
        seqs = rng.sample(seqs, 1200)
        pool2 = rng.sample(pool2, 200)
    out += seqs + pool2
    return out
