"""C18 — connections are never shared across differing connection settings.

case = {"defaults": {kw: valspec}, "reqs": [{"host":h,"port":p|None,"scheme":s|None,"kw":{kw: valspec}|None}, ...]}
valspec = ["none"] | ["str",s] | ["int",n] | ["bool",b] | ["dict",[[k,v]...]] | ["list",[[ints]...]] | ["tuple",[[ints]...]]
        | ["obj", class, args]  (an object built once per (class,args,tag) per case: Retry, Timeout, SSLContext compare by identity;
                                 Url, ProxyConfig, address tuples by value)
Observation per request: ordinal of the pool object returned (identity), or an error code."""
from __future__ import annotations

import copy
import hashlib
import inspect
import ssl

from sexp import S, Z, B, Opt

ID = "C18"
GEN = ["Gen_Key"]
RULE = ("pairs/sequences of request contexts on one PoolManager that differ in exactly one keyword (every keyword of the four pool/"
        "connection constructors as found by introspection, two or three values each incl. falsy ones) or in none up to case / default port / "
        "dict order / list-vs-tuple / explicit default normalisation, supplied via constructor defaults or pool_kwargs; "
        "non-trivial = at least two successful requests; distinct = distinct case")
TRUSTED_BASE = [
    "model coq/model/PoolKey.v of _merge_pool_kwargs / connection_from_host / connection_from_context / _default_key_normalizer with the name lists regenerated from the source (Gen_Key)",
    "Python == on key components is modelled by a per-case value-class id for opaque objects; int/bool cross-type equality is not generated",
]
ASSUMPTIONS = ["no keyword k is used together with a keyword literally named 'key_'+k (renaming collision, outside the model)"]
EXHAUSTIVE = {"quick": True, "thorough": True}


def describe(case):
    return case


# ---------------------------------------------------------------- values
def build(spec, cache):
    t = spec[0]
    if t == "none":
        return None
    if t in ("str", "int", "bool"):
        return spec[1]
    if t == "dict":
        return dict((k, v) for k, v in spec[1])
    if t == "list":
        return [tuple(x) for x in spec[1]]
    if t == "tuple":
        return tuple(tuple(x) for x in spec[1])
    key = repr(spec)
    if key in cache:
        return cache[key]
    cls, args = spec[1], spec[2]
    import urllib3
    from urllib3.util.url import parse_url
    from urllib3._base_connection import ProxyConfig
    if cls == "Retry":
        o = urllib3.Retry(*args[:1])
    elif cls == "Timeout":
        o = urllib3.Timeout(*args[:1])
    elif cls == "SSLContext":
        o = ssl.SSLContext(ssl.PROTOCOL_TLS_CLIENT)
    elif cls == "Url":
        o = parse_url(args[0])
    elif cls == "ProxyConfig":
        o = ProxyConfig(None, bool(args[0]), None, None)
    elif cls == "addr":
        o = (args[0], args[1])
    elif cls == "TLSVersion":
        o = ssl.TLSVersion(args[0])
    elif cls == "VerifyMode":
        o = ssl.VerifyMode(args[0])
    else:
        raise ValueError(spec)
    cache[key] = o
    return o


def enc_val(v, registry):
    if v is None:
        return [0]
    if isinstance(v, bool):
        return [3, B(v)]
    if isinstance(v, int):
        return [2, Z(int(v))]
    if isinstance(v, str):
        return [1, S(v)]
    if isinstance(v, dict):
        return [5, [[S(k), S(x)] for k, x in v.items()]]
    if isinstance(v, list) and all(isinstance(x, tuple) and all(isinstance(y, int) for y in x) for x in v):
        return [7, [[Z(y) for y in x] for x in v]]
    if isinstance(v, tuple) and v and all(isinstance(x, tuple) and all(isinstance(y, int) for y in x) for x in v):
        return [8, [[Z(y) for y in x] for x in v]]
    for i, o in enumerate(registry):
        try:
            if o is v or o == v:
                return [4, i]
        except Exception:
            pass
    registry.append(v)
    return [4, len(registry) - 1]


def materialise(case):
    cache = {}
    defaults = {k: build(v, cache) for k, v in case["defaults"].items()}
    reqs = []
    for r in case["reqs"]:
        kw = None if r["kw"] is None else {k: build(v, cache) for k, v in r["kw"].items()}
        reqs.append((r["host"], r["port"], r["scheme"], kw))
    return defaults, reqs


def encode(case):
    defaults, reqs = materialise(case)
    reg = []
    d = [[S(k), enc_val(v, reg)] for k, v in defaults.items()]
    rs = []
    for h, p, s, kw in reqs:
        rs.append([S(h), Opt(p, Z), Opt(s, S), Opt(kw, lambda kw: [[S(k), enc_val(v, reg)] for k, v in kw.items()])])
    return [d, rs]


_STASH = {}


def impl(case):
    import urllib3
    from urllib3.exceptions import LocationValueError, URLSchemeUnknown
    defaults, reqs = materialise(case)
    try:
        if case.get("proxy"):
            # a ProxyManager: http targets are served by the pool of the proxy itself, https targets by a pool per target (tunnel)
            if case["proxy"] == "https_fwd":
                # https targets forwarded to an https proxy instead of tunnelled: they still get a pool per target
                pm = urllib3.ProxyManager("https://proxy.example:3128", num_pools=50, use_forwarding_for_https=True, **defaults)
            else:
                pm = urllib3.ProxyManager("%s://proxy.example:3128" % case["proxy"], num_pools=50, **defaults)
        else:
            pm = urllib3.PoolManager(num_pools=50, **defaults)
    except TypeError:
        return [[1]] * len(reqs)
    snap = dict(pm.connection_pool_kw)
    pools = []
    out = []
    problems = []
    for h, p, s, kw in reqs:
        kw_before = None if kw is None else dict(kw)
        try:
            pool = pm.connection_from_host(h, port=p, scheme=s, pool_kwargs=kw)
            for i, q in enumerate(pools):
                if q is pool:
                    out.append([0, i]); break
            else:
                pools.append(pool); out.append([0, len(pools) - 1])
        except TypeError:
            out.append([1])
        except URLSchemeUnknown:
            out.append([3])
        except LocationValueError:
            out.append([2])
        except Exception:
            out.append([4])
        if kw is not None and kw != kw_before:
            problems.append("the caller's pool_kwargs dict was modified")
    if list(pm.connection_pool_kw.items()) != list(snap.items()):
        problems.append("the manager's own defaults (connection_pool_kw) were altered by requests: %r -> %r" % (sorted(snap), sorted(pm.connection_pool_kw)))
    _STASH[id(case)] = problems
    return out


# ---------------------------------------------------------------- oracle
def canon(v):
    if isinstance(v, list):
        return tuple(v)
    if isinstance(v, bool):
        return ("bool", v)          # False and 0 are different settings (retries=False vs retries=0)
    return v


def effective(defaults, kw):
    d = dict(defaults)
    for k, v in (kw or {}).items():
        if v is None:
            d.pop(k, None)
        else:
            d[k] = v
    d = {k: canon(v) for k, v in d.items() if v is not None and k != "strict"}   # 'strict' is accepted and ignored
    d.setdefault("blocksize", 16384)
    return d


def oracle(case, obs):
    problems = _STASH.pop(id(case), [])
    if problems:
        return problems[0]
    defaults, reqs = materialise(case)
    cfgs = []
    for (h, p, s, kw), o in zip(reqs, obs):
        if o[0] != 0:
            cfgs.append(None); continue
        sch = (s or "http").lower()
        port = p or (443 if sch == "https" else 80)
        if case.get("proxy") and sch == "http":
            cfgs.append(("via", "proxy.example", 3128, effective(defaults, kw)))      # forwarded: one pool per setting, whatever the target
        else:
            cfgs.append((sch, h.lower(), port, effective(defaults, kw)))
    for i in range(len(cfgs)):
        for j in range(i + 1, len(cfgs)):
            if cfgs[i] is None or cfgs[j] is None:
                continue
            same_cfg = cfgs[i][:3] == cfgs[j][:3] and cfgs[i][3] == cfgs[j][3]
            same_pool = obs[i][1] == obs[j][1]
            if same_pool and not same_cfg:
                a, b = cfgs[i][3], cfgs[j][3]
                diff = sorted(k for k in set(a) | set(b) if a.get(k, None) != b.get(k, None)) or ["scheme/host/port"]
                cross = all(isinstance(a.get(k), tuple) != isinstance(b.get(k), tuple) and
                            (a.get(k)[1] if isinstance(a.get(k), tuple) else a.get(k)) == (b.get(k)[1] if isinstance(b.get(k), tuple) else b.get(k))
                            for k in diff if k in a and k in b) and all(k in a and k in b for k in diff)
                return "requests #%d and #%d share one pool although they differ in %s%s" % (
                    i, j, ", ".join(diff), " (bool vs int of equal numeric value)" if cross else "")
            if same_cfg and not same_pool:
                return "requests #%d and #%d have equal settings (up to normalisation) but got different pools" % (i, j)
    return None


def signature(case, obs, msg):
    m = msg or ""
    sig = {"msg": m.split(" share one pool")[-1][:80] if " share one pool" in m else m[:60]}
    if "differ in " in m:
        sig["differs"] = m.split("differ in ")[1].split(" (")[0]
        sig["cross_type"] = m.endswith("(bool vs int of equal numeric value)")
    return sig


def in_model_domain(case):
    return not case.get("proxy")


def nontrivial(case, obs):
    if sum(1 for o in obs if o[0] == 0) < 2:
        return None
    return hashlib.sha1(repr(case).encode()).hexdigest()[:16]


def histogram(cases, obss):
    h = {"nreq": {}, "results": {}, "kw": {}}
    names = {0: "pool", 1: "TypeError", 2: "LocationValueError", 3: "URLSchemeUnknown", 4: "other"}
    for c, o in zip(cases, obss):
        h["nreq"][len(c["reqs"])] = h["nreq"].get(len(c["reqs"]), 0) + 1
        for r in (o or []):
            k = names.get(r[0]); h["results"][k] = h["results"].get(k, 0) + 1
        for r in c["reqs"]:
            for k in (r["kw"] or {}):
                h["kw"][k] = h["kw"].get(k, 0) + 1
        for k in c["defaults"]:
            h["kw"][k] = h["kw"].get(k, 0) + 1
    return h


# ---------------------------------------------------------------- generators
KNOWN_VALUES = {
    "timeout": [["int", 3], ["int", 5], ["obj", "Timeout", [3], "a"], ["obj", "Timeout", [3], "b"]],
    "maxsize": [["int", 1], ["int", 2]],
    "block": [["bool", True], ["bool", False]],
    "headers": [["dict", [["A", "1"]]], ["dict", [["A", "2"]]], ["dict", []]],
    "retries": [["int", 1], ["int", 2], ["int", 0], ["obj", "Retry", [1], "a"], ["obj", "Retry", [1], "b"], ["bool", False]],
    "_proxy": [["obj", "Url", ["http://p1:3128"]], ["obj", "Url", ["http://p2:3128"]]],
    "_proxy_headers": [["dict", [["P", "1"]]], ["dict", [["P", "2"]]], ["dict", []]],
    "_proxy_config": [["obj", "ProxyConfig", [0]], ["obj", "ProxyConfig", [1]]],
    "_socks_options": [["dict", [["v", "4"]]], ["dict", [["v", "5"]]]],
    "cert_reqs": [["str", "CERT_NONE"], ["str", "CERT_REQUIRED"], ["obj", "VerifyMode", [0]], ["obj", "VerifyMode", [2]]],
    "ssl_version": [["int", 2], ["int", 5]],
    "ssl_minimum_version": [["obj", "TLSVersion", [771]], ["obj", "TLSVersion", [772]]],
    "ssl_maximum_version": [["obj", "TLSVersion", [771]], ["obj", "TLSVersion", [772]]],
    "assert_hostname": [["bool", False], ["str", "h1"], ["str", "h2"]],
    "source_address": [["obj", "addr", ["127.0.0.1", 0]], ["obj", "addr", ["127.0.0.2", 0]]],
    "blocksize": [["int", 8192], ["int", 4096]],
    "socket_options": [["list", [[6, 1, 1]]], ["list", [[6, 1, 0]]], ["list", []]],
    "ssl_context": [["obj", "SSLContext", [], "a"], ["obj", "SSLContext", [], "b"]],
}


def ctor_keywords():
    from urllib3.connectionpool import HTTPConnectionPool, HTTPSConnectionPool
    from urllib3.connection import HTTPConnection, HTTPSConnection
    names = []
    for cls in (HTTPConnectionPool, HTTPSConnectionPool, HTTPConnection, HTTPSConnection):
        for n, p in inspect.signature(cls.__init__).parameters.items():
            if n in ("self", "host", "port") or p.kind in (p.VAR_KEYWORD, p.VAR_POSITIONAL):
                continue
            if n not in names:
                names.append(n)
    for n in ("_socks_options",):
        if n not in names:
            names.append(n)
    return names


def values_for(kw):
    return KNOWN_VALUES.get(kw, [["str", "v1"], ["str", "v2"], ["str", ""]])


def cases(rng, tier):
    out = []
    kws = ctor_keywords()
    hosts = [("example.com", None, "https"), ("example.com", None, "http")]
    for kw in kws:
        vals = values_for(kw)
        for (h, p, s) in hosts:
            for a in range(len(vals)):
                for b in range(len(vals)):
                    if a == b:
                        continue
                    # via pool_kwargs, both explicit
                    out.append({"defaults": {}, "reqs": [{"host": h, "port": p, "scheme": s, "kw": {kw: vals[a]}},
                                                         {"host": h, "port": p, "scheme": s, "kw": {kw: vals[b]}},
                                                         {"host": h, "port": p, "scheme": s, "kw": {kw: vals[a]}}]})
                # value vs absent, via constructor default then override-removal / plain
                # (PoolManager(headers=...) is a request-level default of the manager, not a pool setting)
                if kw != "headers":
                  out.append({"defaults": {kw: vals[a]}, "reqs": [{"host": h, "port": p, "scheme": s, "kw": None},
                                                                {"host": h, "port": p, "scheme": s, "kw": {kw: ["none"]}},
                                                                {"host": h, "port": p, "scheme": s, "kw": None},
                                                                {"host": "other.example", "port": p, "scheme": "http", "kw": None},
                                                                {"host": h, "port": p, "scheme": s, "kw": None}]})
                out.append({"defaults": {}, "reqs": [{"host": h, "port": p, "scheme": s, "kw": None},
                                                     {"host": h, "port": p, "scheme": s, "kw": {kw: vals[a]}},
                                                     {"host": h, "port": p, "scheme": s, "kw": {}}]})
    # equal up to normalisation
    norm = [
        [("Example.COM", None, "HTTPS", None), ("example.com", 443, "https", None), ("example.com", None, "https", {})],
        [("example.com", None, None, None), ("EXAMPLE.com", 80, "http", None), ("example.com", 0, "HTTP", None)],
        [("example.com", None, "http", {"headers": ["dict", [["A", "1"], ["B", "2"]]]}), ("example.com", None, "http", {"headers": ["dict", [["B", "2"], ["A", "1"]]]})],
        [("example.com", None, "http", {"socket_options": ["list", [[6, 1, 1]]]}), ("example.com", None, "http", {"socket_options": ["tuple", [[6, 1, 1]]]})],
        [("example.com", None, "http", {"blocksize": ["int", 16384]}), ("example.com", None, "http", None), ("example.com", None, "http", {"blocksize": ["none"]})],
        [("example.com", 8080, "http", None), ("example.com", 80, "http", None), ("example.com", 443, "http", None), ("example.com", 443, "https", None)],
        [("", None, "http", None), ("example.com", None, "ftp", None), ("example.com", None, "http", {"strict": ["bool", True]}), ("example.com", None, "http", None)],
    ]
    for grp in norm:
        out.append({"defaults": {}, "reqs": [{"host": h, "port": p, "scheme": s, "kw": kw} for h, p, s, kw in grp]})
    # two keywords at once (thorough) / random mixes (quick)
    n2 = 1500 if tier == "quick" else 40000
    for _ in range(n2):
        k1, k2 = rng.sample(kws, 2)
        v1, v2 = rng.choice(values_for(k1)), rng.choice(values_for(k2))
        w1 = rng.choice(values_for(k1))
        h, p, s = rng.choice(hosts)
        defaults = {k1: v1} if (rng.random() < 0.5 and k1 != "headers") else {}
        reqs = [{"host": h, "port": p, "scheme": s, "kw": rng.choice([None, {k2: v2}, {k1: w1}, {k1: w1, k2: v2}, {k1: ["none"]}])} for _ in range(rng.randint(2, 4))]
        out.append({"defaults": defaults, "reqs": reqs})
    # the same through a ProxyManager (http and https proxy): per-request settings still separate pools, for forwarded and for tunnelled targets
    for proxy in ("http", "https", "https_fwd"):
        for kw in kws:
            if kw in ("_proxy", "_proxy_headers", "_proxy_config"):
                continue          # a ProxyManager sets these itself
            vals = values_for(kw)
            for a in range(len(vals)):
                for sch in ("http", "https"):
                    out.append({"proxy": proxy, "defaults": {}, "reqs": [{"host": "example.com", "port": None, "scheme": sch, "kw": None},
                                                                         {"host": "example.com", "port": None, "scheme": sch, "kw": {kw: vals[a]}},
                                                                         {"host": "other.example", "port": None, "scheme": sch, "kw": {kw: vals[a]}},
                                                                         {"host": "example.com", "port": None, "scheme": sch, "kw": {kw: vals[(a + 1) % len(vals)]}},
                                                                         {"host": "example.com", "port": None, "scheme": sch, "kw": None}]})
    return out
