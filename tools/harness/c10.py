"""C10 — no input can inject into or split the HTTP request on the wire.

case = {"level": 1|2|3, "method": str, "url": str, "headers": [[name, value], ...],
        "body": absent | ["bytes", b] | ["str", s] | ["iter", [str or bytes chunks]] (sent chunked) - cases with a body are judged by the oracle only,
        "then": absent | {"method", "url", "headers"} (level 1 only: when the first request() fails, the caller closes the connection object and
        makes this request on it; what is judged is what that second call writes - oracle only)}
level 1: HTTPConnection("h.example", 80).request(method, url, headers=...)         (url used as given)
level 2: HTTPConnectionPool("h.example", 80).urlopen(method, url, headers=...)      (url starts with "/")
level 3: PoolManager().request(method, "http://h.example" + url, headers=...)
level 4: HTTP2Connection("h.example", 443).putheader(name, value) with headers = [[name, value]]: [0, the name that was kept] or [1, 1]
level 5: ProxyManager("http://proxy.example:3128", proxy_headers=headers).request("GET", url) with url = "https://" + thost [+ ":" + tport] + "/a":
         what the proxy is made to read (it answers 403, so nothing but the CONNECT request is ever written)
Observation: [0, the bytes written] or [1, error class] with nothing written (the oracle checks that)."""
from __future__ import annotations

import hashlib

from sexp import S, B, Opt

ID = "C10"
GEN = ["Gen_Inject", "Gen_Body"]
RULE = ("methods, URL parts, header names and header values drawn from a hostile alphabet (CR, LF, CRLF, NUL, DEL, SP, HTAB, ':', non-ASCII, percent "
        "escapes, embedded complete requests, obs-fold continuations, the SKIP_HEADER sentinel) mixed with ordinary ones, caller-supplied and suppressed "
        "Host / Accept-Encoding / User-Agent, bodies (bytes, text, iterables of text and bytes chunks with non-ASCII characters and embedded chunk "
        "terminators / complete requests), through HTTPConnection.request, HTTPConnectionPool.urlopen and PoolManager.request; HTTP2Connection.putheader with hostile names and values; "
        "the CONNECT request a ProxyManager sends for an https URL with hostile text in the host, the port given or not, and in proxy header names and values; "
        "non-trivial = some hostile character present; distinct = distinct (case, observation)")
TRUSTED_BASE = [
    "model coq/model/ReqHead.v (HTTPConnection.request / putrequest / putheader and, below them, http.client's validation and output of Python 3.12) with coq/model/Url.v for the target",
    "the reader the theorems use is a strict CRLF reader with obs-fold; what lenient servers make of a bare LF or CR inside a folded value is outside",
    "the model covers the head; requests with a body are read back by the oracle's own strict reader (head, then exactly the declared length or a well-formed chunked body carrying exactly the payload, and nothing after it)",
    "model coq/model/Tunnel.v: HTTPConnection.set_tunnel's checks with the character classes regenerated from the source, and, transcribed by hand, http.client's set_tunnel/_tunnel of CPython 3.12 (Host field added when absent, fields written as 'name: value' in latin-1); IDNA hosts and bracketed IPv6 literals are judged by the oracle only",
    "model coq/model/Tunnel.v: HTTP2Connection.putheader with the name class and its end anchor regenerated from the source; the value pattern is pinned as text and transcribed by hand; what h2 does with the kept fields is outside",
]
ASSUMPTIONS = ["header names are distinct case-insensitively", "the model takes str inputs; header names given as bytes are judged by the oracle's reader only"]
EXHAUSTIVE = {"quick": False, "thorough": False}
CASE_TIMEOUT = 30


def ua():
    import urllib3.connection as uc
    return uc._get_default_user_agent()


def encode(case):
    if case["level"] == 4:
        (n, v), = case["headers"]
        return [4, S(n), S(v), [], S(ua())]
    return [case["level"], S(case["method"]), S(case["url"]), [[S(n), S(v)] for n, v in case["headers"]], S(ua())]


def describe(case):
    d = dict(case)
    if d.get("body"):
        d["body"] = [d["body"][0], repr(d["body"][1])]
    return d


def in_model_domain(case):
    if case["level"] == 5:
        # the model has neither IDNA nor bracketed IPv6 literals, and takes proxy header names as distinct
        h = case["thost"]
        labels = h.split(".")
        return (all(ord(c) < 128 for c in h) and "[" not in h and "]" not in h and all(1 <= len(l) <= 63 for l in labels[:-1]) and len(labels[-1]) <= 63
                and len(h) > 0 and len({n.lower() for n, v in case["headers"]}) == len(case["headers"]))
    return not case.get("body") and not case.get("then") and not case.get("bnames")


def payload_of(body):
    kind, v = body
    if kind == "iter":
        return b"".join(x.encode("utf-8") if isinstance(x, str) else bytes(x) for x in v if x)
    return v.encode("utf-8") if isinstance(v, str) else bytes(v)


_STASH = {}


def impl(case):
    import http.client
    import urllib3
    from urllib3.connection import HTTPConnection
    from urllib3.connectionpool import HTTPConnectionPool
    from netsim.fakesock import installed, Net, Peer, http_response

    sent = bytearray()

    class Net10(Net):
        def connect(self, sock, host, port):
            def on_data(peer, data):
                sent.extend(data)
                if b"\r\n\r\n" in bytes(sent) and not getattr(peer, "answered", False):
                    peer.answered = True
                    if case["level"] == 5:
                        peer.send(http_response(403, "Forbidden", [("Connection", "close")], b""))
                        peer.eof()
                    elif case.get("body"):
                        peer.send(http_response(200, "OK", [], b"ok"))          # the body is still being written
                    else:
                        peer.send(http_response(200, "OK", [("Connection", "close")], b"ok"))
                        peer.eof()
            return Peer(on_data)

    net = Net10()
    problems = []
    headers = {n: v for n, v in case["headers"]}
    if case.get("bnames"):
        # header names given as bytes (supported: http.client takes them, urllib3 decodes them to look for Host / Accept-Encoding / User-Agent)
        try:
            headers = {n.encode("latin-1"): v for n, v in case["headers"]}
        except UnicodeEncodeError:
            pass
    out = None
    kw = {}
    if case.get("body"):
        kind, v = case["body"]
        kw["body"] = iter(list(v)) if kind == "iter" else v
    with installed(net):
        try:
            if case["level"] == 1 and case.get("then"):
                c = HTTPConnection("h.example", 80)
                try:
                    c.request(case["method"], case["url"], headers=headers, **kw)
                    c.getresponse()
                except (ValueError, http.client.HTTPException, UnicodeEncodeError):
                    pass
                c.close()
                del sent[:]
                t = case["then"]
                c.request(t["method"], t["url"], headers={n: v for n, v in t["headers"]})
                c.getresponse()
            elif case.get("then"):
                # the same through a pool / a manager: whatever object carried the failed call, the next call writes its own request only
                t = case["then"]
                if case["level"] == 2:
                    p = HTTPConnectionPool("h.example", 80, maxsize=1)
                    call = lambda m, u, h, **k: p.urlopen(m, u, headers=h, retries=False, redirect=False, **k)
                else:
                    pm = urllib3.PoolManager(maxsize=1)
                    call = lambda m, u, h, **k: pm.request(m, "http://h.example" + u, headers=h, retries=False, redirect=False, **k)
                try:
                    call(case["method"], case["url"], headers, **kw)
                except (ValueError, TypeError, http.client.HTTPException, urllib3.exceptions.HTTPError):
                    pass
                del sent[:]
                call(t["method"], t["url"], {n: v for n, v in t["headers"]})
            elif case["level"] == 1:
                c = HTTPConnection("h.example", 80)
                c.request(case["method"], case["url"], headers=headers, **kw)
                c.getresponse()
            elif case["level"] == 4:
                from urllib3.http2.connection import HTTP2Connection
                c = HTTP2Connection("h.example", 443)
                (name, value), = case["headers"]
                if case.get("bvalue"):
                    value = value.encode("utf-8")          # the same value handed over as bytes: the same checks apply
                c.putheader(name, value)
                kept = list(c._headers)
                _STASH[("h2", id(case))] = kept
                out = [0, list(kept[-1][0]) if kept else []]
            elif case["level"] == 5:
                pm = urllib3.ProxyManager("http://proxy.example:3128", proxy_headers=headers)
                try:
                    pm.request("GET", case["url"], retries=False, redirect=False)
                    problems.append("the request went on although the proxy refused the tunnel")
                except urllib3.exceptions.ProxyError:
                    pass
            elif case["level"] == 2:
                p = HTTPConnectionPool("h.example", 80)
                p.urlopen(case["method"], case["url"], headers=headers, retries=False, redirect=False, **kw)
            else:
                pm = urllib3.PoolManager()
                pm.request(case["method"], "http://h.example" + case["url"], headers=headers, retries=False, redirect=False, **kw)
            if out is None:
                out = [0, list(bytes(sent))]
        except http.client.InvalidURL:
            out = [1, 2]
        except UnicodeEncodeError:
            out = [1, 3]
        except urllib3.exceptions.LocationParseError:
            out = [1, 4]
        except ValueError:
            out = [1, 1]
        except urllib3.exceptions.HTTPError as e:
            out = [1, 5]
            problems.append("the call failed with %s after writing %d bytes" % (type(e).__name__, len(sent)))
        except Exception as e:
            out = [1, 6]
            problems.append("a raw %s: %s" % (type(e).__name__, str(e)[:80]))
    if out[0] == 1 and sent:
        problems.append("the call failed but %d bytes had been written" % len(sent))
    _STASH[id(case)] = (problems, bytes(sent))
    return out


# ---------------------------------------------------------------- oracle: an independent strict reader
def read_head(w):
    """(method, target, [(name, value)]) of the single request in w, or None"""
    end = w.find(b"\r\n\r\n")
    if end < 0:
        return None
    raw = w[:end].split(b"\r\n")
    lines = []
    for ln in raw:
        if lines and ln[:1] in (b" ", b"\t"):
            lines[-1] += b"\r\n" + ln
        else:
            lines.append(ln)
    parts = lines[0].split(b" ")
    if len(parts) != 3 or parts[2] != b"HTTP/1.1":
        return None
    hs = []
    for ln in lines[1:]:
        n, sep, v = ln.partition(b": ")
        if not sep or b":" in n:
            return None
        hs.append((n, v))
    return parts[0], parts[1], hs


def read_chunked_exactly(b):
    """the payload of a chunked body that fills b exactly (sizes in plain hexadecimal, no extensions, no trailers), or None"""
    out = b""
    i = 0
    while True:
        j = b.find(b"\r\n", i)
        if j < 0:
            return None
        size = b[i:j]
        if not size or any(c not in b"0123456789abcdefABCDEF" for c in size):
            return None
        n = int(size, 16)
        if n == 0:
            return out if b[j:] == b"\r\n\r\n" else None
        data = b[j + 2:j + 2 + n]
        if len(data) != n or b[j + 2 + n:j + 4 + n] != b"\r\n":
            return None
        out += data
        i = j + 4 + n


def pct_decode(b):
    out = bytearray()
    i = 0
    while i < len(b):
        if b[i:i + 1] == b"%" and len(b) >= i + 3 and all(c in b"0123456789abcdefABCDEF" for c in b[i + 1:i + 3]):
            out.append(int(b[i + 1:i + 3], 16))
            i += 3
        else:
            out.append(b[i])
            i += 1
    return bytes(out)


def oracle(case, obs):
    problems, sent = _STASH.pop(id(case), ([], b""))
    if problems:
        return problems[0]
    if case["level"] == 4:
        return oracle_h2(case, obs, _STASH.pop(("h2", id(case)), []))
    if case["level"] == 5:
        return oracle_tunnel(case, obs, sent)
    if case.get("then"):
        # what the second call on the same connection object wrote must be that request and nothing else
        t = case["then"]
        if obs[0] != 0:
            return None
        r = read_head(sent)
        first_line = sent.split(b"\r\n", 1)[0]
        want_line = ("%s %s HTTP/1.1" % (t["method"], t["url"])).encode("latin-1")
        if first_line != want_line or r is None or sent.count(b" HTTP/1.1\r\n") != 1:
            return "after a failed request() on the same connection object the next request() wrote more than its own request: %r" % sent[:160]
        return None
    if obs[0] != 0:
        return None
    r = read_head(sent)
    if r is None:
        return "the bytes written are not exactly one HTTP/1.1 request head: %r" % sent[:120]
    method, target, hs = r
    after_head = sent[sent.find(b"\r\n\r\n") + 4:]
    body = case.get("body")
    framing = None
    if body:
        payload = payload_of(body)
        if body[0] == "iter":
            framing = (b"Transfer-Encoding", b"chunked")
            got = read_chunked_exactly(after_head)
            if got is None:
                return "what follows the head is not one well-formed chunked body ending the request: %r" % after_head[:100]
            if got != payload:
                return "the chunked body carries %d bytes, the caller's chunks are %d bytes" % (len(got), len(payload))
        else:
            framing = (b"Content-Length", str(len(payload)).encode())
            if after_head != payload:
                return "the %d bytes after the head are not the caller's %d body bytes" % (len(after_head), len(payload))
    elif after_head:
        return "bytes follow the head of a request without a body: %r" % after_head[:100]
    want_method = case["method"].upper() if case["level"] == 3 else case["method"]
    if not case["method"].isascii():
        return "the non-ASCII method %r was written, as the token %r" % (case["method"], method)
    try:
        if method != want_method.encode("ascii"):
            return "the request line's method is %r, requested %r" % (method, want_method)
    except UnicodeEncodeError:
        return "a non-ASCII method was written"
    if any(c in target for c in (b" ", b"\r", b"\n", b"\x00")) or (b"#" in target and case["level"] != 1):
        return "the request target contains an illegal character: %r" % target
    # the target is the requested one: percent-decoded, it is the requested URL's bytes (fragment dropped, "" read as "/")
    if case["level"] != 1:
        for i in range(len(target)):
            if target[i:i + 1] == b"%" and not (len(target) >= i + 3 and all(c in b"0123456789abcdefABCDEF" for c in target[i + 1:i + 3])):
                return "the request target has a malformed percent-escape: %r" % target
        asked = case["url"].split("#")[0]
        if not asked.startswith("/"):
            asked = "/" + asked
        try:
            # (when some '%' of the URL is no escape, urllib3 takes every '%' literally and only normalises the case of what looks like one)
            askedb = asked.encode("utf-8")
            if pct_decode(target) != pct_decode(askedb) and pct_decode(target).lower() != askedb.lower():
                return "the request target %r does not stand for the requested %r" % (target, asked)
        except UnicodeEncodeError:
            pass
    given = [(n, v) for n, v in case["headers"] if v != "@@@SKIP_HEADER@@@"]
    names_given = {n.lower() for n, v in case["headers"]}
    auto = []
    if "host" not in names_given:
        auto.append((b"Host", b"h.example"))
    if "accept-encoding" not in names_given:
        auto.append((b"Accept-Encoding", b"identity"))
    if framing is not None:
        auto.append(framing)
    elif want_method.upper() not in ("GET", "HEAD", "DELETE", "TRACE", "OPTIONS", "CONNECT"):
        auto.append((b"Content-Length", b"0"))
    if "user-agent" not in names_given:
        auto.append((b"User-Agent", ua().encode()))
    try:
        want = auto + [(n.encode("ascii"), v.encode("latin-1")) for n, v in given]
    except UnicodeEncodeError:
        return "a header that cannot be encoded was written"
    if hs != want:
        extra = [h for h in hs if h not in want]
        return "the header lines on the wire are not the requested ones (unexpected: %r)" % (extra[:2],)
    return None


H2_NAME_BYTES = b"!#$%&'*+-.^_`|~0123456789abcdefghijklmnopqrstuvwxyz"


def oracle_h2(case, obs, kept):
    """RFC 9113 8.2.1: a field name that is kept is a lower-case token, a value has no NUL/CR/LF and no SP/HTAB at either end"""
    (name, value), = case["headers"]
    if obs[0] != 0:
        if kept:
            return "putheader raised but kept %r" % (kept[:1],)
        return None
    if len(kept) != 1:
        return "putheader kept %d fields for one name and one value" % len(kept)
    n, v = kept[0]
    if not n or any(b not in H2_NAME_BYTES for b in n):
        return "HTTP/2 putheader kept the illegal field name %r" % n
    if any(b in b"\x00\r\n" for b in v) or v[:1] in (b" ", b"\t") or v[-1:] in (b" ", b"\t"):
        return "HTTP/2 putheader kept the illegal field value %r" % v
    if n != name.encode("utf-8").lower() or v != value.encode("utf-8"):
        return "HTTP/2 putheader kept (%r, %r), not the requested field" % (n, v)
    return None


DELIMS = set("/?#@:[]\\%")


def oracle_tunnel(case, obs, sent):
    """what the proxy read is exactly one CONNECT request for the requested host and port, with the caller's proxy headers and a Host line"""
    if obs[0] != 0 or not sent:
        return None
    if not sent.endswith(b"\r\n\r\n") or sent.count(b"\r\n\r\n") != 1:
        return "what the proxy reads is not one request head: %r" % sent[:160]
    lines = sent[:-4].split(b"\r\n")
    parts = lines[0].split(b" ")
    if len(parts) != 3 or parts[0] != b"CONNECT" or parts[2] != b"HTTP/1.1" or any(b <= 0x20 or b == 0x7f for b in parts[1]):
        return "the CONNECT request line is not 'CONNECT host:port HTTP/1.1': %r" % lines[0][:120]
    h = case["thost"]
    plain = all(ord(c) < 128 for c in h) and not (set(h) & DELIMS)
    want_auth = ("%s:%d" % (h.lower(), case.get("tport") or 443)).encode("latin-1", "replace")
    if plain and parts[1] != want_auth:
        return "the CONNECT target is %r, requested %r" % (parts[1], want_auth)
    try:
        want = [n.encode("latin-1") + b": " + v.encode("latin-1") for n, v in case["headers"]]
    except UnicodeEncodeError:
        return "proxy headers that cannot be encoded were written"
    if not any(n.lower() == "host" for n, v in case["headers"]):
        want.append(b"Host: " + parts[1])
    if lines[1:] != want:
        extra = [l for l in lines[1:] if l not in want]
        return "the header lines of the CONNECT request are not the requested proxy headers (unexpected: %r)" % (extra[:2],)
    for n, v in case["headers"]:
        if not n or any(c in n for c in " \t\r\n:\x00") or any(c in v for c in "\r\n\x00"):
            return "a proxy header that is no header line was written: %r" % ((n, v),)
    return None


def signature(case, obs, msg):
    if (msg or "").startswith("the non-ASCII method") and case["level"] == 3:
        return {"kind": "non-ascii-method-upper-cased-to-an-ascii-token"}
    if case.get("then") and case["level"] == 1 and "after a failed request()" in (msg or ""):
        return {"kind": "stale-buffer-after-failed-request"}
    return {"msg": (msg or "")[:50]}


HOSTILE = ["\r", "\n", "\r\n", "\x00", "\x7f", " ", "\t", ":", "é", "€", "%0d%0a", "\r\nX-Injected: 1", "\r\n\r\nGET /evil HTTP/1.1\r\nHost: evil\r\n\r\n",
           "\r\n folded", "\n\tfolded", "\r ", "\r\n", "\n ", "#frag", "?q", "\x0b", "\x1f", "\\"]


def nontrivial(case, obs):
    text = case["method"] + case["url"] + "".join(n + v for n, v in case["headers"])
    if case.get("body"):
        return hashlib.sha1(repr((case, obs)).encode()).hexdigest()[:16]
    if not any(h in text for h in HOSTILE):
        return None
    return hashlib.sha1(repr((case, obs)).encode()).hexdigest()[:16]


def histogram(cases, obss):
    h = {"level": {}, "outcome": {}}
    names = {1: "ValueError", 2: "InvalidURL", 3: "UnicodeEncodeError", 4: "LocationParseError", 5: "urllib3 error", 6: "raw"}
    for c, o in zip(cases, obss):
        h["level"][c["level"]] = h["level"].get(c["level"], 0) + 1
        k = "written" if o and o[0] == 0 else names.get(o[1] if o else None)
        h["outcome"][k] = h["outcome"].get(k, 0) + 1
    return h


# ---------------------------------------------------------------- generators
METHODS = ["GET", "POST", "get", "PATCH", "M-SEARCH", "X_Y.Z", "", "po\u017ft", "GE\u0131", "\ufb06op", "ma\u00df"]
UPPER_TO_ASCII = {0xdf: "SS", 0x131: "I", 0x17f: "S", 0xfb00: "FF", 0xfb01: "FI", 0xfb02: "FL", 0xfb03: "FFI", 0xfb04: "FFL", 0xfb05: "ST", 0xfb06: "ST"}


def precondition():
    """the model's table of non-ASCII code points whose str.upper() is pure ASCII is this interpreter's"""
    t = {cp: chr(cp).upper() for cp in range(128, 0x110000) if not (0xd800 <= cp < 0xe000) and chr(cp).upper().isascii()}
    assert t == UPPER_TO_ASCII, t
PATHS = ["/", "/a/b", "/a%20b", "", "/x?y=1", "/x#frag", "/é"]
NAMES = ["X-A", "Accept", "Host", "User-Agent", "Accept-Encoding", "x-b", "Cookie", "X-C"]
VALUES = ["1", "a b", "", "text/html", "é", "a\tb", "@@@SKIP_HEADER@@@", "a\r\n b", "a\n\tb"]


def spice(rng, s, p=0.3):
    if rng.random() < p:
        i = rng.randint(0, len(s))
        return s[:i] + rng.choice(HOSTILE) + s[i:]
    return s


def one_case(rng):
    level = rng.choice([1, 2, 3])
    method = spice(rng, rng.choice(METHODS), 0.15)
    url = spice(rng, rng.choice(PATHS), 0.3)
    if level == 2 and not url.startswith("/"):
        url = "/" + url
    if level == 3 and url[:1] not in ("/", "?", "#", ""):
        url = "/" + url          # keep the hostile text out of the authority (C14 / C15 cover that)
    hs = []
    used = set()
    for _ in range(rng.choice([0, 1, 2, 3])):
        n = rng.choice(NAMES)
        if n.lower() in used:
            continue
        used.add(n.lower())
        n2 = spice(rng, n, 0.15)
        if n2.lower() in used and n2 != n:
            continue
        used.add(n2.lower())
        hs.append([n2, spice(rng, rng.choice(VALUES), 0.3)])
    return {"level": level, "method": method, "url": url, "headers": hs}


SMUGGLE = "\r\n0\r\n\r\nGET /admin HTTP/1.1\r\nHost: h\r\n\r\n"
BODY_TEXTS = ["plain", "", "é", "€uro", "é" * len(SMUGGLE) + "xx" + SMUGGLE, "é" * 3 + "\r\n0\r\n\r\n", "a\r\nb", "0\r\n\r\n", SMUGGLE,
              "\u00e9\u00e9\r\n", "x" * 17, "\U0001f600" * 4 + SMUGGLE]


def rand_body(rng):
    k = rng.random()
    if k < 0.25:
        return ["bytes", rng.choice(BODY_TEXTS).encode("utf-8")]
    if k < 0.5:
        return ["str", rng.choice(BODY_TEXTS)]
    chunks = []
    for _ in range(rng.randint(1, 3)):
        t = rng.choice(BODY_TEXTS)
        chunks.append(t if rng.random() < 0.7 else t.encode("utf-8"))
    return ["iter", chunks]


def cases(rng, tier):
    precondition()
    out = []
    for level in (1, 2, 3):
        for m in METHODS[7:] + ["\u017f", "\ufb03", "s\u0131"]:
            out.append({"level": level, "method": m, "url": "/a", "headers": []})
    # bodies: every text as bytes, as str and as a chunk of an iterable, at every level
    for level in (1, 2, 3):
        for method in ("POST", "GET"):
            for t in BODY_TEXTS:
                base = {"level": level, "method": method, "url": "/a/b", "headers": [["X-A", "val"]]}
                out.append(dict(base, body=["bytes", t.encode("utf-8")]))
                out.append(dict(base, body=["str", t]))
                out.append(dict(base, body=["iter", [t]]))
                out.append(dict(base, body=["iter", ["head", t, b"tail"]]))
    for _ in range(1000 if tier == "quick" else 30000):
        c = one_case(rng)
        c["body"] = rand_body(rng)
        out.append(c)
    # header names given as bytes: the automatic fields still appear only when the caller neither supplied nor suppressed them
    for level in (1, 2, 3):
        for name in ("Host", "host", "User-Agent", "USER-AGENT", "Accept-Encoding", "accept-encoding", "X-A"):
            for value in ("v", "@@@SKIP_HEADER@@@", "a\r\nX: 1", ""):
                for method in ("GET", "POST"):
                    base = {"level": level, "method": method, "url": "/a/b", "headers": [[name, value], ["X-B", "1"]], "bnames": True}
                    out.append(base)
                    if value == "v":
                        out.append(dict(base, body=["bytes", b"payload"]))
                        out.append(dict(base, body=["iter", ["pay", "load"]]))
    for _ in range(600 if tier == "quick" else 15000):
        c = one_case(rng)
        c["bnames"] = True
        if rng.random() < 0.3:
            c["body"] = rand_body(rng)
        out.append(c)
    # a connection object used again after a failed request(): every way the first request can fail part-way
    nxt = {"method": "GET", "url": "/second", "headers": [["X-Next", "1"]]}
    for bad in (["X-B", "bad\r\nvalue"], ["X-B", "bad\nvalue"], ["X B", "v"], ["X-B:", "v"], ["X-B", "v\x00"], ["X-\u00e9", "v"], ["X-B", "\u20ac"]):
        for before in ([], [["X-A", "1"]], [["X-A", "1"], ["Accept", "*/*"]]):
            out.append({"level": 1, "method": "GET", "url": "/first", "headers": before + [bad], "then": dict(nxt)})
    for m, u in (("GET", "/a b"), ("G ET", "/first"), ("GET", "/first\r\nX: 1"), ("POST", "/\u00e9")):
        out.append({"level": 1, "method": m, "url": u, "headers": [["X-A", "1"]], "then": dict(nxt)})
    for level in (2, 3):
        for bad in (["X-B", "bad\r\nvalue"], ["X B", "v"], ["X-\u00e9", "v"], ["X-B", "\u20ac"]):
            for before in ([], [["X-Secret", "s3cr3t"]]):
                for m in ("GET", "DELETE", "POST"):
                    out.append({"level": level, "method": m, "url": "/first", "headers": before + [bad], "then": dict(nxt)})
    for _ in range(200 if tier == "quick" else 4000):
        c = one_case(rng)
        c["level"] = rng.choice([2, 3])
        if not c["url"].startswith("/"):
            c["url"] = "/" + c["url"]
        c["then"] = dict(nxt)
        out.append(c)
    for _ in range(200 if tier == "quick" else 4000):
        c = one_case(rng)
        c["level"] = 1
        c["then"] = dict(nxt)
        out.append(c)
    # every hostile string at every insertion point of method, url, one header name and one header value
    for level in (1, 2, 3):
        for hst in HOSTILE:
            for base, field in (("GET", "method"), ("/a/b", "url"), ("X-A", "name"), ("val", "value")):
                for i in range(len(base) + 1):
                    s = base[:i] + hst + base[i:]
                    c = {"level": level, "method": "GET", "url": "/a/b", "headers": [["X-A", "val"]]}
                    if field == "method":
                        c["method"] = s
                    elif field == "url":
                        c["url"] = s if (level == 1 or s[:1] in ("/",) or (level == 3 and s[:1] in ("?", "#"))) else "/" + s
                    elif field == "name":
                        c["headers"] = [[s, "val"]]
                    else:
                        c["headers"] = [["X-A", s]]
                    out.append(c)
    for _ in range(8000 if tier == "quick" else 200000):
        out.append(one_case(rng))
    # HTTP/2 header validity: every hostile string at every position of a name and of a value, then random ones
    def h2case(n, v):
        return {"level": 4, "method": "", "url": "", "headers": [[n, v]]}
    for hst in HOSTILE + ["A", "Z", "\x80", "\xff", "~", "|", "(", ")", ",", ";", "=", "\"", "{", "@", "[", "/"]:
        for base, field in (("x-foo", "name"), ("val", "value"), ("", "name"), ("", "value")):
            for i in range(len(base) + 1):
                t = base[:i] + hst + base[i:]
                out.append(h2case(t, "val") if field == "name" else h2case("x-foo", t))
    for n in NAMES + ["", "x_y", "X-FOO", ":path", "x-\u212a"]:
        for v in VALUES + [" lead", "trail ", "\ttab", "tab\t", "mid dle", "\u00e9\n"]:
            out.append(h2case(n, v))
    for _ in range(1500 if tier == "quick" else 40000):
        out.append(h2case(spice(rng, spice(rng, rng.choice(NAMES), 0.4), 0.2), spice(rng, spice(rng, rng.choice(VALUES), 0.4), 0.2)))
    for c in [c for c in out if c["level"] == 4][::3]:
        out.append(dict(c, bvalue=True))
    # the CONNECT request through a proxy: hostile text in the host of an https URL and in the proxy headers
    def tcase(h, port, hs):
        return {"level": 5, "method": "GET", "thost": h, "tport": port, "url": "https://" + h + (":%d" % port if port else "") + "/a", "headers": hs}
    PH = [["Proxy-Authorization", "Basic dTpw"], ["X-P", "v"]]
    for hst in HOSTILE:
        for base in ("dest.example", "Dest.Example", "10.0.0.1"):
            for i in range(len(base) + 1):
                out.append(tcase(base[:i] + hst + base[i:], None, []))
                out.append(tcase(base[:i] + hst + base[i:], 8443, [list(PH[0])]))
        for base, field in (("X-P", "name"), ("v1", "value")):
            for i in range(len(base) + 1):
                t = base[:i] + hst + base[i:]
                out.append(tcase("dest.example", None, [list(PH[0]), [t, "v1"] if field == "name" else ["X-P", t]]))
    for h in (":1#frag", "?q", "#f", "/p", "@", ":", ":8443", "u@", "u:p@:1"):
        out.append(tcase(h, None, []))          # no host left once the URL is split
    for hs in ([], [["Host", "other.example"]], [["host", "x"], ["X-P", "v"]], [["", "v"]], [["X-P", ""]], [["X-P", "\u00e9"]], [["X-P", "\u20ac"]], [["X-\u00e9", "v"]]):
        out.append(tcase("dest.example", None, hs))
        out.append(tcase("dest.example", 8443, hs))
    for _ in range(1500 if tier == "quick" else 40000):
        hs = []
        for n in rng.sample(["Proxy-Authorization", "X-P", "Host", "User-Agent", "x-q"], rng.randint(0, 3)):
            hs.append([spice(rng, n, 0.2), spice(rng, rng.choice(VALUES[:6] + ["Basic dTpw"]), 0.3)])
        out.append(tcase(spice(rng, spice(rng, rng.choice(["dest.example", "Dest.Example", "a.b.c", "10.0.0.1", "x"]), 0.5), 0.2), rng.choice([None, None, 8443, 80]), hs))
    return out


def shrinks(case):
    for i in range(len(case["headers"])):
        c = dict(case); c["headers"] = case["headers"][:i] + case["headers"][i + 1:]
        yield c
