"""C08 — certificate name and fingerprint matching accept exactly what the rules allow.

case kinds
  {"kind":"host","san":[["DNS",v]|["IP",v]|["other"]],"cn":[v...],"host":h,"checks_cn":0|1}
      -> urllib3.connection._match_hostname on a decoded-certificate dict
  {"kind":"fp","cert":hex,"pin":str} -> urllib3.util.ssl_.assert_fingerprint
ipaddress.ip_address / is_ipaddress / hashlib answers are recorded and handed to the model as oracle tables."""
from __future__ import annotations

import hashlib
import ipaddress
import itertools

from sexp import S, B, Opt

ID = "C08"
GEN = ["Gen_Tls"]
RULE = ("SAN lists (<=3 entries) and hosts built from the label alphabet {a,b,ab,*,a*,*a,a*b,**,xn--a,xn--*,''} with 1-4 labels, "
        "derived from the host by exact copy / case change / wildcarding / mutation, IPv4/IPv6 spellings, commonName on/off; pins derived "
        "from the true digests of every hashlib algorithm by case change, colon insertion, nibble flips, truncation, extension; "
        "non-trivial = not (empty SAN and no CN); distinct = distinct case")
TRUSTED_BASE = [
    "model coq/model/HostMatch.v replaces the regular expressions built by _dnsname_match by the label-wise matcher they denote (ASCII case folding only)",
    "oracles: ipaddress.ip_address, urllib3.util.ssl_.is_ipaddress, hashlib digests (answers recorded from the running interpreter and replayed)",
]
ASSUMPTIONS = ["names are ASCII (Unicode case folding of re.IGNORECASE / str.lower is not modelled)"]
EXHAUSTIVE = {"quick": False, "thorough": False}

ALGS = sorted(a for a in hashlib.algorithms_guaranteed if not a.startswith("shake"))


def describe(case):
    return case


def _queries(case):
    h = case["host"]
    qs = set()
    for x in (h, h.strip("[]")):
        qs.add(x)
        if "%" in x:
            qs.add(x[: x.rfind("%")])
    for e in case["san"]:
        if e[0] == "IP":
            qs.add(e[1].rstrip())
    return sorted(qs)


def _ip(s):
    try:
        return ipaddress.ip_address(s).packed
    except ValueError:
        return None


def encode(case):
    if case["kind"] == "host":
        from urllib3.util.ssl_ import is_ipaddress
        san = []
        for e in case["san"]:
            if e[0] == "DNS":
                san.append([0, S(e[1])])
            elif e[0] == "IP":
                san.append([1, S(e[1])])
            else:
                san.append([2])
        ipt = []
        for q in _queries(case):
            p = _ip(q)
            ipt.append([S(q), Opt(p, lambda b: list(b))])
        return [0, san, [S(v) for v in case["cn"]], S(case["host"]), B(case["checks_cn"]), ipt,
                B(bool(is_ipaddress(case["host"].strip("[]"))))]
    cert = bytes.fromhex(case["cert"])
    digests = [[S(a), list(hashlib.new(a, cert).digest())] for a in ALGS]
    return [1, digests, S(case["pin"])]


def impl(case):
    if case["kind"] == "host":
        from urllib3.connection import _match_hostname
        from urllib3.util.ssl_match_hostname import CertificateError
        san = []
        for e in case["san"]:
            if e[0] == "DNS":
                san.append(("DNS", e[1]))
            elif e[0] == "IP":
                san.append(("IP Address", e[1]))
            else:
                san.append(("URI", "http://x/"))
        cert = {"subjectAltName": tuple(san), "subject": tuple((("commonName", v),) for v in case["cn"]), "version": 3}
        import logging
        logging.disable(logging.CRITICAL)
        try:
            _match_hostname(cert, case["host"], bool(case["checks_cn"]))
            return 0
        except CertificateError:
            return 1
        except ValueError:
            return 2
    from urllib3.util.ssl_ import assert_fingerprint
    from urllib3.exceptions import SSLError
    try:
        assert_fingerprint(bytes.fromhex(case["cert"]), case["pin"])
        return 0
    except SSLError:
        return 1
    except Exception:
        return 2


# ---------------------------------------------------------------- oracle: three-valued RFC 6125 reference
def _lower(s):
    return "".join(chr(ord(c) + 32) if "A" <= c <= "Z" else c for c in s)


def dns_verdict(dn, host):
    """'must' (must accept), 'may' (legacy partial wildcard: either), 'no' (must reject)"""
    if not dn:
        return "no"
    labels = dn.split(".")
    hl = host.split(".")
    if "*" not in dn:
        return "must" if _lower(dn) == _lower(host) else "no"
    if any("*" in l for l in labels[1:]):
        return "no"                                  # wildcard outside the left-most label
    lm = labels[0]
    if lm.count("*") > 1:
        return "no"
    if len(hl) != len(labels):
        return "no"                                  # a wildcard never spans a dot
    if [_lower(x) for x in labels[1:]] != [_lower(x) for x in hl[1:]]:
        return "no"
    if lm == "*":
        return "must" if hl[0] != "" else "no"
    if _lower(lm).startswith("xn--") or _lower(host).startswith("xn--"):
        return "no"                                  # no wildcards inside / against A-labels
    pre, post = lm.split("*")
    h0 = hl[0]
    if len(h0) >= len(pre) + len(post) and _lower(h0).startswith(_lower(pre)) and _lower(h0).endswith(_lower(post)):
        return "may"
    return "no"


def oracle(case, obs):
    if case["kind"] == "fp":
        cert = bytes.fromhex(case["cert"])
        f = case["pin"].replace(":", "")
        fl = _lower(f)
        expected = False
        for n, alg in ((32, "md5"), (40, "sha1"), (64, "sha256")):
            if len(fl) == n and fl == hashlib.new(alg, cert).hexdigest():
                expected = True
        if expected and obs != 0:
            return "a correct %d-digit pin was rejected" % len(fl)
        if not expected and obs == 0:
            return "pin %r accepted although it is not the md5/sha1/sha256 digest selected by its length (%d hex digits)" % (case["pin"][:24] + "...", len(fl))
        return None
    host = case["host"]
    h = host.strip("[]")
    from urllib3.util.ssl_ import is_ipaddress
    eff = h if is_ipaddress(h) else host
    hip = _ip(eff[: eff.rfind("%")] if "%" in eff else eff)
    if "*" in host:
        return None                                  # not a real host name: either-region
    dns = [e[1] for e in case["san"] if e[0] == "DNS"]
    ips = [e[1] for e in case["san"] if e[0] == "IP"]
    accepted = obs == 0
    if hip is not None:
        allowed = any(_ip(v.rstrip()) == hip for v in ips)
        if accepted and not allowed:
            return "IP host %r accepted without an IP SAN of equal address value" % host
        # must accept when an equal-valued IP entry exists and no earlier IP entry is malformed
        for e in case["san"]:
            if e[0] == "IP":
                p = _ip(e[1].rstrip())
                if p is None:
                    break
                if p == hip:
                    if not accepted:
                        return "IP SAN %r equals the host address but was rejected" % e[1]
                    break
        return None
    verdicts = [dns_verdict(d, eff) for d in dns]
    if accepted:
        if dns or ips:
            if not any(v in ("must", "may") for v in verdicts):
                return "host %r accepted although no SAN entry may match it (SAN %r)" % (host, case["san"])
        else:
            if not case["checks_cn"]:
                return "commonName used although it was not enabled"
            if case["san"]:
                return "commonName used although the certificate has a subjectAltName (URI entries only): RFC 6125 6.4.4 allows it only when no DNS-ID, SRV-ID or URI-ID is presented"
            if not any(dns_verdict(c, eff) in ("must", "may") for c in case["cn"]):
                return "host accepted through a commonName that does not match"
        return None
    # rejected: was there an entry that must be accepted, with no earlier aborting entry?
    several = None
    for e in case["san"]:
        if e[0] == "DNS":
            if e[1] and e[1].split(".")[0].count("*") > 1 and several is None:
                several = e[1]
            if dns_verdict(e[1], eff) == "must":
                if several is not None:
                    return "SAN entry %r must match host %r but the earlier entry %r with several wildcards made the matcher reject the certificate" % (e[1], host, several)
                return "SAN entry %r must match host %r but the certificate was rejected" % (e[1], host)
    return None


def signature(case, obs, msg):
    m = msg or ""
    if "with several wildcards made the matcher reject" in m:
        return {"kind": "matching-entry-after-entry-with-several-wildcards"}
    if m.startswith("commonName used although the certificate has a subjectAltName"):
        return {"kind": "common-name-used-beside-uri-san"}
    return {"kind": case["kind"], "msg": m[:40]}


def nontrivial(case, obs):
    if case["kind"] == "host" and not case["san"] and not case["cn"]:
        return None
    return hashlib.sha1(repr(case).encode()).hexdigest()[:16]


def histogram(cases, obss):
    h = {"kind": {}, "outcome": {}, "san_len": {}}
    for c, o in zip(cases, obss):
        h["kind"][c["kind"]] = h["kind"].get(c["kind"], 0) + 1
        h["outcome"]["%s:%s" % (c["kind"], o)] = h["outcome"].get("%s:%s" % (c["kind"], o), 0) + 1
        if c["kind"] == "host":
            n = len(c["san"])
            h["san_len"][n] = h["san_len"].get(n, 0) + 1
    return h


LABELS = ["a", "b", "ab", "*", "a*", "*a", "a*b", "**", "xn--a", "xn--*", "", "XN--*", "Xn--a*"]
HOSTLABELS = ["a", "b", "ab", "xn--a", "", "A", "aXb", "xn--ab", "XN--a", "Xn--AB"]
IPS = ["1.2.3.4", "01.2.3.4", "1.2.3.04", "::1", "[::1]", "0:0:0:0:0:0:0:1", "::0001", "fe80::1%eth0", "[fe80::1%25eth0]",
       "fe80::1", "1.2.3.4 ", "1.2.3", "::ffff:1.2.3.4", "1.2.3.5", "[1.2.3.4]", "256.1.1.1", "::1%", "%", "1.2.3.4%x",
       # the other family, same numeric value
       "::102:304", "::1.2.3.4", "0.0.0.1", "::", "0.0.0.0", "::102:305"]


def rand_name(rng, labels, maxl=4):
    return ".".join(rng.choice(labels) for _ in range(rng.randint(1, maxl)))


def swapcase_some(rng, s):
    return "".join(c.upper() if rng.random() < 0.4 else c for c in s)


def derive(rng, host):
    """a SAN DNS entry related to host"""
    r = rng.random()
    hl = host.split(".")
    if r < 0.15:
        return host
    if r < 0.3:
        return swapcase_some(rng, host)
    if r < 0.5:
        return ".".join(["*"] + hl[1:])
    if r < 0.6 and hl[0]:
        i = rng.randrange(len(hl[0]) + 1)
        j = rng.randrange(i, len(hl[0]) + 1)
        return ".".join([hl[0][:i] + "*" + hl[0][j:]] + hl[1:])
    if r < 0.7 and len(hl) > 1:
        k = rng.randrange(1, len(hl))
        return ".".join(hl[:k] + ["*"] + hl[k + 1:])
    if r < 0.75:
        return "*." + host
    if r < 0.8 and len(hl) > 2:
        return ".".join(["*"] + hl[2:])
    if r < 0.85:
        return ".".join(["*" + hl[0] + "*"] + hl[1:])
    return rand_name(rng, LABELS)


def host_case(rng):
    if rng.random() < 0.25:
        host = rng.choice(IPS)
        san = []
        for _ in range(rng.randint(0, 3)):
            r = rng.random()
            if r < 0.6:
                san.append(["IP", rng.choice(IPS + [host.strip("[]"), host.strip("[]").split("%")[0]])])
            elif r < 0.9:
                san.append(["DNS", rng.choice([host, host.strip("[]"), "*", rand_name(rng, LABELS)])])
            else:
                san.append(["other"])
    else:
        host = rand_name(rng, HOSTLABELS if rng.random() < 0.8 else LABELS)
        san = []
        for _ in range(rng.randint(0, 3)):
            r = rng.random()
            if r < 0.8:
                san.append(["DNS", derive(rng, host)])
            elif r < 0.9:
                san.append(["IP", rng.choice(IPS)])
            else:
                san.append(["other"])
    cn = [derive(rng, host) for _ in range(rng.choice([0, 0, 1, 1, 2]))]
    return {"kind": "host", "san": san, "cn": cn, "host": host, "checks_cn": rng.randrange(2)}


def pins_for(rng, cert, n):
    out = []
    for alg in ALGS:
        hx = hashlib.new(alg, cert).hexdigest()
        out.append(hx)
        out.append(hx.upper())
        out.append(":".join(hx[i:i + 2] for i in range(0, len(hx), 2)))
        out.append(swapcase_some(rng, hx))
    base = [hashlib.new(a, cert).hexdigest() for a in ("md5", "sha1", "sha256")]
    for hx in base:
        for _ in range(n):
            r = rng.random()
            i = rng.randrange(len(hx))
            if r < 0.3:
                c = "0123456789abcdef"[(int(hx[i], 16) + rng.randrange(1, 16)) % 16]
                out.append(hx[:i] + c + hx[i + 1:])
            elif r < 0.45:
                out.append(hx[:i])
            elif r < 0.6:
                out.append(hx + hx[: rng.randrange(1, 9)])
            elif r < 0.75:
                out.append(hx[:i] + ":" + hx[i:].upper())
            elif r < 0.85:
                out.append(hx[:i] + rng.choice("gz xG:") + hx[i + 1:])
            elif r < 0.92:
                out.append(hx + hx)
            else:
                out.append("")
    return out


def cases(rng, tier):
    return targeted() + _cases(rng, tier)


def _cases(rng, tier):
    out = []
    n = 20000 if tier == "quick" else 300000
    # systematic small ones: one SAN entry over the full alphabet (<= 2 labels) x hosts (<= 2 labels)
    names = [".".join(p) for k in (1, 2) for p in itertools.product(LABELS, repeat=k)]
    hosts = [".".join(p) for k in (1, 2) for p in itertools.product(["a", "b", "ab", "xn--a", "", "XN--a", "Xn--AB"], repeat=k)]
    pairs = list(itertools.product(names, hosts))
    if tier == "quick":
        pairs = rng.sample(pairs, 2500)
    for dn, h in pairs:
        out.append({"kind": "host", "san": [["DNS", dn]], "cn": [], "host": h, "checks_cn": 0})
    for _ in range(n):
        out.append(host_case(rng))
    ncert = 12 if tier == "quick" else 150
    for i in range(ncert):
        cert = bytes(rng.randrange(256) for _ in range(rng.randint(1, 64)))
        for p in pins_for(rng, cert, 8):
            out.append({"kind": "fp", "cert": cert.hex(), "pin": p})
    return out


def targeted():
    out = []
    for host in ("a.a", "b.a", "ab.b.a"):
        for bad in ("**.a", "a*b*.a", "*a*.a", "**"):
            for good in (host, host.upper(), "*." + host.split(".", 1)[1]):
                out.append({"kind": "host", "san": [["DNS", bad], ["DNS", good]], "cn": [], "host": host, "checks_cn": 0})
                out.append({"kind": "host", "san": [["DNS", good], ["DNS", bad]], "cn": [], "host": host, "checks_cn": 0})
                out.append({"kind": "host", "san": [["other"], ["DNS", bad], ["IP", "1.2.3.4"], ["DNS", good]], "cn": [], "host": host, "checks_cn": 1})
        for san in ([["other"]], [["other"], ["other"]], []):
            for cn in ([host], ["*." + host.split(".", 1)[1]], ["x." + host]):
                for chk in (0, 1):
                    out.append({"kind": "host", "san": san, "cn": cn, "host": host, "checks_cn": chk})
    # an iPAddress entry of the other family with the same numeric value
    for host, sans in (("1.2.3.4", ["::102:304", "::1.2.3.4", "::ffff:1.2.3.4", "1.2.3.4"]), ("::102:304", ["1.2.3.4", "::1.2.3.4"]), ("[::1]", ["0.0.0.1", "::1"]),
                       ("0.0.0.0", ["::", "0.0.0.0"]), ("::", ["0.0.0.0"]), ("[::1%25lo]", ["0.0.0.1"])):
        for v in sans:
            out.append({"kind": "host", "san": [["IP", v]], "cn": [], "host": host, "checks_cn": 0})
            out.append({"kind": "host", "san": [["DNS", "a.b"], ["IP", v + "\n"]], "cn": [host], "host": host, "checks_cn": 1})
    return out


def shrinks(case):
    if case["kind"] == "host":
        for i in range(len(case["san"])):
            c = dict(case); c["san"] = case["san"][:i] + case["san"][i + 1:]
            yield c
        for i in range(len(case["cn"])):
            c = dict(case); c["cn"] = case["cn"][:i] + case["cn"][i + 1:]
            yield c
