#!/venv/bin/python
"""Pipeline for one property check (DESIGN §2.2):
   regenerate Gen files -> make (proof obligations) -> extract model ->
   cases -> implementation vs model -> in-Coq confirmation -> oracle ->
   verdict -> evidence.

   usage: runner.py <ID> <quick|thorough> [--replay FILE]
   exit 0: property held on everything explored; 1: violation; 2: machinery trouble
"""
from __future__ import annotations

import fcntl
import glob
import hashlib
import importlib
import json
import multiprocessing
import os
import random
import re
import resource
import signal
import subprocess
import sys
import time
import traceback

VERIF = os.path.dirname(os.path.dirname(os.path.abspath(__file__)))
REPO = os.environ.get("VERIF_REPO", "/repo")
COQ = os.path.join(VERIF, "coq")
BUILD = os.path.join(VERIF, "build")
EVIDENCE_DIR = os.path.join(VERIF, "evidence")
ALT = None
if os.path.realpath(REPO) != "/repo":
    # a run against a scratch copy of the repository (used when trying code changes) gets its own
    # copy of the Coq tree and build directory, so that it cannot disturb checks of /repo itself
    import atexit
    import shutil
    ALT = os.path.join(BUILD, "alt", os.path.realpath(REPO).replace("/", "_") + "_%d" % os.getpid())
    os.makedirs(ALT, exist_ok=True)
    subprocess.run(["rsync", "-a", "--delete", COQ + "/", os.path.join(ALT, "coq") + "/"], check=True)
    COQ = os.path.join(ALT, "coq")
    BUILD = os.path.join(ALT, "build")
    EVIDENCE_DIR = os.path.join(ALT, "evidence")
    atexit.register(lambda: shutil.rmtree(ALT, ignore_errors=True))
sys.path.insert(0, os.path.join(REPO, "src"))
sys.path.insert(1, os.path.join(VERIF, "tools"))
os.environ.setdefault("PYTHONHASHSEED", "0")

import sexp  # noqa: E402
import translate  # noqa: E402

FORBIDDEN = re.compile(
    r"\b(Admitted|admit|Axiom|Axioms|Parameter|Parameters|Conjecture|bypass_check)\b"
    r"|Unset\s+Guard|Admit\s+Obligations|Unset\s+Positivity|Unset\s+Universe|type-in-type|impredicative-set"
)
NCPU = min(16, os.cpu_count() or 4)


def log(*a):
    print(*a, file=sys.stderr, flush=True)


def sh(cmd, timeout, cwd=None, env=None):
    t0 = time.time()
    try:
        p = subprocess.run(cmd, cwd=cwd, env=env, timeout=timeout, capture_output=True, text=True)
        return p.returncode, p.stdout, p.stderr, time.time() - t0
    except subprocess.TimeoutExpired as e:
        return 124, (e.stdout or b"").decode() if isinstance(e.stdout, bytes) else (e.stdout or ""), "TIMEOUT after %ss" % timeout, time.time() - t0


# --------------------------------------------------------------------------
# Coq build
# --------------------------------------------------------------------------
def coq_sources():
    out = []
    for d in ("lib", "gen", "model", "proofs", "props", "corr"):
        out += sorted(glob.glob(os.path.join(COQ, d, "*.v")))
    return [os.path.relpath(p, COQ) for p in out]


def refresh_makefile():
    head = "-Q . V\n-arg -w -arg -notation-overridden,-deprecated-hint-without-locality,-deprecated-instance-without-locality,-ambiguous-paths\n"
    body = head + "\n".join(coq_sources()) + "\n"
    proj = os.path.join(COQ, "_CoqProject")
    old = open(proj).read() if os.path.exists(proj) else ""
    if old != body or not os.path.exists(os.path.join(COQ, "Makefile")):
        with open(proj, "w") as f:
            f.write(body)
        rc, o, e, _ = sh(["coq_makefile", "-f", "_CoqProject", "-o", "Makefile"], 60, cwd=COQ)
        if rc != 0:
            raise RuntimeError("coq_makefile failed: " + e)


def forbidden_scan():
    hits = []
    for rel in coq_sources():
        txt = open(os.path.join(COQ, rel)).read()
        # strip comments (non-nested is enough: we do not nest)
        code = re.sub(r"\(\*.*?\*\)", " ", txt, flags=re.S)
        for m in FORBIDDEN.finditer(code):
            hits.append("%s: %s" % (rel, m.group(0)))
    return hits


def make_targets(targets, timeout):
    """Returns (ok, log_text, failing_file, error_text)."""
    lock = open(os.path.join(BUILD, ".lock"), "w")
    fcntl.flock(lock, fcntl.LOCK_EX)
    try:
        refresh_makefile()
        rc, o, e, dt = sh(["make", "-j%d" % NCPU, "-k"] + targets, timeout, cwd=COQ)
    finally:
        fcntl.flock(lock, fcntl.LOCK_UN)
    text = o + "\n" + e
    if rc == 0:
        return True, text, None, None
    m = re.search(r'File "\./([^"]+)", line (\d+), characters [\d-]+:\n(Error:.*?)(?:\n\n|\nmake|\Z)', text, flags=re.S)
    if m:
        return False, text, "%s:%s" % (m.group(1), m.group(2)), m.group(3)[:2000]
    return False, text, None, text[-2000:]


def prop_theorems(prop_rel):
    txt = open(os.path.join(COQ, prop_rel)).read()
    code = re.sub(r"\(\*.*?\*\)", " ", txt, flags=re.S)
    return [(m.group(2), txt[: m.start()].count("\n") + 1) for m in re.finditer(r"^(Theorem)\s+(\w+)", code, flags=re.M)]


def compile_prop(prop_rel, timeout):
    """Compile the property file on its own, capturing Print Assumptions."""
    rc, o, e, dt = sh(["coqc", "-Q", ".", "V", "-w", "-notation-overridden,-deprecated-hint-without-locality,-ambiguous-paths", prop_rel], timeout, cwd=COQ)
    return rc, o, e


def parse_assumptions(out):
    """Split coqc stdout into Print Assumptions blocks (in order)."""
    blocks = []
    cur = None
    for line in out.splitlines():
        if line.startswith("Closed under the global context"):
            blocks.append("Closed under the global context")
            cur = None
        elif line.startswith("Axioms:"):
            cur = [line]
            blocks.append(cur)
        elif cur is not None:
            cur.append(line)
    return ["\n".join(b) if isinstance(b, list) else b for b in blocks]


# --------------------------------------------------------------------------
# extracted model
# --------------------------------------------------------------------------
DRIVER_ML = r"""
let explode s = List.init (String.length s) (String.get s)
let implode l = let b = Buffer.create 256 in List.iter (Buffer.add_char b) l; Buffer.contents b
let () =
  try
    while true do
      let l = input_line stdin in
      print_string (implode (Model.run_line (explode l)));
      print_char '\n'
    done
  with End_of_file -> ()
"""


def build_extracted(pid, run_mod):
    """Extract V.corr.<run_mod>.run to OCaml and compile the driver. Returns binary path."""
    d = os.path.join(BUILD, "extract", pid)
    os.makedirs(d, exist_ok=True)
    vo = os.path.join(COQ, "corr", run_mod + ".vo")
    binp = os.path.join(d, "run_model")
    stamp = os.path.join(d, "stamp")
    h = hashlib.sha1(open(vo, "rb").read()).hexdigest()
    if os.path.exists(binp) and os.path.exists(stamp) and open(stamp).read() == h:
        return binp
    ev = os.path.join(d, "Extract.v")
    with open(ev, "w") as f:
        f.write(
            "From Coq Require Import Extraction ExtrOcamlBasic ExtrOcamlString String.\n"
            "From V Require Import lib.Sexp corr.%s.\n"
            "Definition run_line (s : string) : string := run_text %s.run s.\n"
            "Set Extraction Output Directory \".\".\n"
            'Extraction "model.ml" run_line.\n' % (run_mod, run_mod)
        )
    rc, o, e, _ = sh(["coqc", "-Q", COQ, "V", "-w", "-all", "Extract.v"], 300, cwd=d)
    if rc != 0:
        raise RuntimeError("extraction failed: " + o + e)
    with open(os.path.join(d, "driver.ml"), "w") as f:
        f.write(DRIVER_ML)
    rc, o, e, _ = sh(["ocamlfind", "ocamlopt", "-O2" if False else "-inline", "100", "-w", "-a", "model.mli", "model.ml", "driver.ml", "-o", "run_model"], 300, cwd=d)
    if rc != 0:
        raise RuntimeError("ocamlopt failed: " + o + e)
    with open(stamp, "w") as f:
        f.write(h)
    return binp


def _unlimit_stack():
    try:
        resource.setrlimit(resource.RLIMIT_STACK, (resource.RLIM_INFINITY, resource.RLIM_INFINITY))
    except Exception:
        pass


def run_model(binp, lines, timeout):
    """Run the extracted model on case lines, sharded over NCPU processes."""
    if not lines:
        return []
    n = min(NCPU, max(1, len(lines) // 20))
    shards = [lines[i::n] for i in range(n)]
    procs = []
    for sh_ in shards:
        p = subprocess.Popen([binp], stdin=subprocess.PIPE, stdout=subprocess.PIPE, stderr=subprocess.PIPE, text=True, preexec_fn=_unlimit_stack)
        procs.append(p)
    # feed in threads to avoid pipe deadlock
    import threading

    outs = [None] * n

    def feed(i):
        try:
            o, e = procs[i].communicate("\n".join(shards[i]) + "\n", timeout=timeout)
            outs[i] = o.split("\n")
            if outs[i] and outs[i][-1] == "":
                outs[i].pop()
            if procs[i].returncode != 0:
                outs[i] += ["MODEL-CRASH rc=%s %s" % (procs[i].returncode, e[-200:].replace("\n", " "))] * (len(shards[i]) - len(outs[i]))
        except subprocess.TimeoutExpired:
            procs[i].kill()
            outs[i] = ["MODEL-TIMEOUT"] * len(shards[i])

    ths = [threading.Thread(target=feed, args=(i,)) for i in range(n)]
    [t.start() for t in ths]
    [t.join() for t in ths]
    res = [None] * len(lines)
    for i in range(n):
        o = outs[i] + ["MODEL-SHORT-OUTPUT"] * (len(shards[i]) - len(outs[i]))
        for j, idx in enumerate(range(i, len(lines), n)):
            res[idx] = o[j]
    return res


def coq_confirm(pid, run_mod, pairs, timeout=600):
    """pairs: list of (case_text, expected_text). Evaluates the model inside Coq
    (vm_compute) and returns the indices where it differs from expected."""
    if not pairs:
        return [], 0.0
    d = os.path.join(BUILD, "confirm", pid)
    os.makedirs(d, exist_ok=True)
    bad = []
    t0 = time.time()
    SH = 40
    jobs = []
    for k in range(0, len(pairs), SH):
        chunk = pairs[k : k + SH]
        fn = os.path.join(d, "cases_%d.v" % (k // SH))
        with open(fn, "w") as f:
            f.write("From Coq Require Import String List NArith.\nImport ListNotations.\nFrom V Require Import lib.Sexp corr.%s.\nLocal Open Scope string_scope.\n" % run_mod)
            f.write("Definition cases : list (string * string) := [\n")
            f.write(";\n".join('("%s", "%s")' % (c, e) for c, e in chunk))
            f.write("].\nEval vm_compute in (mismatches %s.run cases).\n" % run_mod)
        jobs.append((k, fn))
    running = []

    def reap(block):
        for item in list(running):
            k, p = item
            if block:
                try:
                    p.wait(timeout=timeout)
                except subprocess.TimeoutExpired:
                    p.kill()
            if p.poll() is not None:
                running.remove(item)
                o = p.stdout.read()
                m = re.search(r"=\s*\[(.*?)\]\s*:\s*list N", o, flags=re.S)
                if p.returncode != 0 or not m:
                    bad.append(("coq-error", k, (o + p.stderr.read())[-500:]))
                else:
                    for tok in re.findall(r"(\d+)%N", m.group(1)):
                        bad.append(("mismatch", k + int(tok), ""))

    for k, fn in jobs:
        while len(running) >= NCPU:
            reap(True)
        p = subprocess.Popen(["coqc", "-Q", COQ, "V", "-w", "-all", fn], cwd=d, stdout=subprocess.PIPE, stderr=subprocess.PIPE, text=True, preexec_fn=_unlimit_stack)
        running.append((k, p))
    while running:
        reap(True)
    return bad, time.time() - t0


# --------------------------------------------------------------------------
# implementation side
# --------------------------------------------------------------------------
_H = None


class CaseTimeout(Exception):
    pass


def _alarm(signum, frame):
    raise CaseTimeout()


def _impl_one(case):
    H = _H
    limit = getattr(H, "CASE_TIMEOUT", 20)
    signal.signal(signal.SIGALRM, _alarm)
    signal.setitimer(signal.ITIMER_REAL, limit)
    try:
        try:
            obs = H.impl(case)
            txt = sexp.dumps(obs)
            try:
                viol = H.oracle(case, obs)
            except CaseTimeout:
                raise
            except Exception:
                viol = "ORACLE-CRASH " + traceback.format_exc()[-600:]
            try:
                key = H.nontrivial(case, obs)
            except Exception:
                key = None
            return txt, viol, key
        except CaseTimeout:
            return "IMPL-TIMEOUT", "case exceeded %ss on the implementation (hang?)" % limit, None
        except BaseException:
            return "IMPL-EXC " + traceback.format_exc()[-800:].replace("\n", " | "), None, None
    finally:
        signal.setitimer(signal.ITIMER_REAL, 0)


def _worker(H, cases, idxs, q):
    global _H
    _H = H
    # the forked heap holds every case of the run: keep it out of the collections the harnesses force after each case
    # (gc.collect() is linear in the tracked heap, which made the thorough tiers quadratic)
    import gc
    gc.freeze()
    for i in idxs:
        q.put((i, _impl_one(cases[i])))
    q.put(None)


def run_impl(H, cases):
    """Runs H.impl/H.oracle on every case in forked workers.  A worker that produces nothing for
    longer than the case time limit (e.g. stuck inside a C-level regex match, where signals are
    not delivered) is killed; its current case is recorded as IMPL-TIMEOUT and the rest continues."""
    global _H
    _H = H
    if getattr(H, "IMPL_SERIAL", False) or len(cases) < 8:
        return [_impl_one(c) for c in cases]
    limit = getattr(H, "CASE_TIMEOUT", 20) + 10
    nproc = getattr(H, "IMPL_PROCS", NCPU)
    ctx = multiprocessing.get_context("fork")
    results = [None] * len(cases)
    # interleaved assignment keeps the workers balanced
    pending = [list(range(k, len(cases), nproc)) for k in range(nproc)]
    workers = []

    def start(idxs):
        q = ctx.Queue()
        p = ctx.Process(target=_worker, args=(H, cases, idxs, q), daemon=True)
        p.start()
        return {"p": p, "q": q, "idxs": idxs, "pos": 0, "t": time.time()}
    for idxs in pending:
        if idxs:
            workers.append(start(idxs))
    import queue as _queue
    while workers:
        progressed = False
        for w in list(workers):
            try:
                while True:
                    item = w["q"].get_nowait()
                    progressed = True
                    w["t"] = time.time()
                    if item is None:
                        w["p"].join(5)
                        workers.remove(w)
                        break
                    results[item[0]] = item[1]
                    w["pos"] += 1
            except _queue.Empty:
                pass
            if w in workers and (time.time() - w["t"] > limit or not w["p"].is_alive()):
                # stuck or died: give up on the case it was working on
                dead = not w["p"].is_alive()
                # drain what is left in the queue first
                try:
                    while True:
                        item = w["q"].get_nowait()
                        if item is None:
                            break
                        results[item[0]] = item[1]
                        w["pos"] += 1
                except _queue.Empty:
                    pass
                w["p"].kill()
                w["p"].join(5)
                workers.remove(w)
                if w["pos"] < len(w["idxs"]):
                    bad = w["idxs"][w["pos"]]
                    if results[bad] is None:
                        results[bad] = ("IMPL-TIMEOUT", "case did not finish within %ss on the implementation (hang / super-linear running time)%s" % (limit, " (worker died)" if dead else ""), None)
                    rest = w["idxs"][w["pos"] + 1:]
                    if rest:
                        workers.append(start(rest))
        if not progressed:
            time.sleep(0.02)
    for i, r in enumerate(results):
        if r is None:
            results[i] = ("IMPL-EXC worker lost", None, None)
    return results


# --------------------------------------------------------------------------
# known findings
# --------------------------------------------------------------------------
def load_known(pid):
    out = []
    p = os.path.join(VERIF, "known_findings.jsonl")
    if os.path.exists(p):
        for line in open(p):
            line = line.strip()
            if not line:
                continue
            j = json.loads(line)
            if j.get("property") == pid and "signature" in j and "fixed" not in j:
                out.append(j)
    return out


def match_known(known, sig):
    for k in known:
        if all(sig.get(a) == b for a, b in k["signature"].items()):
            return k
    return None


# --------------------------------------------------------------------------
def load_corpus(pid):
    out = []
    for p in sorted(glob.glob(os.path.join(VERIF, "corpus", pid, "*.json"))):
        try:
            out.append(json.load(open(p))["case"])
        except Exception as e:
            log("bad corpus file", p, e)
    return out


def write_replay(pid, payload):
    d = os.path.join(VERIF, "replays", pid)
    os.makedirs(d, exist_ok=True)
    body = json.dumps(payload, indent=1, sort_keys=True, default=str)
    h = hashlib.sha1(body.encode()).hexdigest()[:12]
    path = os.path.join(d, h + ".json")
    payload["rerun"] = "./check %s --replay %s" % (pid, os.path.relpath(path, VERIF))
    with open(path, "w") as f:
        json.dump(payload, f, indent=1, sort_keys=True, default=str)
    return path


def shrink_case(H, case, still_bad, budget_s=40):
    """Greedy shrinking through the harness's `shrinks(case)` candidates."""
    if not hasattr(H, "shrinks"):
        return case
    t0 = time.time()
    improved = True
    while improved and time.time() - t0 < budget_s:
        improved = False
        for cand in H.shrinks(case):
            if time.time() - t0 > budget_s:
                break
            try:
                if still_bad(cand):
                    case = cand
                    improved = True
                    break
            except Exception:
                continue
    return case


def main():
    args = sys.argv[1:]
    pid = args[0].upper()
    tier = "quick"
    replay = None
    i = 1
    while i < len(args):
        if args[i] == "--replay":
            replay = args[i + 1]
            i += 2
        else:
            tier = args[i]
            i += 1
    tier = os.environ.get("VERIF_TIER", tier) if len(args) < 2 else tier
    seed = int(os.environ.get("VERIF_SEED", "20260930"))
    t_start = time.time()
    os.makedirs(BUILD, exist_ok=True)
    H = importlib.import_module("harness." + pid.lower())
    known = load_known(pid)
    ev_path = os.path.join(EVIDENCE_DIR, pid + ".json")
    os.makedirs(os.path.dirname(ev_path), exist_ok=True)
    trouble = []  # machinery trouble
    broken = []  # proof obligations / anchors / correspondence cases that no longer check

    # 1. regenerate
    gen_report = translate.generate(getattr(H, "GEN", []), REPO, os.path.join(COQ, "gen"))
    for name, facts in gen_report.items():
        for fact, ok in facts.items():
            if not ok:
                broken.append("gen:%s.%s (translator could not extract it from the source: fail-closed)" % (name, fact))

    # 2. prove
    hits = forbidden_scan()
    if hits:
        trouble.append("forbidden construct in development: " + "; ".join(hits[:5]))
    prop_rel = "props/Prop_%s.v" % pid
    run_mod = getattr(H, "RUN_MOD", "Run_%s" % pid)
    theorems = prop_theorems(prop_rel)
    mk_timeout = 1500 if tier == "thorough" else 900
    checker_cmds = []
    t0 = time.time()
    ok_model, mlog, mfail, merr = make_targets(["corr/%s.vo" % run_mod], mk_timeout)
    ok_proof, plog, pfail, perr = make_targets([prop_rel + "o"], mk_timeout)
    checker_cmds.append("make -C coq -j%d %so corr/%s.vo  (coqc 8.16.1, full .vo)" % (NCPU, prop_rel, run_mod))
    assumptions = []
    discharged = 0
    if ok_proof:
        rc, o, e = compile_prop(prop_rel, 600)
        checker_cmds.append("coqc -Q . V %s  (Print Assumptions captured)" % prop_rel)
        if rc == 0:
            assumptions = parse_assumptions(o)
            discharged = len(theorems)
        else:
            ok_proof = False
            pfail, perr = prop_rel, (o + e)[-1500:]
    if not ok_proof:
        # which theorem does the failure belong to?
        where = pfail or "?"
        th_broken = []
        if pfail and pfail.startswith(prop_rel):
            try:
                line = int(pfail.split(":")[1])
            except Exception:
                line = 0
            before = [t for t, ln in theorems if ln <= line]
            discharged = max(0, len(before) - 1)
            if before:
                th_broken = [before[-1]]
        broken.append("proof: %s fails at %s: %s" % (",".join(th_broken) or "dependency of " + prop_rel, where, (perr or "").strip()[:600]))
    proof_wall = time.time() - t0
    for a in assumptions:
        if a != "Closed under the global context":
            # stdlib axioms are allowed but must be named; record them
            pass
    coqchk_out = None
    if tier == "thorough" and ok_proof and not replay:
        rc, o, e, dt = sh(["coqchk", "-silent", "-o", "-Q", ".", "V", "V.props.Prop_%s" % pid], 1500, cwd=COQ)
        checker_cmds.append("coqchk -silent -o -Q . V V.props.Prop_%s" % pid)
        coqchk_out = (o + e)[-3000:]
        if rc != 0:
            broken.append("coqchk rejected V.props.Prop_%s: %s" % (pid, coqchk_out[-400:]))

    # 3. cases
    rng = random.Random(seed)
    corpus = load_corpus(pid)
    if replay:
        rp = json.load(open(replay if os.path.isabs(replay) else os.path.join(VERIF, replay)))
        cases = [rp["case"]] if rp.get("case") is not None else []
        if not cases:
            log("replay names no concrete case; re-running the whole check")
            cases = corpus + list(H.cases(rng, tier))
    else:
        cases = corpus + list(H.cases(rng, tier))
    n_corpus = len(corpus) if not replay else 0

    # 4. implementation + oracle
    t0 = time.time()
    impl = run_impl(H, cases)
    impl_wall = time.time() - t0

    # 5. model
    binp = None
    model_out = None
    model_wall = 0.0
    if ok_model:
        try:
            binp = build_extracted(pid, run_mod)
        except Exception as e:
            trouble.append("extraction/ocaml build failed: %s" % str(e)[-500:])
    else:
        broken.append("model: corr/%s.v no longer builds at %s: %s" % (run_mod, mfail, (merr or "")[:400]))
    if getattr(H, "ENCODE_WITH_OBS", False):
        # the case given to the model includes part of the observed run (e.g. the order of critical sections)
        lines = []
        for c, it in zip(cases, impl):
            try:
                o = sexp.loads(it[0]) if it[0][:1] in "(0123456789" else None
            except Exception:
                o = None
            lines.append(sexp.dumps(H.encode(c, o)))
    else:
        lines = [sexp.dumps(H.encode(c)) for c in cases]
    in_domain = getattr(H, "in_model_domain", None)
    # cases outside the model's stated domain (documented in the harness) are not given to the model; the oracle still judges them
    dom = [i for i in range(len(cases)) if in_domain is None or in_domain(cases[i])]
    if binp:
        t0 = time.time()
        part = run_model(binp, [lines[i] for i in dom], 2400)
        model_out = ["OUTSIDE-MODEL-DOMAIN"] * len(cases)
        for i, o in zip(dom, part):
            model_out[i] = o
        model_wall = time.time() - t0

    mism = []
    outside_domain = len(cases) - len(dom)
    if model_out is not None:
        silent = [i for i in dom if model_out[i].startswith("MODEL-")]
        if silent:
            # no answer is no disagreement: the run is incomplete, which is trouble with the machinery, not a finding
            trouble.append("the extracted model gave no answer for %d cases (%s), first: %s" % (len(silent), model_out[silent[0]][:80], lines[silent[0]][:120]))
        for idx in dom:
            if model_out[idx].startswith("MODEL-"):
                continue
            if impl[idx][0] != model_out[idx]:
                mism.append(idx)
    # 6. confirmation inside Coq: corpus + mismatches + random sample
    confirm_idx = []
    confirm_wall = 0.0
    coq_disagree = []
    if model_out is not None:
        confirm_idx = [i for i in list(range(n_corpus))[:40] if i in set(dom) and not model_out[i].startswith("MODEL-")] + mism[:40]
        rs = random.Random(seed + 1)
        pool_idx = [i for i in dom if len(lines[i]) + len(model_out[i]) < 6000 and not model_out[i].startswith("MODEL-")]
        confirm_idx += rs.sample(pool_idx, min(len(pool_idx), 60 if tier == "quick" else 200))
        confirm_idx = sorted(set(confirm_idx))
        pairs = [(lines[i], model_out[i]) for i in confirm_idx]
        bad, confirm_wall = coq_confirm(pid, run_mod, pairs)
        for kind, k, msg in bad:
            if kind == "coq-error":
                trouble.append("in-Coq confirmation failed to run: " + msg)
            else:
                coq_disagree.append(confirm_idx[k])
        if coq_disagree:
            trouble.append("extracted model and vm_compute disagree on cases %s" % coq_disagree[:5])

    # 7. verdicts
    violations = []  # (idx, msg)
    for idx, it in enumerate(impl):
        if it[1]:
            violations.append((idx, it[1]))
    known_hit = {}
    new_viol = []
    for idx, msg in violations:
        try:
            sig = H.signature(cases[idx], sexp.loads(impl[idx][0]) if impl[idx][0].startswith(("(", "0", "1", "2", "3", "4", "5", "6", "7", "8", "9")) else None, msg)
        except Exception:
            sig = {"error": "signature-crash"}
        k = match_known(known, sig)
        if k:
            known_hit.setdefault(k["id"], [k, 0])[1] += 1
        else:
            new_viol.append((idx, msg, sig))

    for m in mism[:10]:
        broken.append("correspondence: case #%d model and implementation disagree" % m)

    exit_code = 0
    out_lines = []
    for kid, (k, n) in sorted(known_hit.items()):
        out_lines.append("KNOWN-FINDING: property=%s %s (%d cases this run)" % (pid, k["what"], n))

    def describe(idx):
        try:
            return H.describe(cases[idx])
        except Exception:
            return cases[idx]

    if new_viol:
        idx, msg, sig = new_viol[0]

        def still_bad(c):
            r = _impl_one(c)
            if not r[1]:
                return False
            try:
                s2 = H.signature(c, sexp.loads(r[0]) if r[0][:1] in "(0123456789" else None, r[1])
            except Exception:
                s2 = {}
            return match_known(known, s2) is None

        global _H
        _H = H
        small = shrink_case(H, cases[idx], still_bad)
        r = _impl_one(small)
        path = write_replay(pid, {
            "property": pid, "kind": "violation", "seed": seed, "tier": tier, "case": small,
            "case_readable": (H.describe(small) if hasattr(H, "describe") else None),
            "impl_observation": r[0][:4000], "oracle_message": r[1] or msg, "signature": sig,
            "model_observation": (model_out[idx][:4000] if model_out else None),
            "broken": broken, "other_violations": len(new_viol) - 1,
        })
        out_lines.append("VIOLATION property=%s replay=%s" % (pid, os.path.relpath(path, VERIF)))
        exit_code = 1
    elif broken:
        # property no longer shown to hold; we searched (oracle over all cases) and found nothing new
        extra_searched = 0
        if not replay and hasattr(H, "cases"):
            # escalate: 4x cases with a fresh seed, oracle only
            rng2 = random.Random(seed + 7919)
            more = []
            for rep in range(3):
                more += list(H.cases(rng2, tier))
            t0 = time.time()
            impl2 = run_impl(H, more)
            extra_searched = len(more)
            for j, it in enumerate(impl2):
                if it[1]:
                    try:
                        sig = H.signature(more[j], sexp.loads(it[0]) if it[0][:1] in "(0123456789" else None, it[1])
                    except Exception:
                        sig = {}
                    if match_known(known, sig) is None:
                        _H = H
                        small = shrink_case(H, more[j], lambda c: bool(_impl_one(c)[1]))
                        r = _impl_one(small)
                        path = write_replay(pid, {
                            "property": pid, "kind": "violation", "seed": seed, "tier": tier, "case": small,
                            "case_readable": H.describe(small), "impl_observation": r[0][:4000],
                            "oracle_message": r[1] or it[1], "signature": sig, "broken": broken, "found_by": "escalated search",
                        })
                        out_lines.append("VIOLATION property=%s replay=%s" % (pid, os.path.relpath(path, VERIF)))
                        exit_code = 1
                        break
        if exit_code == 0:
            mcase = cases[mism[0]] if mism else None
            path = write_replay(pid, {
                "property": pid, "kind": "no-failing-input-found", "seed": seed, "tier": tier,
                "case": mcase, "case_readable": (H.describe(mcase) if mcase is not None else None),
                "impl_observation": (impl[mism[0]][0][:4000] if mism else None),
                "model_observation": (model_out[mism[0]][:4000] if mism and model_out else None),
                "broken": broken, "searched": len(cases) + extra_searched,
                "note": "the theorem(s), generated anchor(s) or correspondence case(s) listed under 'broken' no longer check; the implementation-side oracle found no input violating the property",
            })
            out_lines.append("VIOLATION property=%s replay=%s no-failing-input-found" % (pid, os.path.relpath(path, VERIF)))
            exit_code = 1

    # 8. evidence
    keys = {}
    for idx, it in enumerate(impl):
        if it[2] is not None:
            keys.setdefault(json.dumps(it[2], sort_keys=True, default=str), idx)
    hist = {}
    if hasattr(H, "histogram"):
        try:
            hist = H.histogram(cases, [sexp.loads(t[0]) if t[0][:1] in "(0123456789" else None for t in impl])
        except Exception as e:
            hist = {"error": str(e)}
    rsamp = random.Random(seed + 2)
    sample_idx = rsamp.sample(range(len(cases)), min(5, len(cases))) if cases else []
    samples = []
    for i_ in sample_idx:
        samples.append({"case": describe(i_), "impl_observation": impl[i_][0][:300], "agrees_with_model": (model_out is not None and impl[i_][0] == model_out[i_])})
    tb = list(getattr(H, "TRUSTED_BASE", []))
    tb = [
        "Coq 8.16.1 kernel (coqc, full .vo compilation; coqchk -o in the thorough tier); vm_compute used for finite-table lemmas, _refuted witnesses and in-Coq confirmation; no native_compute",
        "Print Assumptions per theorem: " + "; ".join("%s: %s" % (t[0], a.replace("\n", " ")) for t, a in zip(theorems, assumptions)) if assumptions else "Print Assumptions: property file did not compile on this run",
        "translator tools/translate.py (fail-closed AST extraction) for coq/gen/*.v",
        "extraction: ExtrOcamlBasic + ExtrOcamlString only (bool, option, unit, list, prod, sumbool, sumor -> OCaml natives; ascii -> char; string -> char list); N/Z/positive/nat stay extracted inductives; ocamlfind ocamlopt 4.13.1; generic driver build/extract/<id>/driver.ml; spot-checked against vm_compute on every run",
        "correspondence harness tools/harness/%s.py (generators, canonicaliser) — agreement is established on the explored cases only" % pid.lower(),
    ] + tb
    evidence = {
        "property_id": pid,
        "tier": tier,
        "seed": seed,
        "level": "proof",
        "coverage": {
            "obligations": len(theorems),
            "discharged": discharged,
            "theorems": [t for t, _ in theorems],
            "checker_cmd": " && ".join(checker_cmds),
            "trusted_base": tb,
            "print_assumptions": dict(zip([t for t, _ in theorems], assumptions)),
            "coqchk": coqchk_out,
            "gen_anchors": gen_report,
            "evaluations": len(cases),
            "distinct_nontrivial": len(keys),
            "rule": getattr(H, "RULE", ""),
            "samples": samples,
            "corpus_cases": n_corpus,
            "model_impl_mismatches": len(mism),
            "cases_outside_model_domain": outside_domain,
            "confirmed_in_coq": len(confirm_idx),
            "coq_vs_extraction_disagreements": len(coq_disagree),
            "oracle_violations": len(violations),
            "known_findings_hit": {k: v[1] for k, v in known_hit.items()},
            "new_violations": len(new_viol),
            "broken": broken,
            "machinery_trouble": trouble,
            "input_distribution": hist,
            "timing_s": {"proof": round(proof_wall, 1), "impl": round(impl_wall, 1), "model": round(model_wall, 1), "confirm": round(confirm_wall, 1)},
            "exhaustive": bool(getattr(H, "EXHAUSTIVE", {}).get(tier, False)),
        },
        "assumptions": list(getattr(H, "ASSUMPTIONS", [])),
        "wall_s": round(time.time() - t_start, 1),
        "violations": len(new_viol) + (1 if (broken and not new_viol) else 0),
    }
    if not replay:
        with open(ev_path, "w") as f:
            json.dump(evidence, f, indent=1, default=str)
    for l in out_lines:
        print(l)
    print("%s %s: theorems %d/%d, cases %d (distinct non-trivial %d), mismatches %d, oracle violations %d (known %d), confirmed-in-Coq %d, %.0fs"
          % (pid, tier, discharged, len(theorems), len(cases), len(keys), len(mism), len(violations), len(violations) - len(new_viol), len(confirm_idx), time.time() - t_start))
    if trouble and exit_code == 0:
        for t in trouble:
            print("MACHINERY-TROUBLE: " + t)
        sys.exit(2)
    sys.exit(exit_code)


if __name__ == "__main__":
    main()
