#!/usr/bin/env python3
"""usage: recheck_seeds.py [ID ...]
Applies every confirmed seeded change (seeded/<ID>/<mk>/patch.diff) to a scratch worktree of /repo's HEAD (outside /repo
and /verif), runs ./check <ID> quick against it (VERIF_REPO) and prints whether the check reports a violation.  The
demonstration and the pinned suite were run when the change was confirmed (tools/confirm_seed.py); this only re-runs the
checks, e.g. after /repo or the machinery changed."""
import glob, json, os, subprocess, sys
from concurrent.futures import ThreadPoolExecutor

want = set(sys.argv[1:])
head = subprocess.run("git -C /repo rev-parse --short HEAD", shell=True, capture_output=True, text=True).stdout.strip()


def sh(cmd):
    p = subprocess.run(cmd, shell=True, capture_output=True, text=True)
    return p.returncode, p.stdout + p.stderr


def one(d):
    ID, mk = d.split("/")[-2:]
    W = "/tmp/recheck/%s_%s" % (ID, mk)
    os.makedirs("/tmp/recheck", exist_ok=True)
    sh("git -C /repo worktree remove --force %s" % W)
    rc, o = sh("git -C /repo worktree add --detach %s HEAD" % W)
    try:
        sh("cp /repo/src/urllib3/_version.py %s/src/urllib3/_version.py" % W)
        rc, o = sh("git -C %s apply %s/patch.diff" % (W, d))
        if rc:
            return ID, mk, "PATCH-DOES-NOT-APPLY", o.strip().splitlines()[0][:120]
        meta = json.load(open(d + "/meta.json"))
        checks = meta.get("caught_by") or [ID]
        res = []
        for cid in checks:
            rc, o = sh("cd /verif && VERIF_REPO=%s ./check %s quick" % (W, cid))
            line = [l for l in o.splitlines() if l.startswith(cid + " ")]
            res.append((cid, rc == 1 and "VIOLATION" in o, line[-1][:160] if line else o[-200:]))
        caught = any(c for _, c, _ in res)
        meta["rechecked_at"] = head
        meta["caught_at_recheck"] = {cid: c for cid, c, _ in res}
        json.dump(meta, open(d + "/meta.json", "w"), indent=1)
        return ID, mk, "caught" if caught else "MISSED", "; ".join("%s" % l for _, _, l in res)
    finally:
        sh("git -C /repo worktree remove --force %s" % W)


dirs = sorted(d for d in glob.glob("/verif/seeded/*/*") if os.path.isfile(d + "/patch.diff") and (not want or d.split("/")[-2] in want))
with ThreadPoolExecutor(3) as ex:
    for r in ex.map(one, dirs):
        print(*r, flush=True)
