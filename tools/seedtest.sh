#!/bin/bash
# usage: tools/seedtest.sh <ID> <dir-with-patch.diff-and-demo.py> [nobaseline]
# scratch worktree of /repo (never /repo itself): demo fails with the change and passes on /repo,
# baseline suite passes with the change, then ./check <ID> quick runs against the scratch tree.
ID=$1; D=$(realpath $2); NB=$3
W=/tmp/confirm/${ID}_$$
mkdir -p /tmp/confirm
git -C /repo worktree add --detach $W HEAD >/dev/null 2>&1 || exit 3
cp /repo/src/urllib3/_version.py $W/src/urllib3/_version.py
git -C $W apply $D/patch.diff || { echo "PATCH DOES NOT APPLY"; git -C /repo worktree remove --force $W; exit 3; }
( cd $D && PYTHONPATH=$W/src timeout 300 /venv/bin/python demo.py >/tmp/confirm/demo_mut_$$.log 2>&1 ); echo "demo with change: exit $? (expect non-zero)"
( cd $D && PYTHONPATH=/repo/src timeout 300 /venv/bin/python demo.py >/tmp/confirm/demo_clean_$$.log 2>&1 ); echo "demo on /repo: exit $? (expect 0)"
if [ -z "$NB" ]; then /tmp/seedtools/baseline_check.py $W | head -5; echo "baseline exit ${PIPESTATUS[0]} (expect 0)"; fi
cd /verif && VERIF_REPO=$W ./check $ID ${TIER:-quick}; echo "check exit $? (expect 1)"
git -C /repo worktree remove --force $W
rm -f /tmp/confirm/demo_*_$$.log
