"""S-expressions over naturals: the case / observation format shared with
coq/lib/Sexp.v.  A value is an int >= 0 or a list of values."""


def dumps(x):
    out = []
    _dump(x, out)
    return "".join(out)


def _dump(x, out):
    if isinstance(x, bool):
        out.append("1" if x else "0")
    elif isinstance(x, int):
        if x < 0:
            raise ValueError("negative number in sexp: use Z()")
        out.append(str(x))
    elif isinstance(x, (list, tuple)):
        out.append("(")
        first = True
        for y in x:
            if not first:
                out.append(" ")
            first = False
            _dump(y, out)
        out.append(")")
    else:
        raise TypeError("cannot encode %r" % (x,))


def loads(s):
    stack = [[]]
    cur = None
    for ch in s:
        if ch.isdigit():
            cur = (cur or 0) * 10 + ord(ch) - 48
            continue
        if cur is not None:
            stack[-1].append(cur)
            cur = None
        if ch == "(":
            stack.append([])
        elif ch == ")":
            top = stack.pop()
            stack[-1].append(top)
    if cur is not None:
        stack[-1].append(cur)
    if len(stack) != 1 or len(stack[0]) != 1:
        raise ValueError("bad sexp: %r" % s[:80])
    return stack[0][0]


# encoders mirroring the helpers of lib/Sexp.v
def S(s):
    """str -> list of code points; bytes -> list of byte values"""
    if isinstance(s, (bytes, bytearray)):
        return list(s)
    return [ord(c) for c in s]


def unS(l):
    return "".join(chr(c) for c in l)


def unB(l):
    return bytes(l)


def Z(z):
    return [0, z] if z >= 0 else [1, -z]


def unZ(x):
    return x[1] if x[0] == 0 else -x[1]


def Opt(x, f=lambda v: v):
    return [] if x is None else [f(x)]


def B(b):
    return 1 if b else 0
