#!/usr/bin/env python3
"""Writes MANIFEST.json from tools/claims.json (per-property texts) so the
manifest stays valid and in step with what is built."""
import json, os
V = os.path.dirname(os.path.dirname(os.path.abspath(__file__)))
claims = json.load(open(os.path.join(V, "tools", "claims.json")))
props = [json.loads(l)["id"] for l in open(os.path.join(V, "properties.jsonl"))]
checks, na = [], []
for pid in props:
    c = claims.get(pid)
    if c and c.get("claimed"):
        checks.append({
            "property_id": pid,
            "quick_cmd": "./check %s quick" % pid,
            "thorough_cmd": "./check %s thorough" % pid,
            "evidence_file": "evidence/%s.json" % pid,
            "replay_cmd_template": "./check %s --replay {path}" % pid,
            "engine": "coq-proof+correspondence",
            "level_claimed": {"category": "proof", "text": c["text"], "design_ref": c.get("design_ref", "")},
            "level_note": c["note"],
            "technique": c["technique"],
        })
    else:
        na.append({"property_id": pid, "reason": (c or {}).get("reason", "check not built yet in this session (see DESIGN.md §0); no claim is made")})
m = {
    "version": 1,
    "setup_cmd": "./setup.sh",
    "hooks": {"guard": "URLLIB3_VERIF", "enable": "no source hooks are needed: harnesses replace module attributes in their own process (DESIGN §2.6)",
              "baseline_off_cmd": "cd /repo && /venv/bin/python -m pytest -ra -q -p no:cacheprovider --timeout=900 --continue-on-collection-errors",
              "source_commits": [], "add_only": True},
    "engines": [{"name": "coq-proof+correspondence", "path": "tools/runner.py", "serves_properties": [c["property_id"] for c in checks],
                 "kind_free_text": "Coq 8.16.1 theorems about hand-written Gallina models (coq/model, coq/proofs, coq/props) tied to /repo on every run by regenerated facts (tools/translate.py -> coq/gen) and by a correspondence check (model extracted to OCaml + vm_compute confirmation vs the real implementation on the same cases); an independent Python oracle searches the implementation for a failing input"}],
    "checks": checks,
    "not_applicable": na,
    "notes": "See DESIGN.md. Exit 0 = held; exit 1 + VIOLATION line = violation; exit 2 = machinery trouble.",
}
json.dump(m, open(os.path.join(V, "MANIFEST.json"), "w"), indent=1)
print("claimed", len(checks), "not claimed", len(na))
