#!/usr/bin/env python3
"""usage: confirm_seed.py <ID> <mk> [--no-check]
Confirms a seeded change from /tmp/seed_out/<ID>/<mk> in a scratch worktree
(outside /repo and /verif): demo fails with it and passes without it, the pinned
baseline still passes; then runs ./check <ID> quick against the scratch tree and
records everything in /verif/seeded/<ID>/<mk>/meta.json."""
import json, os, shutil, subprocess, sys, time
ID, mk = sys.argv[1], sys.argv[2]
src = "/tmp/seed_out/%s/%s" % (ID, mk)
W = "/tmp/confirm/%s_%s_%d" % (ID, mk, os.getpid())
os.makedirs("/tmp/confirm", exist_ok=True)
def sh(cmd, **kw):
    p = subprocess.run(cmd, shell=True, capture_output=True, text=True, **kw)
    return p.returncode, (p.stdout + p.stderr)
ran = []
rc, o = sh("git -C /repo worktree add --detach %s HEAD" % W)
try:
    shutil.copy("/repo/src/urllib3/_version.py", W + "/src/urllib3/_version.py")
    rc, o = sh("git -C %s apply %s/patch.diff" % (W, src))
    if rc: raise SystemExit("patch does not apply: " + o)
    rc_mut, o1 = sh("cd %s && PYTHONPATH=%s/src timeout 600 /venv/bin/python demo.py" % (src, W))
    ran.append("demo.py with the change (scratch worktree): exit %d" % rc_mut)
    rc_clean, o2 = sh("cd %s && PYTHONPATH=/repo/src timeout 600 /venv/bin/python demo.py" % src)
    ran.append("demo.py on unmodified /repo: exit %d" % rc_clean)
    rc_base, o3 = sh("/tmp/seedtools/baseline_check.py %s" % W)
    ran.append("pinned baseline (files holding the 682 baseline tests) with the change: exit %d; %s" % (rc_base, o3.strip().splitlines()[0] if o3.strip() else ""))
    caught = None; line = ""
    if "--no-check" not in sys.argv:
        rc_chk, o4 = sh("cd /verif && VERIF_REPO=%s ./check %s quick" % (W, ID))
        line = "; ".join(l for l in o4.splitlines() if l.startswith(("VIOLATION", ID)))[:400]
        caught = (rc_chk == 1 and "VIOLATION" in o4)
        ran.append("./check %s quick against the changed tree: exit %d; %s" % (ID, rc_chk, line))
    ok = rc_mut != 0 and rc_clean == 0 and rc_base == 0
    meta = json.load(open(src + "/meta.json"))
    meta.update({"property": ID, "confirmed": ok, "confirmed_ran": ran, "caught_by_quick_check": caught,
                 "author_ran": meta.get("ran"), "ran": ran})
    if ok:
        dst = "/verif/seeded/%s/%s" % (ID, mk)
        os.makedirs(dst, exist_ok=True)
        shutil.copy(src + "/patch.diff", dst); shutil.copy(src + "/demo.py", dst)
        json.dump(meta, open(dst + "/meta.json", "w"), indent=1)
    print(ID, mk, "confirmed" if ok else "NOT-CONFIRMED", "caught" if caught else ("MISSED" if caught is False else "-"), "|", " | ".join(ran))
finally:
    sh("git -C /repo worktree remove --force %s" % W)
