"""In-memory network for running urllib3 (pools, managers, real http.client)
without sockets.  `install(net)` replaces, in this process only:
  urllib3.util.connection.socket   -> a module-like object whose `socket` class
                                      is FakeSock and whose getaddrinfo is fake
                                      (create_connection itself stays real)
  urllib3.util.wait.wait_for_socket -> understands FakeSock
so HTTPConnection._new_conn's error mapping, create_connection's timeout
handling, is_connected / is_connection_dropped stay exercised unchanged.

A `Net` decides what happens when a client connects to (host, port): it returns
a `Peer` (server side of one connection).  A Peer receives the bytes the
client sends and produces events for the client's read side."""
from __future__ import annotations

import io
import socket as _real_socket
import types


class Peer:
    """Server side of one connection.  Subclass or pass `on_data`.
    Read-side events: bytes, EOF (""), or an exception instance to raise."""

    def __init__(self, on_data=None):
        self.inbox = bytearray()       # all bytes received from the client
        self.events = []               # pending read-side events for the client
        self._on_data = on_data
        self.closed_by_client = False

    # --- called by FakeSock
    def client_sent(self, data: bytes):
        self.inbox += data
        if self._on_data:
            self._on_data(self, data)

    # --- used by server scripts
    def send(self, data: bytes):
        if data:
            self.events.append(bytes(data))

    def eof(self):
        self.events.append(b"")

    def fail(self, exc):
        self.events.append(exc)


class Net:
    """connect(host, port, timeout) -> Peer, or raises; override in subclasses."""

    def __init__(self):
        self.connects = []             # (host, port, timeout-at-connect)
        self.socks = []                # every FakeSock created, in order
        self.clock = None              # optional virtual clock with .advance(dt)

    def resolve(self, host, port):
        return [(_real_socket.AF_INET, _real_socket.SOCK_STREAM, 6, "", (host, port))]

    def connect(self, sock, host, port):
        return Peer()

    def before_send(self, sock, data):
        """hook: called at the start of every sendall(); may raise"""
        return None


class FakeSock:
    def __init__(self, net, family=None, type_=None, proto=None):
        self.net = net
        self.peer = None
        self.timeout = None
        self.timeouts = []             # every settimeout() value, in order
        self.sent = bytearray()
        self.send_script = []          # exceptions to raise on successive sendall calls (None = ok)
        self._closed = False           # close() called on the socket object
        self.really_closed = False     # underlying "fd" closed (no makefile refs left)
        self._io_refs = 0
        self.options = []
        self.addr = None
        self.ordinal = len(net.socks)
        net.socks.append(self)

    # --- connection establishment (called by the real create_connection)
    def setsockopt(self, *a):
        self.options.append(a)

    def settimeout(self, t):
        self.timeout = t
        self.timeouts.append(t)

    def gettimeout(self):
        return self.timeout

    def bind(self, addr):
        self.bound = addr

    def connect(self, sa):
        self.addr = sa
        self.net.connects.append((sa[0], sa[1], self.timeout))
        self.peer = self.net.connect(self, sa[0], sa[1])

    def getpeername(self):
        return self.addr

    def fileno(self):
        return -1 if self.really_closed else 1000 + self.ordinal

    # --- data
    def sendall(self, data):
        if self._closed:
            raise OSError(9, "Bad file descriptor")
        if self.send_script:
            exc = self.send_script.pop(0)
            if exc is not None:
                raise exc
        data = bytes(data)
        self.net.before_send(self, data)
        self.sent += data
        self.peer.client_sent(data)

    send = sendall

    def _readable(self):
        """True when a read would not block (bytes, EOF or error pending) - what select()/poll() report."""
        return bool(self.peer and self.peer.events)

    def _recv(self, n):
        if self.really_closed:
            raise OSError(9, "Bad file descriptor")
        ev = self.peer.events
        if not ev:
            # nothing to read: a real socket would block until the timeout
            if self.net.clock is not None and self.timeout:
                self.net.clock.advance(self.timeout)
            raise _real_socket.timeout("timed out")
        e = ev[0]
        if isinstance(e, BaseException):
            ev.pop(0)
            raise e
        if e == b"":
            return b""                # EOF stays pending
        out = e[:n]
        rest = e[n:]
        if rest:
            ev[0] = rest
        else:
            ev.pop(0)
        return out

    def _peek(self, n):
        """recv(n, MSG_PEEK): what the next recv would return, nothing consumed"""
        if self.really_closed:
            raise OSError(9, "Bad file descriptor")
        ev = self.peer.events
        if not ev:
            if self.net.clock is not None and self.timeout:
                self.net.clock.advance(self.timeout)
            raise _real_socket.timeout("timed out")
        e = ev[0]
        if isinstance(e, BaseException):
            raise e                   # a pending error is reported (and stays pending, as SO_ERROR would not - close enough for a peek)
        return bytes(e[:n])

    def recv(self, n, flags=0):
        if flags & _real_socket.MSG_PEEK:
            return self._peek(n)
        return self._recv(n)

    def recv_into(self, buf, nbytes=0, flags=0):
        n = nbytes or len(buf)
        data = self._peek(n) if flags & _real_socket.MSG_PEEK else self._recv(n)
        buf[: len(data)] = data
        return len(data)

    def makefile(self, mode="rb", buffering=None, **kw):
        self._io_refs += 1
        raw = _SockIO(self)
        if "b" in mode and buffering == 0:
            return raw
        return io.BufferedReader(raw, io.DEFAULT_BUFFER_SIZE if not buffering or buffering < 0 else buffering)

    def _decref(self):
        if self._io_refs > 0:
            self._io_refs -= 1
        if self._closed and self._io_refs <= 0:
            self._real_close()

    def _real_close(self):
        if not self.really_closed:
            self.really_closed = True
            if self.peer is not None:
                self.peer.closed_by_client = True

    def close(self):
        self._closed = True
        if self._io_refs <= 0:
            self._real_close()

    def shutdown(self, how):
        pass

    def __repr__(self):
        return "<FakeSock #%d %s>" % (self.ordinal, "closed" if self.really_closed else "open")


class _SockIO(io.RawIOBase):
    def __init__(self, sock):
        super().__init__()
        self._sock = sock

    def readable(self):
        return True

    def readinto(self, b):
        return self._sock.recv_into(b)

    def close(self):
        if self.closed:
            return
        super().close()
        self._sock._decref()
        self._sock = None


class FakeSocketModule(types.ModuleType):
    """Stands for the `socket` module as seen by urllib3.util.connection."""

    def __init__(self, net):
        super().__init__("fake_socket")
        self._net = net
        for name in dir(_real_socket):
            if name.startswith("__"):
                continue
            try:
                setattr(self, name, getattr(_real_socket, name))
            except Exception:
                pass
        net_ref = net

        def _socket(family=-1, type=-1, proto=-1, fileno=None):
            return (TlsLikeSock if getattr(net_ref, "tls_like", False) else FakeSock)(net_ref, family, type, proto)

        def _getaddrinfo(host, port, family=0, type=0, proto=0, flags=0):
            return net_ref.resolve(host, port)

        self.socket = _socket
        self.getaddrinfo = _getaddrinfo


class TlsLikeSock(FakeSock):
    """A socket that behaves like an SSLSocket in one respect: each segment the peer sends is a TLS record that is decrypted
    as a whole by the first recv() touching it; what that recv() does not return stays inside the TLS layer, where pending()
    reports it and select()/poll() do not see it."""

    def __init__(self, *a, **kw):
        super().__init__(*a, **kw)
        self._partial = False

    def _recv(self, n):
        before = len(self.peer.events) if self.peer else 0
        head = self.peer.events[0] if before else None
        out = super()._recv(n)
        ev = self.peer.events
        self._partial = bool(isinstance(head, (bytes, bytearray)) and head != b"" and len(ev) == before and ev and ev[0] is not head)
        return out

    def _readable(self):
        ev = self.peer.events if self.peer else []
        return len(ev) > 1 if self._partial else bool(ev)

    def pending(self):
        return len(self.peer.events[0]) if self._partial and self.peer and self.peer.events else 0


def fake_wait_for_socket(sock, read=False, write=False, timeout=None):
    if isinstance(sock, FakeSock):
        if sock.really_closed:
            return True
        if read and sock._readable():
            return True
        if write:
            return True
        return False
    raise TypeError("fake_wait_for_socket: not a FakeSock: %r" % (sock,))


class installed:
    """context manager: route urllib3's socket use into `net`"""

    def __init__(self, net):
        self.net = net

    def __enter__(self):
        import urllib3.util.connection as uc
        import urllib3.util.wait as uw
        self._uc, self._uw = uc, uw
        self._old_socket = uc.socket
        self._old_wait = uw.wait_for_socket
        uc.socket = FakeSocketModule(self.net)
        uw.wait_for_socket = fake_wait_for_socket
        return self.net

    def __exit__(self, *a):
        self._uc.socket = self._old_socket
        self._uw.wait_for_socket = self._old_wait


class VClock:
    def __init__(self, t0=1000.0):
        self.t = t0

    def monotonic(self):
        return self.t

    def advance(self, dt):
        self.t += dt


def http_response(status=200, reason="OK", headers=(), body=b"", version="HTTP/1.1"):
    h = list(headers)
    if not any(k.lower() in ("content-length", "transfer-encoding") for k, v in h):
        h.append(("Content-Length", str(len(body))))
    head = "%s %d %s\r\n" % (version, status, reason) + "".join("%s: %s\r\n" % kv for kv in h) + "\r\n"
    return head.encode("latin-1") + body
