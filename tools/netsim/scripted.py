"""Scripted world for the urlopen family (C01/C03/C04/...): one outcome record
per attempt (= one HTTPConnectionPool._make_request call), applied to whichever
in-memory socket the attempt uses."""
from __future__ import annotations

import socket as _socket

from .fakesock import Net, Peer, http_response


class ScriptEnd(BaseException):
    """the implementation made more attempts than the script provides"""


def cname(e):
    """exception (class or instance) -> the class names used by the Coq lattice"""
    c = e if isinstance(e, type) else type(e)
    m = c.__module__
    if m == "builtins":
        return "builtins.TimeoutError" if c is TimeoutError else c.__name__
    if m == "http.client":
        return "http.client." + c.__name__
    if m in ("ssl", "_ssl"):
        return "ssl." + c.__name__
    if m.startswith("urllib3"):
        return c.__name__
    if m in ("socket", "_socket"):
        return "socket." + c.__name__
    return m + "." + c.__name__


def inner_of(e):
    import urllib3.exceptions as ue
    if isinstance(e, ue.ProxyError):
        return cname(e.original_error)
    if isinstance(e, (ue.ProtocolError, ue.SSLError)) and len(e.args) >= 1:
        for a in reversed(e.args):
            if isinstance(a, BaseException):
                return cname(a)
    return None


class ScriptedNet(Net):
    """script: list of dicts {"connect": "ok|refused|timeout|interrupt", "send": "ok|epipe|reset|other|timeout|interrupt",
    "recv": ["resp", status, retry_after|None, keepalive, extra_headers?, body?] | ["timeout"] | ["reset"] | ["eof"] | ["garbage"] | ["interrupt"]}"""

    def __init__(self, script):
        super().__init__()
        self.script = script
        self.k = -1
        self.log = []

    def begin_attempt(self):
        self.k += 1
        if self.k >= len(self.script):
            raise ScriptEnd()
        self.log.append({"connected": False, "sent": False, "first_send_done": False, "sock": None})

    def cur(self):
        return self.script[self.k]

    def connect(self, sock, host, port):
        a = self.cur()
        self.log[self.k]["connected"] = True
        c = a.get("connect", "ok")
        if c == "refused":
            raise ConnectionRefusedError(111, "Connection refused")
        if c == "timeout":
            raise _socket.timeout("timed out")
        if c == "oserror":
            raise OSError(101, "Network is unreachable")
        if c == "interrupt":
            raise KeyboardInterrupt()
        return Peer()

    def queue_recv(self, sock):
        a = self.cur()
        r = a.get("recv", ["resp", 200, None, True])
        peer = sock.peer
        if r[0] == "resp":
            status, ra, keep = r[1], r[2], r[3]
            hdrs = list(r[4]) if len(r) > 4 and r[4] else []
            body = r[5] if len(r) > 5 and r[5] is not None else b"abc"
            if ra is not None:
                hdrs.append(("Retry-After", str(ra)))
            if not keep:
                hdrs.append(("Connection", "close"))
            peer.send(http_response(status, "X", hdrs, body))
            if not keep:
                peer.eof()
        elif r[0] == "reset":
            peer.fail(ConnectionResetError(104, "Connection reset by peer"))
        elif r[0] == "eof":
            peer.eof()
        elif r[0] == "garbage":
            peer.send(b"garbage-not-http\r\n\r\n")
        elif r[0] == "tls":
            # what arrives instead of the response cannot be decrypted: the TLS layer reports it from recv()
            import ssl
            peer.fail(ssl.SSLError(1, "[SSL: DECRYPTION_FAILED_OR_BAD_RECORD_MAC] decryption failed or bad record mac (fake)"))
        elif r[0] == "interrupt":
            peer.fail(KeyboardInterrupt())
        elif r[0] == "timeout":
            pass

    def before_send(self, sock, data):
        if self.k < 0:
            return
        if bytes(data[:8]) == b"CONNECT ":
            # a tunnelling proxy: the tunnel is always granted; the attempt's record is about what follows
            sock.peer.send(b"HTTP/1.1 200 Connection established\r\n\r\n")
            return
        lg = self.log[self.k]
        if lg["first_send_done"]:
            return
        lg["first_send_done"] = True
        lg["sock"] = sock.ordinal
        s = self.cur().get("send", "ok")
        if s == "ok":
            lg["sent"] = True
            self.queue_recv(sock)
            return
        if s in ("epipe", "reset"):
            self.queue_recv(sock)
            raise (BrokenPipeError(32, "Broken pipe") if s == "epipe" else ConnectionResetError(104, "Connection reset by peer"))
        if s == "other":
            raise OSError(5, "Input/output error")
        if s == "timeout":
            raise _socket.timeout("timed out")
        if s == "interrupt":
            raise KeyboardInterrupt()


def counting_pool_class(base, net):
    class CountingPool(base):
        _began = False

        def _prepare_proxy(self, conn):
            # a tunnel is set up (connect + CONNECT) before _make_request: the attempt begins here
            net.begin_attempt()
            self._began = True
            try:
                return super()._prepare_proxy(conn)
            except BaseException:
                self._began = False
                raise

        def _make_request(self, conn, method, url, **kw):
            if self._began:
                self._began = False
            else:
                net.begin_attempt()
            return super()._make_request(conn, method, url, **kw)
    return CountingPool
