"""Deterministic token-passing scheduler for a few Python threads plus an
RLock replacement whose acquire/release are the preemption points.  Exactly
one scheduled thread runs at a time; at every preemption point the running
thread hands the token to a thread chosen by the seeded PRNG."""
from __future__ import annotations

import threading


class Deadlock(Exception):
    pass


class Sched:
    def __init__(self, rng, max_switches=10000):
        self.rng = rng
        self.cv = threading.Condition()
        self.current = None
        self.alive = []
        self.tids = {}
        self.events = []
        self.switches = 0
        self.max_switches = max_switches
        self.errors = []

    def tid(self):
        return self.tids.get(threading.get_ident())

    def record(self, ev):
        self.events.append(ev)

    def _pass_token(self):
        if self.alive:
            self.current = self.rng.choice(sorted(self.alive))
        else:
            self.current = None
        self.cv.notify_all()

    def yield_point(self):
        me = self.tid()
        if me is None:
            return
        with self.cv:
            self.switches += 1
            if self.switches > self.max_switches:
                raise Deadlock("too many switches")
            self._pass_token()
            while self.current != me:
                if not self.cv.wait(timeout=10):
                    raise Deadlock("scheduler wait timed out")

    def run(self, fns, timeout=15):
        threads = []

        def body(i, fn):
            self.tids[threading.get_ident()] = i
            with self.cv:
                while self.current != i:
                    if not self.cv.wait(timeout=10):
                        self.errors.append((i, "start timeout"))
                        return
            try:
                fn()
            except BaseException as e:  # noqa
                self.errors.append((i, repr(e)))
            finally:
                with self.cv:
                    self.alive.remove(i)
                    self._pass_token()

        self.alive = list(range(len(fns)))
        for i, fn in enumerate(fns):
            t = threading.Thread(target=body, args=(i, fn), daemon=True)
            threads.append(t)
            t.start()
        with self.cv:
            self._pass_token()
        hung = False
        for t in threads:
            t.join(timeout)
            if t.is_alive():
                hung = True
        return not hung


class SchedRLock:
    """RLock whose outermost acquire / release are preemption points and are logged."""

    def __init__(self, sched):
        self.sched = sched
        self._lock = threading.RLock()
        self.owner = None
        self.depth = 0

    def acquire(self, blocking=True, timeout=-1):
        me = threading.get_ident()
        if self.owner != me:
            self.sched.yield_point()
            while self.owner is not None:
                self.sched.yield_point()
        self._lock.acquire()
        if self.depth == 0:
            self.owner = me
            self.sched.record(("cs", self.sched.tid()))
        self.depth += 1
        return True

    def release(self):
        self.depth -= 1
        last = self.depth == 0
        if last:
            self.owner = None
        self._lock.release()
        if last:
            self.sched.yield_point()

    def owned_by_me(self):
        return self.owner == threading.get_ident()

    __enter__ = acquire

    def __exit__(self, *a):
        self.release()
