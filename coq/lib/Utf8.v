(* UTF-8 encoding of a Python str (list of code points), strict: lone
   surrogates and out-of-range code points fail (UnicodeEncodeError). *)
From Coq Require Import List NArith ZArith Bool Lia ZifyBool ZifyN.
Ltac Zify.zify_post_hook ::= Z.to_euclidean_division_equations.
From V Require Import lib.PyStr.
Import ListNotations.
Local Open Scope N_scope.
Arguments N.add : simpl never.
Arguments N.div : simpl never.
Arguments N.modulo : simpl never.

Definition utf8_cp (c : N) : option (list N) :=
  if c <? 128 then Some [c]
  else if c <? 2048 then Some [192 + c / 64; 128 + c mod 64]
  else if (55296 <=? c) && (c <=? 57343) then None
  else if c <? 65536 then Some [224 + c / 4096; 128 + (c / 64) mod 64; 128 + c mod 64]
  else if c <? 1114112 then Some [240 + c / 262144; 128 + (c / 4096) mod 64; 128 + (c / 64) mod 64; 128 + c mod 64]
  else None.

Fixpoint utf8 (s : str) : option (list N) :=
  match s with
  | [] => Some []
  | c :: r => match utf8_cp c, utf8 r with
              | Some a, Some b => Some (a ++ b)
              | _, _ => None
              end
  end.

Lemma utf8_cp_ascii c : c < 128 -> utf8_cp c = Some [c].
Proof. intros H. unfold utf8_cp. apply N.ltb_lt in H. rewrite H. reflexivity. Qed.

(* a non-ASCII code point only produces bytes >= 128 *)
Lemma utf8_cp_high c bs b : 128 <= c -> utf8_cp c = Some bs -> In b bs -> 128 <= b.
Proof.
  intros Hc. unfold utf8_cp.
  destruct (c <? 128) eqn:E1; [apply N.ltb_lt in E1; exfalso; lia|].
  destruct (c <? 2048); [intros H Hin; inversion H; subst bs; destruct Hin as [<-|[<-|[]]]; lia|].
  destruct ((55296 <=? c) && (c <=? 57343)); [discriminate|].
  destruct (c <? 65536); [intros H Hin; inversion H; subst bs; destruct Hin as [<-|[<-|[<-|[]]]]; lia|].
  destruct (c <? 1114112); [intros H Hin; inversion H; subst bs; destruct Hin as [<-|[<-|[<-|[<-|[]]]]]; lia | discriminate].
Qed.

(* an ASCII byte in the output comes from that very ASCII code point *)
Lemma utf8_low_byte s bs b : utf8 s = Some bs -> In b bs -> b < 128 -> In b s.
Proof.
  revert bs. induction s as [|c s IH]; simpl; intros bs H Hin Hb.
  - injection H as <-. contradiction.
  - destruct (utf8_cp c) as [a|] eqn:Ea; [|discriminate].
    destruct (utf8 s) as [r|] eqn:Er; [|discriminate]. injection H as <-.
    apply in_app_iff in Hin as [Hin|Hin].
    + destruct (N.lt_ge_cases c 128) as [Hc|Hc].
      * rewrite utf8_cp_ascii in Ea by assumption. injection Ea as <-. destruct Hin as [<-|[]]. left. reflexivity.
      * pose proof (utf8_cp_high c a b Hc Ea Hin). lia.
    + right. eapply IH; eauto.
Qed.

Lemma utf8_app a b : utf8 (a ++ b) = match utf8 a, utf8 b with Some x, Some y => Some (x ++ y) | _, _ => None end.
Proof.
  induction a as [|c a IH]; simpl.
  - destruct (utf8 b); reflexivity.
  - rewrite IH. destruct (utf8_cp c), (utf8 a), (utf8 b); try reflexivity. rewrite app_assoc. reflexivity.
Qed.

Lemma utf8_ascii s : Forall (fun c => c < 128) s -> utf8 s = Some s.
Proof.
  induction 1 as [|c s Hc Hs IH]; simpl; [reflexivity|].
  rewrite utf8_cp_ascii by assumption. rewrite IH. reflexivity.
Qed.
