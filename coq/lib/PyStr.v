(* Python str / bytes as lists of code points / byte values. *)
From Coq Require Import List NArith Bool.
Import ListNotations.
Local Open Scope N_scope.

Definition str := list N.

Fixpoint str_eqb (a b : str) : bool :=
  match a, b with
  | [], [] => true
  | x :: a', y :: b' => (x =? y) && str_eqb a' b'
  | _, _ => false
  end.

Lemma str_eqb_eq a b : str_eqb a b = true <-> a = b.
Proof.
  revert b; induction a as [|x a IH]; intros [|y b]; simpl; split; intro H;
    try reflexivity; try discriminate.
  - apply andb_true_iff in H as [H1 H2]. apply N.eqb_eq in H1. apply IH in H2. congruence.
  - injection H as -> ->. rewrite N.eqb_refl. simpl. apply IH. reflexivity.
Qed.

Lemma str_eqb_refl a : str_eqb a a = true.
Proof. apply str_eqb_eq. reflexivity. Qed.

Lemma str_eqb_neq a b : str_eqb a b = false <-> a <> b.
Proof.
  split; intro H.
  - intro E. apply str_eqb_eq in E. congruence.
  - destruct (str_eqb a b) eqn:E; [apply str_eqb_eq in E; contradiction | reflexivity].
Qed.

Lemma str_eqb_sym a b : str_eqb a b = str_eqb b a.
Proof.
  destruct (str_eqb a b) eqn:E.
  - apply str_eqb_eq in E. subst. symmetry. apply str_eqb_refl.
  - symmetry. apply str_eqb_neq. apply str_eqb_neq in E. congruence.
Qed.

(* ASCII-only lower/upper; identity elsewhere (see DESIGN §3). *)
Definition lower_cp (c : N) : N := if (65 <=? c) && (c <=? 90) then c + 32 else c.
Definition upper_cp (c : N) : N := if (97 <=? c) && (c <=? 122) then c - 32 else c.
Definition ascii_lower (s : str) : str := map lower_cp s.
Definition ascii_upper (s : str) : str := map upper_cp s.

Fixpoint join (sep : str) (l : list str) : str :=
  match l with
  | [] => []
  | [x] => x
  | x :: r => x ++ sep ++ join sep r
  end.

Definition mem_str (x : str) (l : list str) : bool := existsb (str_eqb x) l.

Fixpoint starts_with (p s : str) : bool :=
  match p, s with
  | [], _ => true
  | x :: p', y :: s' => (x =? y) && starts_with p' s'
  | _ :: _, [] => false
  end.

(* literal helper: Coq string -> str *)
From Coq Require Import Ascii String.
Fixpoint str_of_string (s : string) : str :=
  match s with
  | EmptyString => []
  | String c r => N_of_ascii c :: str_of_string r
  end.
Notation "'S!' s" := (str_of_string s%string) (at level 0, s at level 0).
