(* Generic case / observation format shared by the model drivers and the
   Python harnesses: s-expressions over natural numbers.
     text  ::= number | '(' text* ')'           (separated by blanks)
   Python `str`/`bytes` travel as lists of code points / byte values. *)
From Coq Require Import List NArith ZArith Ascii String Bool.
Import ListNotations.
Local Open Scope N_scope.

Inductive sexp : Type := SN (n : N) | SL (l : list sexp).

(* ---------- printing ---------- *)

Definition digit_char (d : N) : ascii := ascii_of_N (48 + d).

(* decimal digits of a positive, by fuel = number of bits (always enough) *)
Fixpoint n_digits (fuel : nat) (n : N) (acc : string) : string :=
  match fuel with
  | O => acc
  | S f =>
      let q := n / 10 in
      let r := n mod 10 in
      let acc' := String (digit_char r) acc in
      if q =? 0 then acc' else n_digits f q acc'
  end.

Definition string_of_N (n : N) : string := n_digits (S (N.to_nat (N.size n))) n EmptyString.

Fixpoint print_to (s : sexp) (k : string) : string :=
  match s with
  | SN n => append (string_of_N n) k
  | SL l =>
      String "("%char
        ((fix go (l : list sexp) (first : bool) : string :=
            match l with
            | [] => String ")"%char k
            | x :: r =>
                let rest := print_to x (go r false) in
                if first then rest else String " "%char rest
            end) l true)
  end.

Definition print (s : sexp) : string := print_to s EmptyString.

(* ---------- parsing ---------- *)

Definition is_digit (c : ascii) : bool :=
  let n := N_of_ascii c in (48 <=? n) && (n <=? 57).

Definition push_num (cur : option N) (top : list sexp) : list sexp :=
  match cur with Some n => SN n :: top | None => top end.

(* top is the reversed list under construction; stack holds the reversed
   lists of the enclosing levels. *)
Fixpoint parse_go (cs : string) (cur : option N) (top : list sexp)
         (stack : list (list sexp)) : option (list sexp) :=
  match cs with
  | EmptyString =>
      match stack with
      | [] => Some (rev (push_num cur top))
      | _ :: _ => None
      end
  | String c r =>
      if is_digit c then
        let d := N_of_ascii c - 48 in
        parse_go r (Some (match cur with Some n => n * 10 + d | None => d end)) top stack
      else if Ascii.eqb c "("%char then
        parse_go r None [] (push_num cur top :: stack)
      else if Ascii.eqb c ")"%char then
        match stack with
        | [] => None
        | up :: stack' => parse_go r None (SL (rev (push_num cur top)) :: up) stack'
        end
      else (* blank / separator *)
        parse_go r None (push_num cur top) stack
  end.

Definition parse (s : string) : option sexp :=
  match parse_go s None [] [] with
  | Some [x] => Some x
  | _ => None
  end.

(* ---------- helpers for decoders / encoders ---------- *)

Definition s_bool (b : bool) : sexp := SN (if b then 1 else 0).
Definition s_str (l : list N) : sexp := SL (map SN l).
Definition s_nat (n : nat) : sexp := SN (N.of_nat n).
Definition s_Z (z : Z) : sexp :=
  match z with
  | Z0 => SL [SN 0; SN 0]
  | Zpos p => SL [SN 0; SN (Npos p)]
  | Zneg p => SL [SN 1; SN (Npos p)]
  end.
Definition s_opt {A} (f : A -> sexp) (o : option A) : sexp :=
  match o with None => SL [] | Some a => SL [f a] end.
Definition s_list {A} (f : A -> sexp) (l : list A) : sexp := SL (map f l).
Definition s_pair {A B} (f : A -> sexp) (g : B -> sexp) (p : A * B) : sexp :=
  SL [f (fst p); g (snd p)].

Definition as_N (s : sexp) : option N := match s with SN n => Some n | _ => None end.
Definition as_nat (s : sexp) : option nat := match s with SN n => Some (N.to_nat n) | _ => None end.
Definition as_bool (s : sexp) : option bool :=
  match s with SN 0 => Some false | SN 1 => Some true | _ => None end.
Definition as_list (s : sexp) : option (list sexp) := match s with SL l => Some l | _ => None end.

Fixpoint all_some {A} (l : list (option A)) : option (list A) :=
  match l with
  | [] => Some []
  | None :: _ => None
  | Some a :: r => match all_some r with Some r' => Some (a :: r') | None => None end
  end.

Definition as_list_of {A} (f : sexp -> option A) (s : sexp) : option (list A) :=
  match s with SL l => all_some (map f l) | _ => None end.
Definition as_str (s : sexp) : option (list N) := as_list_of as_N s.
Definition as_Z (s : sexp) : option Z :=
  match s with
  | SL [SN 0; SN n] => Some (Z.of_N n)
  | SL [SN 1; SN n] => Some (- Z.of_N n)%Z
  | _ => None
  end.
Definition as_opt {A} (f : sexp -> option A) (s : sexp) : option (option A) :=
  match s with
  | SL [] => Some None
  | SL [x] => match f x with Some a => Some (Some a) | None => None end
  | _ => None
  end.

(* observation used when a case does not decode: never equal to a real one *)
Definition s_bad_case : sexp := SL [SN 999999; SN 999999].

(* driver entry: text in, text out *)
Definition run_text (run : sexp -> sexp) (line : string) : string :=
  match parse line with
  | Some c => print (run c)
  | None => "PARSE-ERROR"%string
  end.

(* in-Coq confirmation: indices of cases where the model's text differs from
   the expected text (what the extracted binary printed) *)
Fixpoint mismatches_from (run : sexp -> sexp) (i : N) (cases : list (string * string)) : list N :=
  match cases with
  | [] => []
  | (c, e) :: r =>
      if String.eqb (run_text run c) e then mismatches_from run (i + 1) r
      else i :: mismatches_from run (i + 1) r
  end.
Definition mismatches (run : sexp -> sexp) (cases : list (string * string)) : list N :=
  mismatches_from run 0 cases.
