(* C05 — redirects are followed only as far as the effective retry policy allows.  Statements only. *)
From Coq Require Import String List NArith ZArith QArith Bool.
From V Require Import lib.PyStr model.Retry model.Redirect gen.Gen_Resp gen.Gen_Pm gen.Gen_Coll gen.Gen_Retry
  proofs.Redirect_proofs corr.Run_C04 corr.Run_C05.
Import ListNotations.
Local Open Scope Z_scope.

(* anchors *)
Theorem gen_redirect_facts_pinned :
  Gen_Resp.redirect_statuses = Some [301; 302; 303; 307; 308] /\
  Gen_Pm.manager_forced_kw = Some [(S!"assert_same_host", false); (S!"redirect", false)] /\
  (* the manager takes the redirect policy from the pool's configured retries when the caller gave none *)
  Gen_Pm.manager_retries_fallback = Some 2%N.
Proof. repeat split; reflexivity. Qed.
Print Assumptions gen_redirect_facts_pinned.

(* followed redirects <= redirect budget and <= total budget of the Retry object in effect *)
Theorem redirects_le_budget_manager : forall L ce re rs ch fb mkd script redirect cur rq r pr vp log k,
  (r_redirect r = CInt k \/ r_total r = CInt k) -> 0 <= k ->
  (length (fst (manager_loop L ce re rs ch fb mkd script redirect cur rq (RObj r) pr vp log)) <= length log + 1 + Z.to_nat k)%nat.
Proof. exact manager_budget. Qed.
Print Assumptions redirects_le_budget_manager.

Theorem redirects_le_budget_pool : forall L ce re rs ch mkd script redirect asame pool cur rq r pr log k,
  (r_redirect r = CInt k \/ r_total r = CInt k) -> 0 <= k ->
  (length (fst (pool_loop L ce re rs ch mkd script redirect asame pool cur rq (RObj r) pr log)) <= length log + 1 + Z.to_nat k)%nat.
Proof. exact pool_budget. Qed.
Print Assumptions redirects_le_budget_pool.

(* which Retry object is in effect when the caller gave none: the pool/manager-level one
   (by computation with the regenerated fallback rule) *)
Theorem manager_level_policy_in_effect :
  let r := init (CInt 5) CNone CNone (CInt 0) CNone CNone (Some dflt_allowed) [] true true true 0%Q 120%Q [] dflt_rm in
  let hop := Hop 302 (Some (mkT (mkO (S!"http") (S!"a") None) (S!"/x"))) in
  manager_loop LAT [] [] (getl Gen_Resp.redirect_statuses) [] (match Gen_Pm.manager_retries_fallback with Some n => n | None => 0%N end) mkdefault
    [hop; hop; Hop 200 None] true (mkT (mkO (S!"http") (S!"a") None) (S!"/")) (mkRq (S!"GET") false []) RNone (RObj r) None []
  = ([mkLog (mkO (S!"http") (S!"a") None) (S!"/") (mkRq (S!"GET") false [])], OMaxRetry).
Proof. vm_compute. reflexivity. Qed.
Print Assumptions manager_level_policy_in_effect.

(* redirect=False: the 3xx is returned and nothing else is sent *)
Theorem disabled_never_contacts_target : forall L ce re rs ch fb mkd h rest cur rq kw pr vp,
  manager_loop L ce re rs ch fb mkd (h :: rest) false cur rq kw pr vp [] =
  ([mkLog (t_origin cur) (t_path cur) rq], OResponse (status_of h)).
Proof. exact redirect_disabled. Qed.
Print Assumptions disabled_never_contacts_target.

(* retries=False (a policy whose total is False): likewise *)
Theorem retries_false_never_contacts_target : forall L ce re rs ch fb mkd h rest cur rq r pr vp loc,
  r_total r = CFalse -> r_raise_on_redirect r = false -> redirect_location rs h = Some loc ->
  manager_loop L ce re rs ch fb mkd (h :: rest) true cur rq (RObj r) pr vp [] =
  ([mkLog (t_origin cur) (t_path cur) rq], OResponse (status_of h)).
Proof. exact retries_false_returns_response. Qed.
Print Assumptions retries_false_never_contacts_target.

Theorem from_int_false_is_disabled : forall redirect,
  let r := mkdefault redirect RFalse None in r_total r = CFalse /\ r_raise_on_redirect r = false.
Proof. intros []; vm_compute; split; reflexivity. Qed.
Print Assumptions from_int_false_is_disabled.

(* 303: the follow-up is a body-less GET without content headers *)
Theorem see_other_rewrites : forall ch rq,
  q_method (see_other ch rq) = S!"GET" /\ q_body (see_other ch rq) = false /\
  forall k v, In (k, v) (q_headers (see_other ch rq)) -> mem_str (ascii_lower k) (map ascii_lower ch) = false.
Proof. exact see_other_is_bodyless_get. Qed.
Print Assumptions see_other_rewrites.
