(* C02 — concurrent requests never share a connection, exceed maxsize, or deadlock.
   Statements only: for every number of threads, every program (requests, failing requests, close()) per thread, every
   maxsize and block flag, every schedule (any list of thread numbers, of any length) and every number of steps. *)
From Coq Require Import List Arith Bool.
From V Require Import model.PoolConc proofs.PoolConc_proofs gen.Gen_Conc corr.Run_C02.
Import ListNotations.

(* the source facts regenerated on this run: _get_conn, _put_conn and close read self.pool 2, 3 and 2 times (the model has
   one step per read), and the full-queue warning copes with a pool closed meanwhile *)
Theorem source_facts : Gen_Conc.pool_reads = Some [2; 3; 2] /\ Gen_Conc.warning_reads_pool_safely = Some true.
Proof. split; reflexivity. Qed.
Print Assumptions source_facts.

(* in every state any interleaving can reach:
   - no connection is idle in the queue twice, or idle and in use, or in use by two threads;
   - every open connection is idle in the queue or held by exactly one thread (nothing leaks while the pool lives);
   - a block=True pool has at most maxsize connections open, at any moment *)
Theorem exclusive_use_and_bound : forall ws maxsize block progs fuel sched,
  let st := PoolConc.run ws fuel maxsize block (init maxsize progs) sched in
  NoDup (qconns (s_q st) ++ helds (s_threads st)) /\
  (forall c, In c (s_open st) -> In c (qconns (s_q st) ++ helds (s_threads st))) /\
  (block = true -> length (s_open st) <= maxsize /\ s_max_open st <= maxsize).
Proof. exact reachable_exclusive. Qed.
Print Assumptions exclusive_use_and_bound.

(* no operation ever ends in AttributeError (an internal error), whatever close() races with *)
Theorem no_attribute_error : forall maxsize block progs fuel sched,
  no_internal_error (PoolConc.run warn_safe fuel maxsize block (init maxsize progs) sched).
Proof. exact PoolConc_proofs.no_attribute_error. Qed.
Print Assumptions no_attribute_error.

(* without close(): as long as some thread has work left, some thread can move - nobody waits for ever, no slot is lost,
   no wake-up is missed (a thread parked in get on an empty queue means a connection is held by a thread that can run) *)
Theorem progress_without_close : forall ws maxsize block progs fuel sched,
  Forall (fun ops => ~ In Close ops) progs -> 1 <= maxsize ->
  let st := PoolConc.run ws fuel maxsize block (init maxsize progs) sched in
  (exists th, In th (s_threads st) /\ t_pc th <> PIdle) ->
  exists t, t < length (s_threads st) /\ runnable block st t = true.
Proof. exact PoolConc_proofs.progress_without_close. Qed.
Print Assumptions progress_without_close.

(* "every request eventually completes" is false when close() races with a waiter (known finding C02-F1):
   maxsize 1, block=True; thread 0 holds the connection, thread 1 waits in get, thread 2 closes the pool; thread 0 then
   closes its connection instead of returning it, and thread 1 waits for ever *)
Theorem waiter_woken_by_close_refuted :
  exists progs sched,
    let st := PoolConc.run true 200 1 true (init 1 progs) sched in
    map t_pc (s_threads st) = [PIdle; PGet; PIdle] /\ s_q st = [] /\ s_closed st = true.
Proof.
  exists [[Request]; [Request]; [Close]], [0; 0; 0; 0; 1; 1; 1; 1; 2; 2; 2; 2; 0; 0; 0; 0].
  vm_compute. repeat split.
Qed.
Print Assumptions waiter_woken_by_close_refuted.

(* ... and so is the freedom from internal errors for the code before the repair (the warning reading self.pool again) *)
Example unsafe_warning_raises :
  let st := PoolConc.run false 200 1 false (init 1 [[Request]; [Request]; [Close]]) [0; 0; 0; 0; 1; 1; 1; 1; 0; 0; 0; 0; 1; 1; 1; 1; 2; 2; 2; 1] in
  map t_outs (s_threads st) = [[0]; [3]; [4]].
Proof. vm_compute. reflexivity. Qed.

(* non-vacuity: without close(), three threads on a blocking pool of one connection all finish, one connection is made *)
Example three_threads_one_connection :
  let st := PoolConc.run true 200 1 true (init 1 [[Request; Request]; [Request]; [RequestFail]]) [2; 1; 0; 0; 1; 2; 2; 2; 1; 0; 1; 1; 0] in
  (map t_outs (s_threads st), map t_pc (s_threads st), length (s_q st), s_max_open st) = ([[0; 0]; [0]; [5]], [PIdle; PIdle; PIdle], 1, 1).
Proof. vm_compute. reflexivity. Qed.
