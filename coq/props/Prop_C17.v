(* C17 — the pool cache is bounded, consistent, and never leaks an evicted pool.
   Statements only; each closed by `exact`/`apply` of a lemma + Print Assumptions.
   All theorems: every operation sequence of any length, every maxsize. *)
From Coq Require Import List NArith Bool Arith Permutation Sorted.
From V Require Import model.Lru model.LruConc proofs.Lru_proofs proofs.Lru_order
  proofs.Lru_corollaries proofs.LruConc_proofs.
Import ListNotations.

(* at most maxsize entries, no key twice — after any operation sequence *)
Theorem lru_bound : forall m ops,
  let c := fst (fst (run m ops [])) in length c <= m /\ NoDup (map fst c).
Proof. intros m ops. destruct (run_inv m ops [] (Inv_empty m)) as [H1 H2]. split; assumption. Qed.
Print Assumptions lru_bound.

(* dispose exactly once: values handed to dispose_func + values still stored
   = values ever stored (as multisets): none disposed twice, none dropped silently *)
Theorem dispose_exactly_once : forall m ops,
  let '(c', _, ds) := run m ops [] in
  Permutation (all_stored m ops []) (map snd c' ++ ds).
Proof.
  intros m ops. pose proof (dispose_conservation m ops []) as P.
  destruct (run m ops []) as [[c' xs] ds]. simpl in P. rewrite app_nil_r in P. exact P.
Qed.
Print Assumptions dispose_exactly_once.

(* a pool that is still cached is never closed behind the caller's back *)
Theorem cached_never_closed : forall m ops v,
  NoDup (all_stored m ops []) ->
  let '(c', _, ds) := run m ops [] in In v (map snd c') -> ~ In v ds.
Proof. exact cached_not_disposed. Qed.
Print Assumptions cached_never_closed.

(* equal connection parameters obtain the same pool until it is evicted/disposed *)
Theorem same_key_same_pool : forall m k v f ops c,
  Inv m c -> c_find k c = Some v ->
  let '(c', _, ds) := run m ops c in
  ~ In v ds -> snd (fst (step m c' (GetOrCreate k f))) = RVal v.
Proof. exact same_key_same_value. Qed.
Print Assumptions same_key_same_pool.

(* the stored order is the order of last access: a get refreshes recency *)
Theorem lru_order : forall m ops,
  let '(ts, clock, c) := run_stamps m ops (fun _ => 0) 0 [] in
  StronglySorted (fun a b => ts a < ts b) (map fst c) /\ Forall (fun k => ts k < clock) (map fst c).
Proof.
  intros m ops. apply (run_order m ops (fun _ => 0) 0 []); [apply Inv_empty | split; constructor].
Qed.
Print Assumptions lru_order.

(* ... hence the evicted entry is the least recently used one *)
Theorem evicts_lru : forall m ts clock k v c c' ev,
  Inv m c -> GInv ts clock (map fst c) -> c_find k c = None ->
  setitem m k v c = (c', [ev]) ->
  exists ke, c ++ [(k, v)] = (ke, ev) :: c' /\
             forall k', In k' (map fst c') -> upd ts k clock ke < upd ts k clock k'.
Proof. exact evicts_least_recent. Qed.
Print Assumptions evicts_lru.

(* every interleaving of threads = the sequential run of the critical sections
   in the order taken; disposed + still-pending = the sequential dispose list *)
Theorem lru_linearizable : forall m c0 progs sched,
  let s := crun m sched (cinit c0 progs) in
  exists ds, run m (c_done s) c0 = (c_cont s, map snd (c_results s), ds) /\
             Permutation ds (c_disposed s ++ all_pending s).
Proof. exact linearizable. Qed.
Print Assumptions lru_linearizable.

(* non-vacuity: maxsize 2, get refreshes, eviction of the least recent *)
Example lru_nonvacuous :
  run 2 [Set_ 1 10; Set_ 2 20; Get 1; Set_ 3 30]%N [] =
  ([(1, 10); (3, 30)]%N, [RNone; RNone; RVal 10%N; RNone], [20%N]).
Proof. vm_compute. reflexivity. Qed.
