(* C06 — credentials are never forwarded to a different origin on redirect.  Statements only. *)
From Coq Require Import String List NArith ZArith QArith Bool.
From V Require Import lib.PyStr model.Retry model.Redirect gen.Gen_Retry gen.Gen_Pm gen.Gen_Urlopen gen.Gen_Resp gen.Gen_Coll proofs.Redirect_proofs corr.Run_C04 corr.Run_C05.
Import ListNotations.
Local Open Scope Z_scope.

Definition o_target_of (script : list hop) : origin :=
  match script with Hop _ (Some t) :: _ => t_origin t | _ => mkO [] [] None end.

(* the default removal set covers the three credential headers (lower-cased as Retry.__init__ stores them) *)
Theorem default_rm_covers :
  forall h, In h [S!"authorization"; S!"cookie"; S!"proxy-authorization"] ->
  mem_str h (r_remove_headers lib_default) = true.
Proof. intros h [<-|[<-|[<-|[]]]]; vm_compute; reflexivity. Qed.
Print Assumptions default_rm_covers.

(* is_same_host parses a network-path reference ("//host/path", what a scheme-relative Location stays when the current URL was
   written without a scheme) instead of taking it for a path on the current host - the model compares origins of resolved URLs *)
Theorem same_host_source_fact : Gen_Pm.same_host_reads_network_path = Some true.
Proof. reflexivity. Qed.
Print Assumptions same_host_source_fact.

(* once a redirect leaves the current origin, no request of the rest of the chain carries a header
   of the removal set — whatever its casing, for every chain, policy and header list *)
Theorem credentials_never_cross_origin : forall L ce re rs ch fb mkd h rest cur rq r pr vp log loc e,
  redirect_location rs h = Some loc ->
  r_remove_headers r <> [] ->
  is_same_host (match vp with Some p => p | None => pool_of (t_origin cur) end) (t_origin loc) = false ->
  In e (fst (manager_loop L ce re rs ch fb mkd (h :: rest) true cur rq (RObj r) pr vp log)) ->
  In e (log ++ [mkLog (t_origin cur) (t_path cur) rq]) \/
  (forall k v, In (k, v) (q_headers (l_req e)) -> mem_str (ascii_lower k) (r_remove_headers r) = false).
Proof. exact credentials_stripped_after_cross_origin. Qed.
Print Assumptions credentials_never_cross_origin.

(* the hypothesis above is the pool's view: through a forwarding proxy the pool in hand is the proxy's (vp = Some proxy), and
   the statement with the origin of the request in its place is false - a redirect to the proxy's own address is "same host",
   and the request sent there still carries Authorization (known finding C06-F1) *)
Theorem credentials_cross_origin_via_proxy_refuted : exists script cur rq proxy e,
  is_same_host (pool_of (t_origin cur)) (o_target_of script) = false /\
  In e (fst (manager_loop LAT (getl Gen_Urlopen.retry_connection_error) (getl Gen_Urlopen.retry_read_error)
               (getl Gen_Resp.redirect_statuses) (getl Gen_Coll.content_specific_headers) 2 mkdefault
               script true cur rq RNone RNone (Some proxy) [])) /\
  l_origin e = proxy /\ In (S!"Authorization", S!"s1") (q_headers (l_req e)).
Proof.
  exists [Hop 302 (Some (mkT (mkO (S!"http") (S!"proxy.example") (Some 3128)) (S!"/final"))); Hop 200 None],
         (mkT (mkO (S!"http") (S!"a.example") None) (S!"/start")),
         (mkRq (S!"GET") false [(S!"Authorization", S!"s1")]),
         (mkO (S!"http") (S!"proxy.example") (Some 3128)).
  eexists. split; [vm_compute; reflexivity|]. split; [vm_compute; right; left; reflexivity|]. split; vm_compute; [reflexivity|left; reflexivity].
Qed.
Print Assumptions credentials_cross_origin_via_proxy_refuted.

(* all other headers are preserved on the next request (apart from the content headers a 303 drops) *)
Theorem other_headers_preserved : forall ch status rq rm k v,
  In (k, v) (q_headers rq) -> mem_str (ascii_lower k) rm = false ->
  (status = GET303 -> mem_str (ascii_lower k) (map ascii_lower ch) = false) ->
  In (k, v) (drop_headers rm (q_headers (if status =? GET303 then see_other ch rq else rq))).
Proof. exact next_request_keeps. Qed.
Print Assumptions other_headers_preserved.

(* a single-host pool refuses a cross-host target before sending anything *)
Theorem single_host_refuses : forall L ce re rs ch mkd h rest redirect pool cur rq arg pr log,
  is_same_host pool (t_origin cur) = false ->
  pool_loop L ce re rs ch mkd (h :: rest) redirect true pool cur rq arg pr log = (log, OHostChanged).
Proof. exact single_host_pool_refuses. Qed.
Print Assumptions single_host_refuses.

(* origins differing in host, port or scheme are different; case and an explicit default port are not *)
Example same_host_examples :
  let p := pool_of (mkO (S!"http") (S!"Example.COM") None) in
  is_same_host p (mkO (S!"http") (S!"EXAMPLE.com") (Some 80)) = true /\
  is_same_host p (mkO (S!"http") (S!"example.com") (Some 8080)) = false /\
  is_same_host p (mkO (S!"https") (S!"example.com") None) = false /\
  is_same_host p (mkO (S!"http") (S!"example.org") None) = false.
Proof. vm_compute. repeat split. Qed.
