(* C18 — connections are never shared across differing connection settings.
   Statements only.  The name lists are those regenerated from the source. *)
From Coq Require Import String List NArith ZArith Bool.
From V Require Import lib.PyStr model.PoolKey gen.Gen_Key proofs.PoolKey_proofs.
Import ListNotations.

Definition get {A} (o : option (list A)) : list A := match o with Some l => l | None => [] end.
Definition FIELDS := get Gen_Key.poolkey_fields.
Definition ALL_CTOR_KW := get Gen_Key.kw_http_pool ++ get Gen_Key.kw_https_pool ++ get Gen_Key.kw_http_conn ++ get Gen_Key.kw_https_conn.

(* anchors: every fact the model takes from the source was found *)
Theorem gen_key_facts_present :
  Gen_Key.poolkey_fields <> None /\ Gen_Key.norm_dict_keys <> None /\ Gen_Key.norm_lowered <> None /\
  Gen_Key.norm_tuple_key <> None /\ Gen_Key.default_blocksize <> None /\
  Gen_Key.kw_http_pool <> None /\ Gen_Key.kw_https_pool <> None /\ Gen_Key.kw_http_conn <> None /\ Gen_Key.kw_https_conn <> None.
Proof. repeat split; discriminate. Qed.
Print Assumptions gen_key_facts_present.

Theorem gen_fields_nodup : NoDup FIELDS.
Proof. apply nodupb_sound. vm_compute. reflexivity. Qed.
Print Assumptions gen_fields_nodup.

(* key_complete: every keyword the pool and connection constructors accept is host/port,
   or a field of the key; the only others are `proxy` and `proxy_config`, which a
   PoolManager rejects (next theorem) *)
Theorem key_complete :
  filter (fun kw => negb (mem_str kw [S!"host"; S!"port"]) && negb (mem_str (KEY_ ++ kw) FIELDS)) ALL_CTOR_KW
  = [S!"proxy"; S!"proxy_config"; S!"proxy"; S!"proxy_config"].
Proof. vm_compute. reflexivity. Qed.
Print Assumptions key_complete.

(* only `strict` is dropped before the key is built, and it is not a constructor keyword *)
Theorem nothing_relevant_dropped_before_key :
  Gen_Key.popped_before_key = Some [S!"strict"] /\ mem_str (S!"strict") ALL_CTOR_KW = false.
Proof. split; vm_compute; reflexivity. Qed.
Print Assumptions nothing_relevant_dropped_before_key.

Theorem unknown_kw_rejected : forall fields dict_keys lowered tuple_key bs c kw v,
  In (kw, v) c -> mem_str (KEY_ ++ kw) fields = false ->
  forall key, normalizer fields dict_keys lowered tuple_key bs c <> NOk key.
Proof. exact unknown_keyword_rejected. Qed.
Print Assumptions unknown_kw_rejected.

(* same pool => equal effective settings for every key field *)
Theorem key_injective : forall fields dict_keys lowered tuple_key bs c1 c2 k1 k2,
  normalizer fields dict_keys lowered tuple_key bs c1 = NOk k1 ->
  normalizer fields dict_keys lowered tuple_key bs c2 = NOk k2 ->
  keys_eqb k1 k2 = true ->
  forall kw, In (KEY_ ++ kw) fields -> NoDup fields ->
  pv_eqb (effective dict_keys lowered tuple_key bs kw c1) (effective dict_keys lowered tuple_key bs kw c2) = true.
Proof. exact PoolKey_proofs.key_injective. Qed.
Print Assumptions key_injective.

(* a difference in any one key setting yields a distinct pool key *)
Theorem differs_in_one_kw_distinct : forall fields dict_keys lowered tuple_key bs c1 c2 k1 k2 kw,
  normalizer fields dict_keys lowered tuple_key bs c1 = NOk k1 ->
  normalizer fields dict_keys lowered tuple_key bs c2 = NOk k2 ->
  In (KEY_ ++ kw) fields -> NoDup fields ->
  pv_eqb (effective dict_keys lowered tuple_key bs kw c1) (effective dict_keys lowered tuple_key bs kw c2) = false ->
  keys_eqb k1 k2 = false.
Proof. exact differing_setting_distinct_key. Qed.
Print Assumptions differs_in_one_kw_distinct.

Theorem defaults_untouched : forall base, merge_pool_kwargs base None = base.
Proof. exact merge_none_is_defaults. Qed.
Print Assumptions defaults_untouched.

(* KNOWN FINDING C18-F1 (the model contains it): key components compare with Python ==,
   so settings of different type but equal numeric value are not told apart *)
Theorem strict_type_distinction_refuted :
  exists c1 c2 k1 k2,
    normalizer FIELDS (get Gen_Key.norm_dict_keys) (get Gen_Key.norm_lowered) (S!"socket_options") 16384 c1 = NOk k1 /\
    normalizer FIELDS (get Gen_Key.norm_dict_keys) (get Gen_Key.norm_lowered) (S!"socket_options") 16384 c2 = NOk k2 /\
    c_get (S!"retries") c1 = Some (VInt 0) /\ c_get (S!"retries") c2 = Some (VBool false) /\
    keys_eqb k1 k2 = true.
Proof.
  exists [(S!"scheme", VStr (S!"http")); (S!"host", VStr (S!"h")); (S!"port", VInt 80); (S!"retries", VInt 0)].
  exists [(S!"scheme", VStr (S!"http")); (S!"host", VStr (S!"h")); (S!"port", VInt 80); (S!"retries", VBool false)].
  eexists. eexists. vm_compute. repeat split.
Qed.
Print Assumptions strict_type_distinction_refuted.
