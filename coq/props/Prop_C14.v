(* C14 — URL parsing is total, canonical, and agrees with RFC 3986 on what the host is.
   Statements only.  `None` of the model's parse_url stands for LocationParseError. *)
From Coq Require Import String List NArith Bool Arith Lia.
From V Require Import lib.PyStr model.Url model.UrlRef model.UrlPins gen.Gen_Url proofs.Url_proofs.
Import ListNotations.
Local Open Scope N_scope.

(* anchors: every pattern / character-set literal of util/url.py is the one the scanners were written for *)
Theorem url_regex_literals_pinned :
  Gen_Url.percent_re = Some UrlPins.percent_re /\ Gen_Url.scheme_re = Some UrlPins.scheme_re /\
  Gen_Url.uri_re = Some UrlPins.uri_re /\ Gen_Url.target_re = Some UrlPins.target_re /\
  Gen_Url.ipv4_re = Some UrlPins.ipv4_re /\ Gen_Url.ipv6_re = Some UrlPins.ipv6_re /\
  Gen_Url.ipv6_addrz_re = Some UrlPins.ipv6_addrz_re /\
  Gen_Url.braceless_ipv6_addrz_re = Some UrlPins.braceless_ipv6_addrz_re /\
  Gen_Url.zone_id_re = Some UrlPins.zone_id_re /\ Gen_Url.host_port_re = Some UrlPins.host_port_re.
Proof. repeat split; reflexivity. Qed.
Print Assumptions url_regex_literals_pinned.

Theorem url_charsets_pinned :
  Gen_Url.unreserved_chars = Some UrlPins.unreserved_chars /\ Gen_Url.sub_delim_chars = Some UrlPins.sub_delim_chars /\
  Gen_Url.userinfo_chars = Some UrlPins.userinfo_chars /\ Gen_Url.path_chars = Some UrlPins.path_chars /\
  Gen_Url.query_chars = Some UrlPins.query_chars /\ Gen_Url.fragment_chars = Some UrlPins.fragment_chars /\
  Gen_Url.normalizable_schemes = Some UrlPins.normalizable_schemes /\
  Gen_Url.parse_url_except = Some [S!"ValueError"; S!"AttributeError"].
Proof. repeat split; reflexivity. Qed.
Print Assumptions url_charsets_pinned.

(* the character predicates of the model are exactly the pinned sets *)
Theorem charsets_are_the_model's :
  (forall c, c < 128 -> is_unreserved c = existsb (N.eqb c) UrlPins.unreserved_chars) /\
  (forall c, c < 128 -> userinfo_char c = existsb (N.eqb c) UrlPins.userinfo_chars) /\
  (forall c, c < 128 -> path_char c = existsb (N.eqb c) UrlPins.path_chars) /\
  (forall c, c < 128 -> query_char c = existsb (N.eqb c) UrlPins.query_chars).
Proof.
  assert (G : forall (f g : N -> bool), forallb (fun c => Bool.eqb (f c) (g c)) (map N.of_nat (seq 0 128)) = true ->
              forall c, c < 128 -> f c = g c).
  { intros f g H c Hc. rewrite forallb_forall in H. apply eqb_prop. apply H.
    apply in_map_iff. exists (N.to_nat c). split; [apply N2Nat.id|]. apply in_seq. lia. }
  repeat split; apply G; vm_compute; reflexivity.
Qed.
Print Assumptions charsets_are_the_model's.

(* parse_total: by construction the model returns a Url or LocationParseError; the only
   exception classes the implementation converts are the pinned (ValueError, AttributeError) *)
Theorem parse_total : forall idna u, (exists r, parse_url idna u = Some r) \/ parse_url idna u = None.
Proof. intros idna u. destruct (parse_url idna u); eauto. Qed.
Print Assumptions parse_total.

Theorem port_in_range : forall idna u r p, parse_url idna u = Some r -> port r = Some p -> p <= 65535.
Proof. exact Url_proofs.port_in_range. Qed.
Print Assumptions port_in_range.

Theorem scheme_lower_cased : forall idna u r s, parse_url idna u = Some r -> scheme r = Some s -> ascii_lower s = s.
Proof. exact Url_proofs.scheme_lower. Qed.
Print Assumptions scheme_lower_cased.

(* normal form of encoded components: only allowed characters, '%' and upper-case hex digits *)
Theorem encoded_component_charset : forall allowed comp c,
  (forall x, In x comp -> x < 1114112) ->
  In c (encode_invalid_chars allowed comp) ->
  (c < 128 /\ allowed c = true) \/ c = PCT \/ upper_hex_digit c = true.
Proof. exact encoded_charset. Qed.
Print Assumptions encoded_component_charset.

(* host, port and userinfo of a successful parse come from the authority as the reference reads it *)
Theorem authority_of_parse : forall idna u r a,
  u <> [] -> parse_url idna u = Some r ->
  u_authority (uri_split (effective_input u)) = Some a -> a <> [] ->
  exists h p,
    host_port_match (snd (rpartition_at a)) = Some (h, p) /\
    normalize_host idna (Some h) (scheme r) = Some (host r) /\
    port r = match p with Some (c :: d) => Some (N_of_digits (c :: d) 0) | _ => None end /\
    (auth r = None <-> fst (rpartition_at a) = []).
Proof. exact parse_url_authority. Qed.
Print Assumptions authority_of_parse.

(* ... and the model's host/port split agrees with the independent RFC 3986 reading
   (host after the last '@', port after the last ':' outside brackets), up to one
   trailing newline after the port (known finding C14-F1) *)
Theorem authority_agrees_rfc3986_partial : forall s h p,
  host_port_match s = Some (h, p) ->
  (exists ptext, ref_hostport s = Some (h, ptext) /\ port_rel ptext p) \/
  (exists inner, s = LBR :: inner ++ [RBR; NL] /\ h = LBR :: inner ++ [RBR] /\ p = None).
Proof. exact host_port_agrees. Qed.
Print Assumptions authority_agrees_rfc3986_partial.

Theorem userinfo_agrees_rfc3986 : forall a,
  rpartition_at a = match ref_userinfo_hostport a with (Some u, hp) => (u, hp) | (None, hp) => ([], hp) end.
Proof. exact userinfo_agrees. Qed.
Print Assumptions userinfo_agrees_rfc3986.

(* the full-strength agreement (port text is exactly the digits) is false of the code that exists *)
Theorem authority_agrees_rfc3986_refuted :
  exists s h q, host_port_match s = Some (h, Some q) /\ ref_hostport s = Some (h, Some (q ++ [NL])).
Proof. exact port_text_exact_refuted. Qed.
Print Assumptions authority_agrees_rfc3986_refuted.

(* "no double-encoding of valid escapes": when every '%' of a component begins an escape, each stays one '%' (and its hex digits
   are only upper-cased); the statement for every component is false of the code that exists - see the refutation below *)
Definition all_escapes_valid (comp : str) : bool :=
  Nat.eqb (snd (upper_escapes comp)) (length (filter (fun b => b =? PCT) (utf8_sp (fst (upper_escapes comp))))).
Theorem valid_escapes_kept_partial : forall allowed comp, all_escapes_valid comp = true ->
  encode_invalid_chars allowed comp =
  flat_map (fun b => if (b =? PCT) || ((b <? 128) && allowed b) then [b] else pct_byte b) (utf8_sp (fst (upper_escapes comp))).
Proof.
  intros allowed comp H. unfold encode_invalid_chars, all_escapes_valid in *. destruct (upper_escapes comp) as [c n]. cbn [fst snd] in *.
  rewrite H. reflexivity.
Qed.
Print Assumptions valid_escapes_kept_partial.

(* one '%' that begins no escape makes _encode_invalid_chars encode every '%' of the component: the valid escape %41 comes out as %2541 (C14-F2) *)
Theorem valid_escapes_kept_refuted : exists comp,
  all_escapes_valid comp = false /\ comp = S!"/a%41%zz" /\ encode_invalid_chars path_char comp = S!"/a%2541%25zz".
Proof. exists (S!"/a%41%zz"). vm_compute. repeat split. Qed.
Print Assumptions valid_escapes_kept_refuted.

(* non-vacuity: a hostile URL *)
Example c14_nonvacuous :
  option_map (fun r => (scheme r, auth r, host r, port r, path r))
    (parse_url (fun _ => None) (S!"HTTP://a@b@EXAMPLE.com:00080/x/../y")) =
  Some (Some (S!"http"), Some (S!"a%40b"), Some (S!"example.com"), Some 80, Some (S!"/y")).
Proof. vm_compute. reflexivity. Qed.
