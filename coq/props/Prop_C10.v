(* C10 — no input can inject into or split the HTTP request on the wire.
   Statements only: for every method, target, header names and values (any code points, any length), every set of
   caller-supplied or suppressed automatic headers. *)
From Coq Require Import String List NArith Bool.
From V Require Import lib.PyStr model.Url model.ReqHead model.Tunnel proofs.ReqHead_proofs proofs.Tunnel_proofs gen.Gen_Inject gen.Gen_Body corr.Run_C10.
Import ListNotations.
Local Open Scope N_scope.

(* the character class urllib3 allows in a method, the suppressible headers and the sentinel, regenerated from the
   source on this run, are the model's *)
Theorem source_facts :
  match Gen_Inject.method_allowed_chars with
  | Some l => forallb (fun c => Bool.eqb (token_char c) (existsb (N.eqb c) l)) (map N.of_nat (seq 0 300)) = true
  | None => False
  end /\
  Gen_Inject.skip_header = Some SKIP /\
  Gen_Inject.skippable_headers = Some (map str_of_string ["accept-encoding"; "host"; "user-agent"]%string).
Proof. vm_compute. repeat split. Qed.
Print Assumptions source_facts.

(* either the call fails before anything is written (request_head returns an error and no bytes), or what is written,
   read by a strict HTTP/1.1 reader (CRLF line ends, obs-fold), is exactly one request: the requested method, the
   requested target ('/' for an empty one), then - in this order - the automatic Host / Accept-Encoding /
   Content-Length: 0 / User-Agent fields that the caller neither supplied nor suppressed, then the caller's fields
   exactly as given (name and value, byte for byte), and nothing after the head.  No caller-supplied string adds a
   field, starts a second request or changes the request line. *)
Theorem written_head_reads_back : forall nbm host ua method url hs w,
  illegal_value host = false -> illegal_value ua = false ->
  request_head nbm host ua method url hs = inl w ->
  read_request w = Some (method, match url with [] => [47] | _ => url end, automatic nbm host ua method hs ++ kept hs, []).
Proof. exact ReqHead_proofs.written_head_reads_back. Qed.
Print Assumptions written_head_reads_back.

(* the automatic fields appear only when the caller neither supplied nor suppressed them *)
Theorem automatic_fields_rule : forall nbm host ua method hs,
  (has_key "host" hs = true -> forall v, In (HOST, v) (automatic nbm host ua method hs) -> False) /\
  (has_key "user-agent" hs = true -> forall v, In (UA, v) (automatic nbm host ua method hs) -> False) /\
  (has_key "accept-encoding" hs = true -> forall v, In (AE, v) (automatic nbm host ua method hs) -> False).
Proof.
  intros. unfold automatic. repeat split; intros Hk; intros; rewrite ?Hk in *;
    repeat match goal with H : In _ (_ ++ _) |- _ => apply in_app_or in H; destruct H as [H|H] end;
    repeat match goal with H : In _ (if ?b then _ else _) |- _ => destruct b end;
    repeat match goal with H : In _ [] |- _ => destruct H | H : In _ [_] |- _ => destruct H as [H|[]]; inversion H end;
    try discriminate; auto.
Qed.
Print Assumptions automatic_fields_rule.

(* ---------- the CONNECT request a proxy is made to read (ProxyManager, https URLs) ---------- *)
Definition BAD_HOST := or_nil Gen_Inject.tunnel_host_illegal_chars.
Definition TOKEN := or_nil Gen_Inject.method_allowed_chars.
Definition BAD_VALUE := or_nil Gen_Inject.tunnel_value_illegal_chars.

(* set_tunnel checks the host and every proxy header before http.client keeps them; the host class has SP, CR and LF, the
   value class CR and LF; the HTTP/2 name pattern is anchored with \Z, and putheader applies both checks before it keeps a field *)
Theorem tunnel_and_h2_source_facts :
  Gen_Inject.tunnel_validates = Some true /\
  (memN SPc BAD_HOST && memN CR BAD_HOST && memN LF BAD_HOST && memN 0 BAD_HOST && memN 9 BAD_HOST && memN 127 BAD_HOST = true) /\
  (memN CR BAD_VALUE && memN LF BAD_VALUE && memN 0 BAD_VALUE = true) /\
  Gen_Inject.h2_name_anchored = Some true /\ Gen_Inject.h2_putheader_checks = Some true /\
  Gen_Inject.h2_value_pattern = Some (str_of_string "[\0\x00\x0a\x0d\r\n]|^[ \r\n\t]|[ \r\n\t]$").
Proof. vm_compute. repeat split. Qed.
Print Assumptions tunnel_and_h2_source_facts.

(* either set_tunnel refuses (nothing is written to the proxy), or what the proxy reads is exactly one CONNECT request whose
   target is host:port and whose header lines are the caller's proxy headers, in order, followed by a Host line for the
   target when they have none - for every host text, port and header list *)
Theorem connect_request_reads_back : forall h p hs w,
  connect_head true BAD_HOST TOKEN BAD_VALUE h p hs = inl w ->
  read_request w = Some (CONNECT, authority h p, tunnel_fields h p hs, []).
Proof. apply Tunnel_proofs.connect_head_reads_back; vm_compute; reflexivity. Qed.
Print Assumptions connect_request_reads_back.

(* the checks are what makes it so: without them a host with CR LF is written and the proxy reads another request *)
Theorem connect_request_unchecked_refuted : exists h p hs w,
  connect_head false BAD_HOST TOKEN BAD_VALUE h p hs = inl w /\
  read_request w <> Some (CONNECT, authority h p, tunnel_fields h p hs, []).
Proof.
  exists (str_of_string "v.example" ++ [13; 10] ++ str_of_string "x-injected"), 443, []. eexists. split; [vm_compute; reflexivity|].
  vm_compute. discriminate.
Qed.
Print Assumptions connect_request_unchecked_refuted.

(* ---------- HTTP/2 header validity ---------- *)
Definition H2CHARS := or_nil Gen_Inject.h2_name_chars.

(* a field name putheader keeps is non-empty and made of visible ASCII only, without ':' and without upper-case letters
   (so: no CR, LF, NUL, SP, HTAB, DEL, nothing above 126), for every name *)
Theorem h2_kept_name_is_clean : forall n v l, h2_putheader true H2CHARS n v = Some l ->
  l = ascii_lower n /\ n <> [] /\ forall c, In c l -> 32 < c < 127 /\ c <> COLONc /\ ~ (65 <= c <= 90).
Proof.
  intros n v l H. unfold h2_putheader in H. destruct (h2_name_ok true H2CHARS n) eqn:En; [|discriminate].
  destruct (h2_value_ok v); [|discriminate]. inversion H; subst l. split; [reflexivity|].
  apply (Tunnel_proofs.h2_accepted_name_is_clean H2CHARS); [vm_compute; reflexivity|exact En].
Qed.
Print Assumptions h2_kept_name_is_clean.

(* a field value putheader keeps has no NUL, LF or CR anywhere and neither starts nor ends with SP or HTAB *)
Theorem h2_kept_value_is_clean : forall n v l, h2_putheader true H2CHARS n v = Some l ->
  (forall c, In c v -> c <> 0 /\ c <> LF /\ c <> CR) /\
  (forall c r, v = c :: r -> is_spht c = false) /\ (forall c r, v = r ++ [c] -> is_spht c = false).
Proof.
  intros n v l H. unfold h2_putheader in H. destruct (h2_name_ok true H2CHARS n); [|discriminate].
  destruct (h2_value_ok v) eqn:Ev; [|discriminate]. exact (Tunnel_proofs.h2_accepted_value_is_clean v Ev).
Qed.
Print Assumptions h2_kept_value_is_clean.

(* with '$' instead of '\Z' at the end of the name pattern a name ending in LF is kept *)
Theorem h2_unanchored_name_refuted : exists n v l, h2_putheader false H2CHARS n v = Some l /\ In LF l.
Proof. exists [120; 10], [49], [120; 10]. split; [vm_compute; reflexivity|right; left; reflexivity]. Qed.
Print Assumptions h2_unanchored_name_refuted.

(* through RequestMethods.request the method is upper-cased by str.upper() before it is checked: a method with a non-ASCII letter
   whose upper-case form is ASCII is written as a token the caller did not give (known finding C10-F2) *)
Theorem non_ascii_method_written_refuted : exists m w,
  ascii m = false /\ request_head [] (S!"h") (S!"ua") (py_upper m) (S!"/") [] = inl w /\
  read_request w = Some (S!"POST", S!"/", [(HOST, S!"h"); (AE, IDENTITY); (CL, [48]); (UA, S!"ua")], []).
Proof. exists (S!"po" ++ [383] ++ S!"t"). eexists. split; [vm_compute; reflexivity|]. split; vm_compute; reflexivity. Qed.
Print Assumptions non_ascii_method_written_refuted.

(* non-vacuity: hostile inputs that are refused, and folded values that are written and read back *)
Definition S_ := str_of_string.
Example refused :
  map (fun mu => match request_head [] (S_ "h") (S_ "ua") (fst (fst mu)) (snd (fst mu)) (snd mu) with inl _ => 0 | inr _ => 1 end)
      [ (S_ "GET", S_ "/a b", []); (S_ "GE T", S_ "/", []); (S_ "GET", S_ "/", [(S_ "X-A", [97; 13; 10; 88; 58; 49])]);
        (S_ "GET", S_ "/", [([88; 13; 10], S_ "1")]); (S_ "GET", S_ "/", [(S_ "X:A", S_ "1")]); (S_ "GET", [47; 13; 10], []) ]
  = [1; 1; 1; 1; 1; 1].
Proof. vm_compute. reflexivity. Qed.
Example folded_value_round_trip :
  match request_head [S_ "GET"] (S_ "h") (S_ "ua") (S_ "GET") (S_ "/") [(S_ "X-A", [97; 13; 10; 32; 98])] with
  | inl w => read_request w = Some (S_ "GET", S_ "/", [(HOST, S_ "h"); (AE, IDENTITY); (UA, S_ "ua"); (S_ "X-A", [97; 13; 10; 32; 98])], [])
  | inr _ => False
  end.
Proof. vm_compute. reflexivity. Qed.
Example connect_written_and_refused :
  (match connect_head true BAD_HOST TOKEN BAD_VALUE (S_ "dest.example") 443 [(S_ "Proxy-Authorization", S_ "Basic abc")] with
   | inl w => read_request w = Some (CONNECT, S_ "dest.example:443", [(S_ "Proxy-Authorization", S_ "Basic abc"); (HOST, S_ "dest.example:443")], [])
   | inr _ => False end) /\
  map (fun hh => match connect_head true BAD_HOST TOKEN BAD_VALUE (fst hh) 443 (snd hh) with inl _ => 0 | inr _ => 1 end)
      [ (S_ "a b", []); (S_ "a" ++ [13; 10] ++ S_ "x", []); (S_ "a", [(S_ "X-P", [118; 13; 10; 73; 58; 49])]); (S_ "a", [(S_ "X P", S_ "1")]);
        (S_ "a", [([], S_ "1")]); (S_ "a", [(S_ "X-P", [118; 13; 10; 32; 119])]) ] = [1; 1; 1; 1; 1; 1].
Proof. vm_compute. split; reflexivity. Qed.
Example h2_kept_and_refused :
  map (fun nv => match h2_putheader true H2CHARS (fst nv) (snd nv) with Some _ => 0 | None => 1 end)
      [ (S_ "X-Foo", S_ "bar"); (S_ "x-foo", [98; 32; 99]); (S_ "x-foo", []);
        ([120; 10], S_ "1"); (S_ "x foo", S_ "1"); (S_ "x:foo", S_ "1"); ([], S_ "1"); (S_ "x", [49; 13; 10; 32; 50]); (S_ "x", [32; 49]); (S_ "x", [49; 9]); (S_ "x", [0]) ]
  = [0; 0; 0; 1; 1; 1; 1; 1; 1; 1; 1].
Proof. vm_compute. reflexivity. Qed.
