(* C10 — no input can inject into or split the HTTP request on the wire.
   Statements only: for every method, target, header names and values (any code points, any length), every set of
   caller-supplied or suppressed automatic headers. *)
From Coq Require Import String List NArith Bool.
From V Require Import lib.PyStr model.ReqHead proofs.ReqHead_proofs gen.Gen_Inject gen.Gen_Body corr.Run_C10.
Import ListNotations.
Local Open Scope N_scope.

(* the character class urllib3 allows in a method, the suppressible headers and the sentinel, regenerated from the
   source on this run, are the model's *)
Theorem source_facts :
  match Gen_Inject.method_allowed_chars with
  | Some l => forallb (fun c => Bool.eqb (token_char c) (existsb (N.eqb c) l)) (map N.of_nat (seq 0 300)) = true
  | None => False
  end /\
  Gen_Inject.skip_header = Some SKIP /\
  Gen_Inject.skippable_headers = Some (map str_of_string ["accept-encoding"; "host"; "user-agent"]%string).
Proof. vm_compute. repeat split. Qed.
Print Assumptions source_facts.

(* either the call fails before anything is written (request_head returns an error and no bytes), or what is written,
   read by a strict HTTP/1.1 reader (CRLF line ends, obs-fold), is exactly one request: the requested method, the
   requested target ('/' for an empty one), then - in this order - the automatic Host / Accept-Encoding /
   Content-Length: 0 / User-Agent fields that the caller neither supplied nor suppressed, then the caller's fields
   exactly as given (name and value, byte for byte), and nothing after the head.  No caller-supplied string adds a
   field, starts a second request or changes the request line. *)
Theorem written_head_reads_back : forall nbm host ua method url hs w,
  illegal_value host = false -> illegal_value ua = false ->
  request_head nbm host ua method url hs = inl w ->
  read_request w = Some (method, match url with [] => [47] | _ => url end, automatic nbm host ua method hs ++ kept hs, []).
Proof. exact ReqHead_proofs.written_head_reads_back. Qed.
Print Assumptions written_head_reads_back.

(* the automatic fields appear only when the caller neither supplied nor suppressed them *)
Theorem automatic_fields_rule : forall nbm host ua method hs,
  (has_key "host" hs = true -> forall v, In (HOST, v) (automatic nbm host ua method hs) -> False) /\
  (has_key "user-agent" hs = true -> forall v, In (UA, v) (automatic nbm host ua method hs) -> False) /\
  (has_key "accept-encoding" hs = true -> forall v, In (AE, v) (automatic nbm host ua method hs) -> False).
Proof.
  intros. unfold automatic. repeat split; intros Hk; intros; rewrite ?Hk in *;
    repeat match goal with H : In _ (_ ++ _) |- _ => apply in_app_or in H; destruct H as [H|H] end;
    repeat match goal with H : In _ (if ?b then _ else _) |- _ => destruct b end;
    repeat match goal with H : In _ [] |- _ => destruct H | H : In _ [_] |- _ => destruct H as [H|[]]; inversion H end;
    try discriminate; auto.
Qed.
Print Assumptions automatic_fields_rule.

(* non-vacuity: hostile inputs that are refused, and folded values that are written and read back *)
Definition S_ := str_of_string.
Example refused :
  map (fun mu => match request_head [] (S_ "h") (S_ "ua") (fst (fst mu)) (snd (fst mu)) (snd mu) with inl _ => 0 | inr _ => 1 end)
      [ (S_ "GET", S_ "/a b", []); (S_ "GE T", S_ "/", []); (S_ "GET", S_ "/", [(S_ "X-A", [97; 13; 10; 88; 58; 49])]);
        (S_ "GET", S_ "/", [([88; 13; 10], S_ "1")]); (S_ "GET", S_ "/", [(S_ "X:A", S_ "1")]); (S_ "GET", [47; 13; 10], []) ]
  = [1; 1; 1; 1; 1; 1].
Proof. vm_compute. reflexivity. Qed.
Example folded_value_round_trip :
  match request_head [S_ "GET"] (S_ "h") (S_ "ua") (S_ "GET") (S_ "/") [(S_ "X-A", [97; 13; 10; 32; 98])] with
  | inl w => read_request w = Some (S_ "GET", S_ "/", [(HOST, S_ "h"); (AE, IDENTITY); (UA, S_ "ua"); (S_ "X-A", [97; 13; 10; 32; 98])], [])
  | inr _ => False
  end.
Proof. vm_compute. reflexivity. Qed.
