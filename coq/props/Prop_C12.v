(* C12 — every way of reading a response yields the same bytes.
   Statements only: for every raw body, decoder (any table of how much output is available after k input bytes, any
   output), framing, chunk vector, read1 tape (any sizes the raw source hands out), decode flag, call sequence. *)
From Coq Require Import List NArith Arith Bool.
From V Require Import model.ReadBody proofs.ReadBody_proofs proofs.ReadBody_term gen.Gen_Read corr.Run_C12.
Import ListNotations.

(* the facts regenerated from the source on this run: read() returns the buffered bytes first; stream() switches to
   read_chunked only while nothing has been read; read(amt) flushes the decoder when the body ends *)
Theorem source_facts : Gen_Read.read_all_drains_buffer = Some true /\ Gen_Read.stream_checks_progress = Some true /\
  Gen_Read.read_flushes_at_end = Some true.
Proof. repeat split; reflexivity. Qed.
Print Assumptions source_facts.
Lemma rb_sg : rb = true /\ sg = true. Proof. split; reflexivity. Qed.

(* at any moment, after any calls (read / read(n) / read1 / read1(n) / readinto) and any finisher: what was returned,
   then what is buffered, is a prefix of the payload (the decoder's complete output when decoding, the transfer-decoded
   bytes otherwise).  read_chunked called directly is covered when nothing is buffered (it ignores the buffer). *)
Theorem returned_is_prefix : forall D hdc dc raw chunked chunks tape cs f ps fs s1 s2,
  dec_ok D raw ->
  run_calls D hdc dc rb sg fe (s0 raw chunks tape) cs = (ps, s1) ->
  (forall a, f = FReadChunked a -> s_buf s1 = []) -> dc = true \/ f <> FIter ->
  run_finish D hdc dc rb sg fe chunked s1 f = (fs, s2) ->
  exists more, target D hdc dc raw = (concat ps ++ concat fs) ++ s_buf s2 ++ more.
Proof. intros. eapply ReadBody_proofs.returned_is_prefix; eauto. Qed.
Print Assumptions returned_is_prefix.

(* a sequence ended by read(), or a preloaded body: the concatenation of the pieces is the payload *)
Theorem read_returns_everything : forall D hdc dc raw chunked chunks tape cs f ps fs s1 s2,
  dec_ok D raw -> f = FRead \/ f = FData ->
  run_calls D hdc dc rb sg fe (s0 raw chunks tape) cs = (ps, s1) ->
  run_finish D hdc dc rb sg fe chunked s1 f = (fs, s2) ->
  concat ps ++ concat fs = target D hdc dc raw.
Proof. intros. eapply ReadBody_proofs.read_returns_everything; eauto. Qed.
Print Assumptions read_returns_everything.

(* any finisher (stream, iteration, read_chunked): once the source is dry and the buffer empty, everything was returned
   (partial: that stream's loop always gets there is exercised by the correspondence, not proved) *)
Theorem drained_returns_everything_partial : forall D hdc dc raw chunked chunks tape cs f ps fs s1 s2,
  dec_ok D raw ->
  run_calls D hdc dc rb sg fe (s0 raw chunks tape) cs = (ps, s1) ->
  (forall a, f = FReadChunked a -> s_buf s1 = []) -> dc = true \/ f <> FIter ->
  run_finish D hdc dc rb sg fe chunked s1 f = (fs, s2) ->
  s_pos s2 = length raw -> s_buf s2 = [] ->
  concat ps ++ concat fs = target D hdc dc raw.
Proof. intros. eapply ReadBody_proofs.drained_returns_everything; eauto. Qed.
Print Assumptions drained_returns_everything_partial.


(* stream(amt) / iteration after any calls: the loop ends, and it ends with the source dry and nothing buffered - so the
   concatenation of everything returned is the payload.  (For a fresh chunked response stream takes the read_chunked
   path: the chunk sizes must add up to the body, as any complete response's do.) *)
Theorem stream_returns_everything : forall D hdc dc raw chunked chunks tape cs amt ps fs s1 s2,
  dec_ok D raw -> amt <> Some 0 -> (chunked = true -> list_sum chunks = length raw) ->
  run_calls D hdc dc rb sg fe (s0 raw chunks tape) cs = (ps, s1) ->
  run_finish D hdc dc rb sg fe chunked s1 (FStream amt) = (fs, s2) ->
  concat ps ++ concat fs = target D hdc dc raw.
Proof. intros. eapply ReadBody_term.stream_returns_everything; eauto. Qed.
Print Assumptions stream_returns_everything.

(* read(n) returns exactly n bytes unless the body is exhausted by it *)
Theorem read_n_exact : forall D hdc dc raw s n piece s',
  wf D hdc dc raw s -> 1 <= n -> read D hdc dc rb fe s (Some n) = (piece, s') ->
  length piece = n \/ (s_pos s' = length raw /\ s_buf s' = []).
Proof. intros. eapply ReadBody_term.read_n_exact; eauto. Qed.
Print Assumptions read_n_exact.

(* read_chunked / stream on a fresh chunked response: everything is returned and no piece is empty *)
Theorem read_chunked_returns_everything : forall D hdc dc raw chunks tape amt fs s2,
  dec_ok D raw -> list_sum chunks = length raw ->
  read_chunked D hdc dc (s0 raw chunks tape) amt = (fs, s2) ->
  concat fs = target D hdc dc raw /\ Forall (fun p => p <> []) fs.
Proof. intros. eapply ReadBody_proofs.read_chunked_returns_everything; eauto. Qed.
Print Assumptions read_chunked_returns_everything.

(* read(n) never returns more than n bytes; stream() through read() never yields an empty piece *)
Theorem read_n_at_most_n : forall D hdc dc raw s n piece s',
  wf D hdc dc raw s -> read D hdc dc rb fe s (Some n) = (piece, s') -> length piece <= n.
Proof. intros D hdc dc raw s n piece s' Hwf H. exact (proj2 (read_n_ok D hdc dc fe raw s n piece s' Hwf H)). Qed.
Print Assumptions read_n_at_most_n.

Theorem stream_pieces_nonempty : forall D hdc dc raw fuel amt s ps s',
  wf D hdc dc raw s -> stream_loop D hdc dc rb fe fuel s amt = (ps, s') -> Forall (fun p => p <> []) ps.
Proof. intros D hdc dc raw fuel amt s ps s' Hwf H. exact (proj2 (stream_loop_ok D hdc dc fe raw fuel amt s ps s' Hwf H)). Qed.
Print Assumptions stream_pieces_nonempty.

(* non-vacuity and the source facts at work: a decoder that expands (3 raw bytes -> 6 decoded), read(2) then read():
   with the buffer drained all six bytes come back; without (the code before the fix:) two are lost *)
Definition toyD : dec := mkDec [0; 2; 4; 6] [1; 2; 3; 4; 5; 6]%N.
Example toy_ok : dec_ok toyD [7; 8; 9]%N. Proof. split; reflexivity. Qed.
Example read2_then_read :
  ReadBody.run toyD true true true true true false [7; 8; 9]%N [] [] [CRead (Some 2)] FRead = ([[1; 2]%N], [[3; 4; 5; 6]%N]).
Proof. vm_compute. reflexivity. Qed.
Example read_must_drain_the_buffer :
  ReadBody.run toyD true true false true true false [7; 8; 9]%N [] [] [CRead (Some 1)] FRead = ([[1]%N], [[3; 4; 5; 6]%N]).   (* byte 2 is lost *)
Proof. vm_compute. reflexivity. Qed.
