(* C04 — retries respect every budget, spare non-idempotent requests, and terminate.
   Statements only.  L / the isinstance tuples are parameters of the general theorems
   and are instantiated with the facts regenerated from the source in the anchors. *)
From Coq Require Import String List NArith ZArith QArith Bool.
From V Require Import lib.PyStr model.Retry model.RetryLoop gen.Gen_Exc gen.Gen_Urlopen gen.Gen_Retry
  proofs.Retry_proofs corr.Run_C04.
Import ListNotations.
Local Open Scope Z_scope.

(* ---- anchors ---- *)
Theorem gen_urlopen_handler_pinned :
  Gen_Urlopen.urlopen_except = Some [S!"TimeoutError"; S!"http.client.HTTPException"; S!"OSError"; S!"ProtocolError";
                                     S!"ssl.SSLError"; S!"SSLError"; S!"CertificateError"; S!"ProxyError"] /\
  Gen_Urlopen.urlopen_to_sslerror = Some [S!"ssl.SSLError"; S!"CertificateError"] /\
  Gen_Urlopen.urlopen_to_proxyerror = Some [S!"OSError"; S!"NewConnectionError"; S!"TimeoutError"; S!"SSLError"; S!"http.client.HTTPException"] /\
  Gen_Urlopen.urlopen_to_protocolerror = Some [S!"OSError"; S!"http.client.HTTPException"] /\
  Gen_Urlopen.retry_connection_error = Some [S!"ConnectTimeoutError"] /\
  Gen_Urlopen.retry_read_error = Some [S!"ReadTimeoutError"; S!"ProtocolError"] /\
  Gen_Urlopen.send_swallowed_classes = Some [S!"BrokenPipeError"] /\
  Gen_Urlopen.send_swallowed_errnos = Some [S!"ECONNRESET"; S!"EPROTOTYPE"].
Proof. repeat split; reflexivity. Qed.
Print Assumptions gen_urlopen_handler_pinned.

Theorem gen_retry_constants_pinned :
  Gen_Retry.default_allowed_methods = Some [S!"DELETE"; S!"GET"; S!"HEAD"; S!"OPTIONS"; S!"PUT"; S!"TRACE"] /\
  Gen_Retry.retry_after_status_codes = Some [413; 429; 503] /\
  Gen_Retry.default_backoff_max = Some 120 /\ Gen_Retry.default_total = Some 3 /\
  Gen_Retry.exhausted_counts = Some [S!"total"; S!"connect"; S!"read"; S!"redirect"; S!"status"; S!"other"] /\
  Gen_Retry.init_defaults = Some [(S!"total", Some 10); (S!"connect", None); (S!"read", None); (S!"redirect", None);
                                  (S!"status", None); (S!"other", None); (S!"raise_on_redirect", Some 1);
                                  (S!"raise_on_status", Some 1); (S!"respect_retry_after_header", Some 1)].
Proof. repeat split; reflexivity. Qed.
Print Assumptions gen_retry_constants_pinned.

(* with the class lattice and the tuples of the source: on a direct pool (and behind a proxy while the
   proxy connection is known to be up) connect failures are connection errors and every send/receive
   fault is a read error *)
Definition CAT (mode : proxy_mode) (connected : bool) (cls : string) : category :=
  category_of LAT (getl Gen_Urlopen.retry_connection_error) (getl Gen_Urlopen.retry_read_error)
    (wrap LAT (getl Gen_Urlopen.urlopen_to_sslerror) (getl Gen_Urlopen.urlopen_to_proxyerror)
          (getl Gen_Urlopen.urlopen_to_protocolerror) mode connected (str_of_string cls)).

Theorem faults_classified :
  forall mode connected, (mode = Direct \/ connected = true) ->
  CAT mode connected "NewConnectionError" = KConnect /\ CAT mode connected "ConnectTimeoutError" = KConnect /\
  CAT mode connected "OSError" = KRead /\ CAT mode connected "builtins.TimeoutError" = KRead /\
  CAT mode connected "ReadTimeoutError" = KRead /\ CAT mode connected "ConnectionResetError" = KRead /\
  CAT mode connected "http.client.RemoteDisconnected" = KRead /\ CAT mode connected "http.client.BadStatusLine" = KRead.
Proof.
  intros mode connected [-> | ->]; [destruct connected | destruct mode]; vm_compute; repeat split.
Qed.
Print Assumptions faults_classified.

(* a connect failure towards the proxy is still a connection error *)
Theorem proxy_connect_failure_classified :
  CAT Forwarding false "NewConnectionError" = KConnect /\ CAT Forwarding false "ConnectTimeoutError" = KConnect /\
  (forall up, CAT (Tunnelling up) false "NewConnectionError" = KConnect /\ CAT (Tunnelling up) false "ConnectTimeoutError" = KConnect).
Proof. repeat split; try destruct up; vm_compute; reflexivity. Qed.
Print Assumptions proxy_connect_failure_classified.

(* ---- the loop: for every lattice, tuple set, script, mode, method and Retry ---- *)
Theorem attempts_le_budget : forall L ts tp tpr ce re rac script mode method r t,
  r_total r = CInt t -> 0 <= t ->
  (length (t_wire (run_loop L ts tp tpr ce re rac script mode method r)) <= Z.to_nat (t + 1))%nat.
Proof. exact attempts_le_total. Qed.
Print Assumptions attempts_le_budget.

Theorem category_budgets : forall L ts tp tpr ce re rac k script mode method r b,
  budget_of k r = CInt b -> 0 <= b ->
  (forall a, In a script -> match a_recv a with RResp s _ _ => s <> 0 | _ => True end) ->
  (count_cat k (t_retried (run_loop L ts tp tpr ce re rac script mode method r)) <= Z.to_nat b)%nat.
Proof. exact Retry_proofs.category_budgets. Qed.
Print Assumptions category_budgets.

(* a method outside allowed_methods is never sent again after a read error or a retryable status *)
Theorem nonidempotent_not_resent : forall L ts tp tpr ce re rac script mode method r,
  method_retryable r method = false ->
  forall k, In k (t_retried (run_loop L ts tp tpr ce re rac script mode method r)) -> k = KConnect \/ k = KOther.
Proof. exact nonidempotent_not_retried. Qed.
Print Assumptions nonidempotent_not_resent.

Theorem false_reraises : forall L ts tp tpr ce re rac a rest mode method r cls closed,
  r_total r = CFalse -> attempt_exception true a = Some (Raised cls closed) ->
  exists e, run_loop L ts tp tpr ce re rac (a :: rest) mode method r = mkTr [wire_of true a] [] (FRaise e) [].
Proof. exact Retry_proofs.false_reraises. Qed.
Print Assumptions false_reraises.

Theorem sleep_range : forall L ts tp tpr ce re rac script mode method r,
  (0 <= r_backoff_max r)%Q ->
  forall q, In q (t_sleeps (run_loop L ts tp tpr ce re rac script mode method r)) ->
    sleep_ok (r_backoff_max r) (retry_after_values script) q.
Proof. exact sleeps_in_range. Qed.
Print Assumptions sleep_range.

(* KNOWN FINDING C04-F1: behind a forwarding proxy a reset while reading is filed under `other`,
   so the full-strength statement (every read fault is a read error in every mode) is false *)
Theorem nonidempotent_not_resent_proxy_refuted :
  CAT Forwarding false "ConnectionResetError" = KOther /\
  exists r script,
    method_retryable r (S!"POST") = false /\
    t_wire (run_loop LAT (getl Gen_Urlopen.urlopen_to_sslerror) (getl Gen_Urlopen.urlopen_to_proxyerror)
                     (getl Gen_Urlopen.urlopen_to_protocolerror) (getl Gen_Urlopen.retry_connection_error)
                     (getl Gen_Urlopen.retry_read_error) (getl Gen_Retry.retry_after_status_codes)
                     script Forwarding (S!"POST") r)
    = [mkW true true; mkW true true].
Proof.
  split; [vm_compute; reflexivity|].
  exists lib_default, [mkA COk SOk RReset; mkA COk SOk (RResp 200 None true)].
  split; vm_compute; reflexivity.
Qed.
Print Assumptions nonidempotent_not_resent_proxy_refuted.

(* through a CONNECT tunnel urlopen knows that the tunnel of the attempt is up (source fact) ... *)
Theorem source_facts : Gen_Urlopen.tunnel_errors_are_not_proxy_errors = Some true.
Proof. reflexivity. Qed.
Print Assumptions source_facts.

(* ... and then the model hands `wrap` connected = true whenever the connect of the attempt succeeded, whatever http.client
   did to the connection meanwhile, so that faults_classified applies: every fault while sending or receiving is a read
   error.  The history that is re-sent behind a forwarding proxy (C04-F1) is not re-sent through a tunnel: *)
Theorem tunnel_post_not_resent_after_reset :
  CAT (Tunnelling true) true "ConnectionResetError" = KRead /\
  t_wire (run_loop LAT (getl Gen_Urlopen.urlopen_to_sslerror) (getl Gen_Urlopen.urlopen_to_proxyerror)
                   (getl Gen_Urlopen.urlopen_to_protocolerror) (getl Gen_Urlopen.retry_connection_error)
                   (getl Gen_Urlopen.retry_read_error) (getl Gen_Retry.retry_after_status_codes)
                   [mkA COk SOk RReset; mkA COk SOk (RResp 200 None true)] (Tunnelling true) (S!"POST") lib_default)
  = [mkW true true].
Proof. split; vm_compute; reflexivity. Qed.
Print Assumptions tunnel_post_not_resent_after_reset.

(* before fix (Tunnelling false): the same defect as C04-F1 through a CONNECT tunnel *)
Theorem nonidempotent_not_resent_tunnel_refuted :
  CAT (Tunnelling false) false "ConnectionResetError" = KOther /\
  exists r script,
    method_retryable r (S!"POST") = false /\
    t_wire (run_loop LAT (getl Gen_Urlopen.urlopen_to_sslerror) (getl Gen_Urlopen.urlopen_to_proxyerror)
                     (getl Gen_Urlopen.urlopen_to_protocolerror) (getl Gen_Urlopen.retry_connection_error)
                     (getl Gen_Urlopen.retry_read_error) (getl Gen_Retry.retry_after_status_codes)
                     script (Tunnelling false) (S!"POST") r)
    = [mkW true true; mkW true true].
Proof.
  split; [vm_compute; reflexivity|].
  exists lib_default, [mkA COk SOk RReset; mkA COk SOk (RResp 200 None true)].
  split; vm_compute; reflexivity.
Qed.
Print Assumptions nonidempotent_not_resent_tunnel_refuted.

(* KNOWN FINDING C04-F3: Retry-After is honoured for every retried status, not only for 413/429/503 - a force-listed 500
   with Retry-After: 300 is slept on although backoff_max is 120 *)
Theorem retry_after_only_for_413_429_503_refuted :
  let r := mkRetry (r_total lib_default) (r_connect lib_default) (r_read lib_default) (r_redirect lib_default) (r_status lib_default)
                   (r_other lib_default) (r_allowed lib_default) [500%Z] (r_raise_on_redirect lib_default) (r_raise_on_status lib_default)
                   true (r_backoff_factor lib_default) (r_backoff_max lib_default) [] (r_remove_headers lib_default) in
  Qle_bool (r_backoff_max r) 120 = true /\
  t_sleeps (run_loop LAT (getl Gen_Urlopen.urlopen_to_sslerror) (getl Gen_Urlopen.urlopen_to_proxyerror)
                     (getl Gen_Urlopen.urlopen_to_protocolerror) (getl Gen_Urlopen.retry_connection_error)
                     (getl Gen_Urlopen.retry_read_error) (getl Gen_Retry.retry_after_status_codes)
                     [mkA COk SOk (RResp 500 (Some 300%Z) true); mkA COk SOk (RResp 200 None true)] Direct (S!"GET") r)
  = [inject_Z 300].
Proof. vm_compute. split; reflexivity. Qed.
Print Assumptions retry_after_only_for_413_429_503_refuted.
