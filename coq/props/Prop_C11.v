(* C11 — request bodies are framed exactly and re-sent identically.
   Statements only: for every method, body (any content, size, start offset, chunk list), chunked flag, block size,
   route (bare pool or PoolManager) and attempt history of any length. *)
From Coq Require Import String List NArith Arith Bool.
From V Require Import lib.PyStr lib.Utf8 model.Framing proofs.Framing_proofs gen.Gen_Body corr.Run_C11.
Import ListNotations.

(* the facts regenerated from the source on this run: chunk sizes are byte sizes, both urlopen recursions hand the
   recorded body position on, a 303 forgets it together with the body *)
Theorem source_facts :
  Gen_Body.chunk_size_is_nbytes = Some true /\ Gen_Body.pool_passes_body_pos = Some true /\
  Gen_Body.pool_see_other_clears_body_pos = Some true /\ Gen_Body.manager_keeps_body_pos = Some true /\
  Gen_Body.see_other_unchunks = Some true /\ Gen_Body.rewind_without_seek_is_unrewindable = Some true /\
  Gen_Body.methods_not_expecting_body <> None.
Proof. repeat split; try reflexivity. discriminate. Qed.
Print Assumptions source_facts.

Lemma the_params_fixed : fixed the_params /\ nbytes the_params = true.
Proof. repeat split; reflexivity. Qed.

(* whatever the body, the payload written after the headers reads back, under the framing header that was sent
   (Content-Length: exactly that many bytes; chunked: a strict chunked decoder; none: nothing), as the body's bytes
   (str as UTF-8, a file from its current position, an iterable as the concatenation of its chunks) *)
Theorem framed_payload_is_body : forall method b flag bs fr wire b' bytes,
  request_frame (nbm the_params) (nbytes the_params) method b flag bs = Some (fr, wire, b') ->
  body_bytes b = Some bytes ->
  unframe fr wire = Some bytes.
Proof. intros. eapply Framing_proofs.framed_payload_is_body; eauto. Qed.
Print Assumptions framed_payload_is_body.

(* one framing header, chosen as documented: chunked when asked for; otherwise a body-less request is unframed for
   GET/HEAD/DELETE/TRACE/OPTIONS/CONNECT and carries Content-Length: 0 for any other method, and a request with a
   body is never unframed *)
Theorem framing_choice : forall method b flag bs fr wire b',
  request_frame (nbm the_params) (nbytes the_params) method b flag bs = Some (fr, wire, b') ->
  (flag = true -> fr = FrTE) /\
  (flag = false -> b = BNone -> fr = if mem_str (ascii_upper method) (nbm the_params) then FrNone else FrCL 0) /\
  (flag = false -> b = BNone -> wire = []) /\
  (b <> BNone -> fr <> FrNone).
Proof. intros. eapply Framing_proofs.framing_choice; eauto. Qed.
Print Assumptions framing_choice.

Theorem methods_not_expecting_body_are : 
  Gen_Body.methods_not_expecting_body = Some (map str_of_string ["CONNECT"; "DELETE"; "GET"; "HEAD"; "OPTIONS"; "TRACE"]%string).
Proof. reflexivity. Qed.
Print Assumptions methods_not_expecting_body_are.

(* sent again (retry after an error or a 503, 301/302/307/308 followed by the pool or by PoolManager): every request on
   the wire is byte-identical - method, framing header, payload - to the first attempt, or is the body-less GET that
   follows a 303; the call never ends in ValueError (it ends normally, or in UnrewindableBodyError).
   For every body that is not a one-shot iterator or a file object without tell(). *)
Theorem resend_identical : forall via flag bs hist method b0,
  rewindable b0 ->
  Forall (first_or_get the_params method b0 flag bs) (fst (urlopen the_params via hist method b0 PNone flag bs)) /\
  snd (urlopen the_params via hist method b0 PNone flag bs) <> RErr EValueError.
Proof.
  intros. apply Framing_proofs.resend_identical; [exact (proj1 the_params_fixed)|assumption|apply Inv_init].
Qed.
Print Assumptions resend_identical.

Theorem resend_identical_without_303 : forall via flag bs hist method b0,
  rewindable b0 -> ~ In (ARedirect true) hist ->
  Forall (fun s => Some s = frame_sent the_params method b0 flag bs) (fst (urlopen the_params via hist method b0 PNone flag bs)).
Proof.
  intros. apply Framing_proofs.resend_identical_no_see_other; [exact (proj1 the_params_fixed)|assumption|apply Inv_init|assumption].
Qed.
Print Assumptions resend_identical_without_303.

(* the statement without the `rewindable` hypothesis is false: a generator body is sent empty the second time and the
   call ends normally (known finding C11-F1) *)
Definition POST : str := str_of_string "POST".
Theorem resend_identical_one_shot_refuted :
  exists b0 hist, ~ rewindable b0 /\
    let r := urlopen the_params false hist POST b0 PNone false 4 in
    snd r = ROk /\ map t_wire (fst r) = [[51; 13; 10; 97; 98; 99; 13; 10; 48; 13; 10; 13; 10]; [48; 13; 10; 13; 10]]%N.
Proof.
  exists (BIter true [CB [97; 98; 99]%N]), [ARedirect false; AOk]. split; [intros H; discriminate H|]. vm_compute. split; reflexivity.
Qed.
Print Assumptions resend_identical_one_shot_refuted.

(* after a 303 the follow-up - urlopen's own recursive call, with GET, no body, the position forgotten and the chunked
   flag dropped (see_other_unchunks) - is written without framing header and without a single body byte, whether or not
   chunking had been asked for *)
Theorem see_other_follow_up_is_unframed : forall via flag bs,
  urlopen the_params via [AOk] GET BNone PNone (if Framing.see_other_unchunks the_params then false else flag) bs
  = ([mkSent GET FrNone []], ROk).
Proof. intros. vm_compute. reflexivity. Qed.
Print Assumptions see_other_follow_up_is_unframed.

(* non-vacuity: a seekable file, sent three times, identical each time; and the source facts matter - with the
   manager not handing the position on, or chunk sizes counted in items, the model shows the failure *)
Definition a_file : body := BFile (mkFile false [104; 101; 108; 108; 111; 32; 119]%N 1 true true true true).
Example file_sent_three_times :
  let r := urlopen the_params true [ARedirect false; AErrAfter; AOk] POST a_file PNone false 4 in
  snd r = ROk /\ map t_wire (fst r) = repeat [52; 13; 10; 101; 108; 108; 111; 13; 10; 50; 13; 10; 32; 119; 13; 10; 48; 13; 10; 13; 10]%N 3.
Proof. vm_compute. split; reflexivity. Qed.
Example manager_must_hand_the_position_on :
  let P := mkParams (nbm the_params) true true true false true in
  map t_wire (fst (urlopen P true [ARedirect false; AOk] POST a_file PNone false 4))
  = [[52; 13; 10; 101; 108; 108; 111; 13; 10; 50; 13; 10; 32; 119; 13; 10; 48; 13; 10; 13; 10]; [48; 13; 10; 13; 10]]%N.
Proof. vm_compute. reflexivity. Qed.
Example see_other_must_forget_the_position :
  let P := mkParams (nbm the_params) true true false true true in
  snd (urlopen P false [ARedirect true; AOk] POST a_file PNone false 4) = RErr EValueError.
Proof. vm_compute. reflexivity. Qed.
Example chunk_sizes_must_be_bytes :
  request_frame (nbm the_params) false POST (BBuffer 2 [1; 0; 2; 0]%N) true 4
  = Some (FrTE, [50; 13; 10; 1; 0; 2; 0; 13; 10; 48; 13; 10; 13; 10]%N, BBuffer 2 [1; 0; 2; 0]%N) /\
  unframe FrTE [50; 13; 10; 1; 0; 2; 0; 13; 10; 48; 13; 10; 13; 10]%N = None.
Proof. vm_compute. split; reflexivity. Qed.
