(* C16 — HTTPHeaderDict behaves as a case-insensitive, order-preserving multimap.
   Only theorem statements closed by `exact`, each followed by Print Assumptions. *)
From Coq Require Import List NArith Bool.
From V Require Import lib.PyStr model.HeaderDict gen.Gen_Coll.
Import ListNotations.

(* anchor: the header list removed by _prepare_for_method_change, as found in the source *)
Theorem gen_content_specific_headers_pinned :
  Gen_Coll.content_specific_headers = Some HeaderDict.content_specific_headers.
Proof. reflexivity. Qed.
Print Assumptions gen_content_specific_headers_pinned.
