(* C16 — HTTPHeaderDict behaves as a case-insensitive, order-preserving multimap.
   Only statements, each closed by `exact` and followed by Print Assumptions.
   Every theorem is for ALL operation sequences (any length, any number of
   objects) and for EVERY lower-casing function `lower`. *)
From Coq Require Import String List NArith Bool.
From V Require Import lib.PyStr model.HeaderDict model.HeaderSpec gen.Gen_Coll
  proofs.HeaderDict_inv proofs.HeaderDict_refine proofs.HeaderDict_step.
Import ListNotations.

(* anchor: the header list removed by _prepare_for_method_change, as found in the source *)
Theorem gen_content_specific_headers_pinned :
  Gen_Coll.content_specific_headers = Some HeaderDict.content_specific_headers.
Proof. reflexivity. Qed.
Print Assumptions gen_content_specific_headers_pinned.

(* representation invariant in every reachable store: keys unique, stored key =
   lower(stored name), at least one value per entry *)
Theorem hd_inv : forall lower ops,
  Forall (Inv lower) (run_ops lower ops [[]]).
Proof.
  intros lower ops. apply run_ops_inv. constructor; [apply Inv_nil | constructor].
Qed.
Print Assumptions hd_inv.

(* refinement: running any operation sequence on the model and abstracting to
   flat header lines equals running the reference multimap; every operation
   returns the reference's result (in particular never an internal error) *)
Theorem hd_refines_multimap : forall lower ops,
  sp_run lower ops [[]] =
  (map abs (fst (run_trace lower ops [[]])), snd (run_trace lower ops [[]])).
Proof.
  intros lower ops. apply (run_refines lower ops [[]]).
  constructor; [apply Inv_nil | constructor].
Qed.
Print Assumptions hd_refines_multimap.

(* every public observation of an object is the reference's observation of
   its abstract state: per-line and merged iteration, names, len, lookup under
   any casing, membership, getlist *)
Theorem hd_observations_refine : forall lower d,
  Inv lower d ->
  iteritems lower d = Some (abs d) /\
  itermerged lower d = Some (sp_merged lower (abs d)) /\
  names d = sp_names lower (abs d) /\
  length d = sp_len lower (abs d) /\
  (forall k, getitem lower k d = sp_get lower k (abs d)) /\
  (forall k, contains lower k d = sp_has lower k (abs d)) /\
  (forall k, getlist lower k d = sp_values lower k (abs d)).
Proof. exact observations_refine. Qed.
Print Assumptions hd_observations_refine.

Theorem hd_eq_refines : forall lower a b,
  Inv lower a -> Inv lower b -> hd_eq lower a b = Some (sp_eq lower (abs a) (abs b)).
Proof. exact eq_refines. Qed.
Print Assumptions hd_eq_refines.

(* independence: an operation changes no object other than the one it is
   applied to, object-creating operations change none, and a copy is equal to
   its source at the moment of copying *)
Theorem hd_copy_independent : forall lower st p o',
  o' < length st -> target p <> Some o' ->
  get_obj (fst (step lower st p)) o' = get_obj st o'.
Proof. exact step_frame. Qed.
Print Assumptions hd_copy_independent.

Theorem hd_copy_equal : forall lower d, Inv lower d -> copy lower d = d.
Proof. exact copy_id. Qed.
Print Assumptions hd_copy_equal.

(* non-vacuity: a concrete reachable non-trivial store meets the hypotheses *)
Example hd_nonvacuous :
  let st := run_ops ascii_lower
              [OAdd 0 (S!"Set-Cookie") (S!"a") false; OAdd 0 (S!"set-cookie") (S!"b") false;
               OSet 0 (S!"X") (S!"1"); OCopy 0; OAdd 1 (S!"x") (S!"2") true] [[]] in
  length st = 2 /\ abs (get_obj st 1) =
    [(S!"Set-Cookie", S!"a"); (S!"Set-Cookie", S!"b"); (S!"X", S!"1, 2")]
  /\ abs (get_obj st 0) = [(S!"Set-Cookie", S!"a"); (S!"Set-Cookie", S!"b"); (S!"X", S!"1")].
Proof. vm_compute. repeat split. Qed.
