(* C13 — a cut-off or corrupt response is never presented as complete.
   Statements only: for every list of non-empty chunks of any content, every read size, every cut position. *)
From Coq Require Import List NArith ZArith Arith Bool.
From V Require Import model.Framing model.ChunkParse proofs.ChunkParse_proofs model.LenRead proofs.LenRead_proofs gen.Gen_Read.
Import ListNotations.

(* the reader is exact on intact bodies: a chunked body (sizes in hexadecimal as any sender writes them) is read back,
   chunk by chunk or in pieces of amt, as the concatenation of its chunks, without an empty piece, and ends normally *)
Theorem complete_body_reads_back : forall cs amt, Forall (fun c => 1 <= length c) cs ->
  forall fuel, length cs < fuel ->
  exists ps, read_chunked fuel (enc_chunked [] cs) amt = (ps, Complete) /\ concat ps = concat cs /\ Forall (fun p => p <> []) ps.
Proof. exact ChunkParse_proofs.complete_body_reads_back. Qed.
Print Assumptions complete_body_reads_back.

(* cut anywhere before the zero of the last-chunk line - inside a size line, inside chunk data, inside the CRLF after
   a chunk, between chunks - the reading never ends normally: it raises (InvalidChunkLength, "ended prematurely" or
   IncompleteRead), for every read size *)
Theorem cut_never_complete : forall cs amt, Forall (fun c => 1 <= length c) cs ->
  forall k fuel, k < length (concat (map (enc_chunk []) cs)) -> length cs < fuel ->
  snd (read_chunked fuel (firstn k (enc_chunked [] cs)) amt) <> Complete.
Proof. exact ChunkParse_proofs.cut_never_complete. Qed.
Print Assumptions cut_never_complete.

(* a size line that int(line, 16) rejects never lets the reading go on *)
Theorem rejected_size_line_raises : forall f w amt,
  py_int16 (before_semi (fst (readline w))) = None ->
  snd (read_chunked (S f) w amt) = InvalidChunk \/ snd (read_chunked (S f) w amt) = Premature.
Proof. exact ChunkParse_proofs.rejected_size_line_raises. Qed.
Print Assumptions rejected_size_line_raises.

(* ---- Content-Length framing (model LenRead.v) ---- *)

(* enforce_content_length is on by default from urlopen down to the response; _raw_read still raises IncompleteRead on an
   empty read while length_remaining is not zero - for read(n) and for read1 with or without a size; stream() still
   makes one more read after its loop, so that the decoder reports an incomplete stream *)
Theorem source_facts :
  Gen_Read.enforce_content_length_default = Some true /\ Gen_Read.raw_read_enforces_length = Some true /\
  Gen_Read.stream_flushes_after_loop = Some true /\ Gen_Read.multidecoder_flushes_all = Some true.
Proof. repeat split; reflexivity. Qed.
Print Assumptions source_facts.

(* a body that stops short of its Content-Length never ends normally: read() / preload, a loop of read(n), stream(n),
   decoding requested or not - every one ends in IncompleteRead (or ProtocolError around http.client's), having
   delivered only a prefix of the bytes that arrived *)
Theorem cut_never_complete_len : forall dc body content_length ap,
  length body < content_length -> amt_ok ap ->
  exists ps e, run_api true dc body content_length ap = (ps, e) /\ (e = EIncomplete \/ e = EProtocol) /\
               exists rest, body = concat ps ++ rest.
Proof. exact LenRead_proofs.cut_never_complete_len. Qed.
Print Assumptions cut_never_complete_len.

(* and a body that is all there is read back exactly (whatever follows it on the connection is left alone) and ends normally *)
Theorem complete_body_reads_back_len : forall dc body content_length ap,
  content_length <= length body -> amt_ok ap ->
  exists ps, run_api true dc body content_length ap = (ps, Normal) /\ concat ps = firstn content_length body.
Proof. exact LenRead_proofs.complete_body_reads_back_len. Qed.
Print Assumptions complete_body_reads_back_len.

(* non-vacuity *)
Example len_whole : run_api true true [104; 105; 33; 33; 33] 5 (AReadN 2) = ([[104; 105]; [33; 33]; [33]], Normal).
Proof. vm_compute. reflexivity. Qed.
Example len_cut : run_api true true [104; 105; 33] 5 (AStream 2) = ([[104; 105]], EIncomplete).
Proof. vm_compute. reflexivity. Qed.
(* without enforce_content_length the cut body would end normally: the theorem is about the default *)
Example len_cut_not_enforced : run_api false true [104; 105; 33] 5 (AReadN 2) = ([[104; 105]; [33]], Normal).
Proof. vm_compute. reflexivity. Qed.

(* what int(.., 16) accepts and rejects, on the inputs that matter *)
Example size_lines :
  map py_int16 [[49; 102; 13; 10]; [49; 70]; [32; 49; 48; 32]; [43; 53]; [48; 120; 49; 48]; [49; 95; 48]] %N
    = [Some 31; Some 31; Some 16; Some 5; Some 16; Some 16]%Z /\
  map py_int16 [[]; [13; 10]; [103]; [49; 32; 48]; [95; 49]; [49; 95]; [49; 95; 95; 48]; [48; 120]; [49; 0]; [45]]%N
    = repeat None 10.
Proof. vm_compute. split; reflexivity. Qed.

(* non-vacuity: a two-chunk body, whole and cut in the middle of the second chunk's data *)
Definition two : list (list N) := [[104; 105]; [33; 33; 33]]%N.
Example whole : read_chunked 9 (enc_chunked [] two) (Some 2) = ([[104; 105]; [33; 33]; [33]]%N, Complete).
Proof. vm_compute. reflexivity. Qed.
Example cut_in_second_chunk : read_chunked 9 (firstn 12 (enc_chunked [] two)) None = ([[104; 105]]%N, Incomplete).
Proof. vm_compute. reflexivity. Qed.
(* the either-region: a cut right after the zero of the last-chunk line ends normally, the payload is complete *)
Example cut_after_last_zero : read_chunked 9 (firstn 16 (enc_chunked [] two)) None = ([[104; 105]; [33; 33; 33]]%N, Complete).
Proof. vm_compute. reflexivity. Qed.
