(* C19 — socket waits never exceed the configured timeouts.
   Statements only (over exact rationals; IEEE rounding not modelled). *)
From Coq Require Import List QArith Qminmax Bool.
From V Require Import model.Timeout proofs.Timeout_proofs.
Import ListNotations.
Local Open Scope Q_scope.

(* connect phase uses min(connect, total) over whichever is set *)
Theorem connect_timeout_spec : forall t,
  match t_total t, t_connect t with
  | None, c => connect_timeout t = c
  | Some tot, TNum c => connect_timeout t = TNum (Qmin c tot)
  | Some tot, _ => connect_timeout t = TNum tot
  end.
Proof. exact Timeout_proofs.connect_timeout_spec. Qed.
Print Assumptions connect_timeout_spec.

(* response wait = min(read, total - time spent connecting), clipped at 0 *)
Theorem read_timeout_spec : forall sys t s now,
  t_start t = Some s ->
  read_timeout sys t now =
  match t_total t, t_read t with
  | Some tot, TNum r => RtVal (Some (Qmax 0 (Qmin (tot - (now - s)) r)))
  | Some tot, _ => RtVal (Some (Qmax 0 (tot - (now - s))))
  | None, r => RtVal (resolve sys r)
  end.
Proof. exact Timeout_proofs.read_timeout_spec. Qed.
Print Assumptions read_timeout_spec.

(* never negative, never looser than configured: every socket wait of a request *)
Theorem never_negative_never_looser : forall pool r fresh d now t0 evs out now',
  get_timeout pool r = Some t0 -> Valid t0 -> 0 <= d ->
  make_request None pool r fresh d now = (evs, out, now') ->
  forall e q, In e evs -> ev_val e = Some q ->
    0 <= q /\ (forall tot, t_total t0 = Some tot -> q <= tot).
Proof. exact waits_within_bounds. Qed.
Print Assumptions never_negative_never_looser.

Theorem connect_never_looser : forall t a,
  connect_timeout t = TNum a ->
  (forall c, t_connect t = TNum c -> a <= c) /\ (forall tot, t_total t = Some tot -> a <= tot).
Proof. exact Timeout_proofs.connect_never_looser. Qed.
Print Assumptions connect_never_looser.

Theorem read_never_looser : forall sys t s now a,
  t_start t = Some s -> read_timeout sys t now = RtVal (Some a) ->
  match t_total t with
  | Some tot => 0 <= a /\ (a <= Qmax 0 (tot - (now - s))) /\ (forall r, t_read t = TNum r -> a <= Qmax 0 r)
  | None => forall r, t_read t = TNum r -> a == r
  end.
Proof. exact read_never_negative_never_looser. Qed.
Print Assumptions read_never_looser.

(* a remaining read budget of zero raises ReadTimeoutError without waiting *)
Theorem zero_read_raises : forall sys pool r t0 d now tot,
  get_timeout pool r = Some t0 -> t_total t0 = Some tot -> tot <= d ->
  make_request sys pool r true d now =
  ([EConnect (resolve sys (connect_timeout (start_connect t0 now)))], OReadTimeout, now + d).
Proof. exact Timeout_proofs.zero_read_raises. Qed.
Print Assumptions zero_read_raises.

(* through a CONNECT tunnel the statement is false of the code that exists: the time spent connecting to the proxy is not taken
   from total - with total = 1/2 and a connect that takes 5 seconds the response wait is 1/2 and nothing is raised (C19-F1) *)
Theorem tunnel_connect_time_counts_refuted : exists pool d now evs now',
  t_total pool = Some (1#2) /\ (1#2) <= d /\
  tunnelled_request None pool ReqDefault true d now = (evs, OOk, now') /\ In (ESetTimeout (Some (1#2))) evs.
Proof.
  destruct (mk (RNum (1#2)) RNone RNone) as [p|] eqn:E; [|discriminate E].
  exists p, 5, 1000. inversion E; subst p. vm_compute. eexists. eexists. split; [reflexivity|]. split; [discriminate|].
  split; [reflexivity|]. right; right; left; reflexivity.
Qed.
Print Assumptions tunnel_connect_time_counts_refuted.

(* invalid values are rejected when the Timeout is built; what is built is valid *)
Theorem invalid_rejected : forall total connect read,
  ~ raw_ok connect \/ ~ raw_ok read \/ ~ raw_ok total -> mk total connect read = None.
Proof. exact mk_rejects_invalid. Qed.
Print Assumptions invalid_rejected.

Theorem built_is_valid : forall total connect read t, mk total connect read = Some t -> Valid t.
Proof. exact mk_valid. Qed.
Print Assumptions built_is_valid.

(* a request-level timeout fully overrides the pool's *)
Theorem request_overrides_pool : forall p1 p2 r, overrides r -> get_timeout p1 r = get_timeout p2 r.
Proof. exact Timeout_proofs.request_overrides_pool. Qed.
Print Assumptions request_overrides_pool.

(* one request's clock never influences another's *)
Theorem clocks_independent : forall sys pool r fresh d now s1 s2,
  make_request sys (restart pool s1)
    (match r with ReqTimeout t => ReqTimeout (restart t s2) | x => x end) fresh d now =
  make_request sys pool r fresh d now.
Proof. exact Timeout_proofs.clocks_independent. Qed.
Print Assumptions clocks_independent.

(* non-vacuity *)
Example c19_nonvacuous :
  exists t, mk (RNum 10) (RNum 2) (RNum (1#2)) = Some t /\ Valid t /\
  make_request None t ReqDefault true 5 1000 =
    ([EConnect (Some (Qmin 2 10)); ESetTimeout (Some (Qmax 0 (Qmin (10 - (1000 + 5 - 1000)) (1#2))))], OOk, 1000 + 5).
Proof.
  eexists. split; [reflexivity|]. split; [repeat split; reflexivity | reflexivity].
Qed.
