(* C20 — multipart form encoding is structurally sound for any field content.
   Statements only. *)
From Coq Require Import String List NArith Bool.
From V Require Import lib.PyStr lib.Utf8 model.Multipart gen.Gen_Form proofs.Multipart_proofs.
Import ListNotations.
Local Open Scope N_scope.

(* anchors: the escape table, the parameter format and the header order found in the source *)
Theorem gen_escape_table_pinned :
  Gen_Form.escape_table = Some [(10, S!"%0A"); (13, S!"%0D"); (34, S!"%22")] /\
  (forall c, esc_cp c = match find (fun e => fst e =? c) [(10, S!"%0A"); (13, S!"%0D"); (34, S!"%22")] with
                        | Some e => snd e | None => [c] end).
Proof.
  split; [reflexivity|]. intros c. unfold esc_cp. cbn [find fst snd].
  rewrite (N.eqb_sym 10 c), (N.eqb_sym 13 c), (N.eqb_sym 34 c).
  destruct (c =? 10); [reflexivity|]. destruct (c =? 13); [reflexivity|]. destruct (c =? 34); reflexivity.
Qed.
Print Assumptions gen_escape_table_pinned.

Theorem gen_param_format_pinned :
  Gen_Form.param_format = Some (S!"{name}=""{value}""") /\
  Gen_Form.sort_keys = Some [S!"Content-Disposition"; S!"Content-Type"; S!"Content-Location"].
Proof. split; reflexivity. Qed.
Print Assumptions gen_param_format_pinned.

(* no field name or filename can terminate a parameter, add a header or open a part:
   the rendered value contains no double quote, CR or LF *)
Theorem param_escape_safe : forall s bs,
  utf8 (escape s) = Some bs -> ~ In QUOTE bs /\ ~ In CR bs /\ ~ In LF bs.
Proof. exact Multipart_proofs.param_escape_safe. Qed.
Print Assumptions param_escape_safe.

(* the strict parser reads back exactly the fields: same count, same order, exact
   Content-Disposition parameters / Content-Type, byte-identical data *)
Theorem multipart_roundtrip : forall bb fs ps,
  ~ In CR bb -> Forall2 (ok_field bb) fs ps ->
  exists body, encode bb fs = Some body /\ parse_strict bb body = Some ps.
Proof. exact roundtrip. Qed.
Print Assumptions multipart_roundtrip.

Theorem content_type_names_boundary : forall b,
  content_type_header b = S!"multipart/form-data; boundary=" ++ b.
Proof. reflexivity. Qed.
Print Assumptions content_type_names_boundary.

(* non-vacuity: a hostile field list meets the hypotheses and round-trips *)
Example c20_nonvacuous :
  let bb := S!"xYz" in
  let f1 := mkF (S!"a""; filename=""evil") None None (DStr [13; 10; 45; 45; 120]) in
  let f2 := mkF (S!"n") (Some [233; 10]) (Some (S!"text/plain")) (DBytes [0; 255; 13; 10]) in
  match encode bb [f1; f2] with
  | Some body => option_map (map p_name) (parse_strict bb body) = Some [S!"a%22; filename=%22evil"; S!"n"]
  | None => False
  end.
Proof. vm_compute. reflexivity. Qed.
