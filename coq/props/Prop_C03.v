(* C03 — a response only ever contains bytes sent in reply to its own request.
   Statements only: for every pool size, every history of requests, every caller behaviour per response, every
   script of server replies of any length and every number of allowed retries. *)
From Coq Require Import List Arith Bool.
From V Require Import model.Wire proofs.Wire_proofs gen.Gen_Read.
Import ListNotations.

(* result_ok script i rq res (proofs/Wire_proofs.v): every run of bytes delivered for request i carries tag i - the tag
   the server gives to the bytes it writes in reply to request i, strays carry 100+i - and what was delivered is either
   nothing or at most as many bytes as one reply of the script, answering a request of that kind, sent (k_sent <= k_n).
   all_ok: that holds for every request of the history.
   The server may hold the rest of a body back until the next request arrives on that connection (SLate): with
   release_conn() closing what was not read to its end (rc = true, the source as it is: source_facts below) the
   statement holds all the same. *)
Theorem bytes_belong_to_request : forall fuel M script reqs,
  all_ok script 0 reqs (run_history true fuel M (init M script) 0 reqs).
Proof. intros. exact (history_own fuel M reqs (init M script) 0 (init_no_hold M script)). Qed.
Print Assumptions bytes_belong_to_request.

(* the same from any pool state whatever (any idle connections, any bytes pending on them) in which no server is
   holding anything back *)
Theorem bytes_belong_from_any_state : forall fuel M st i reqs, no_hold st ->
  all_ok (s_script st) i reqs (run_history true fuel M st i reqs).
Proof. intros. exact (history_own fuel M reqs st i H). Qed.
Print Assumptions bytes_belong_from_any_state.

(* with release_conn() as it was before fix f695319 (rc = false) the statement is false: a response released unread whose
   rest arrives with the next request hands that rest - bytes written for request 0 - to request 1 *)
Theorem bytes_belong_without_the_fix_refuted : exists M script reqs,
  ~ all_ok script 0 reqs (run_history false 3 M (init M script) 0 reqs).
Proof.
  exists 1, [mkReply 0 200 FLen 57 1 1 true SLate false; mkReply 0 200 FLen 4 4 4 true SNone false],
    [mkReq false false CRelease; mkReq false false CReadAll].
  vm_compute. intros [_ [[H _] _]]. inversion H as [|? ? Hx _]. discriminate Hx.
Qed.
Print Assumptions bytes_belong_without_the_fix_refuted.

(* a pooled connection with bytes or EOF pending at checkout is closed, not used *)
Theorem pending_connection_discarded : forall st s d q x xs,
  s_q st = Some (s, d) :: q -> evs_of (s_evs st) s = x :: xs -> x <> IHold ->
  exists st1, checkout st = (st1, None) /\ evs_of (s_evs st1) s = [] /\ s_q st1 = q.
Proof. exact pending_is_discarded. Qed.
Print Assumptions pending_connection_discarded.

(* the socket an attempt writes its request to has nothing pending *)
Theorem attempt_socket_clean : forall st st2 s d, no_hold st ->
  acquire st = (st2, s, d) -> evs_of (s_evs st2) s = [].
Proof. intros st st2 s d Hn H. exact (proj1 (acquire_clean st st2 s d Hn H)). Qed.
Print Assumptions attempt_socket_clean.

(* a connection whose previous response was left unread (and is still alive) never yields a response:
   the attempt fails and the socket is closed *)
Theorem unread_response_blocks_reuse : forall rc M st2 s i rq r0 more,
  exists st4, attempt rc M st2 s true i rq r0 more = (st4, None) /\ evs_of (s_evs st4) s = [].
Proof. exact dirty_never_yields. Qed.
Print Assumptions unread_response_blocks_reuse.

(* a failed attempt is retried on a socket opened for it *)
Theorem retry_on_fresh_socket : forall rc M st2 s d i rq r0 more st4,
  length (s_q st2) < M ->
  attempt rc M st2 s d i rq r0 more = (st4, None) ->
  acquire st4 = (fst (open_sock (set_q st4 (s_q st2))), s_nsid st4, false) /\ s_nsid st4 = s_nsid st2.
Proof. exact Wire_proofs.retry_on_fresh_socket. Qed.
Print Assumptions retry_on_fresh_socket.

(* the liveness test at checkout also counts bytes a TLS layer has decrypted but not yet handed over (sock.pending(), which
   select()/poll() do not see; source fact: the model's checkout looks at everything that has arrived).
   release_conn() still closes a connection whose response was not read to its end (source fact), and then: a response
   released unread, or after a partial read(k), never sends its connection back to the pool open - the rest of its body,
   pending or still on its way, cannot be taken for the next response *)
Theorem source_facts : Gen_Read.release_closes_unread = Some true /\ Gen_Read.checkout_sees_tls_pending = Some true.
Proof. split; reflexivity. Qed.
Print Assumptions source_facts.

Theorem released_unread_is_closed : forall t r bl rest c d err it dirty,
  respond true t r bl rest c = (d, err, APut it dirty) ->
  match c with
  | CRelease | CKeep => nothing_to_read r bl = true
  | CReadK k => read_to_end r bl k = true
  | _ => True
  end.
Proof. exact Wire_proofs.released_unread_is_closed. Qed.
Print Assumptions released_unread_is_closed.

(* non-vacuity 1: a history in which a stray second response is pending when the next request checks the connection
   out; the second request is served on a new socket and gets its own bytes *)
Definition stray_then_probe : list result :=
  run_history true 3 1 (init 1 [mkReply 0 200 FLen 4 4 4 true SSepResp false; mkReply 0 200 FLen 4 4 4 true SNone false]) 0
              [mkReq false false CRelease; mkReq false false CReadAll].
Example stray_history :
  map (fun r => (r_delivered r, r_sock r)) stray_then_probe = [([], Some 0); ([(1, 4)], Some 1)].
Proof. vm_compute. reflexivity. Qed.

(* non-vacuity 2: the checkout test is what the theorem rests on - an attempt made on a socket that still has the
   stray response pending is handed the stray bytes (tag 100) *)
Example without_the_checkout_test_bytes_leak :
  let st2 := mkSt [] [(0, [IResp 100 stray_reply])] 1 [] in
  option_map r_delivered
    (snd (attempt true 1 st2 0 false 1 (mkReq false false CReadAll) (mkReply 0 200 FLen 4 4 4 true SNone false) []))
  = Some [(100, 3)].
Proof. vm_compute. reflexivity. Qed.
