(* C15 — what goes on the wire is exactly what the URL says.
   Statements only: for every parsed URL (every userinfo, fragment, host, port, path, query), every IDNA oracle, direct,
   through a CONNECT tunnel and through a forwarding proxy. *)
From Coq Require Import String List NArith Arith Bool.
From V Require Import lib.PyStr model.Url model.WireUrl proofs.WireUrl_proofs gen.Gen_Wire corr.Run_C15.
Import ListNotations.
Local Open Scope N_scope.

(* the source fact regenerated on this run: the absolute-form target is built without userinfo and fragment *)
Theorem source_facts : Gen_Wire.absolute_target_clean = Some true.
Proof. reflexivity. Qed.
Print Assumptions source_facts.

(* where the connection goes, the TLS server name, the request line, the Host header and the CONNECT line do not
   depend on the userinfo or on the fragment of the URL - whatever they are, directly or through a proxy *)
Theorem wire_ignores_userinfo_and_fragment : forall idna via u a f,
  wire_of idna clean via (with_auth_frag u a f) = wire_of idna clean via u.
Proof. intros. exact (WireUrl_proofs.wire_ignores_userinfo_and_fragment idna via u a f). Qed.
Print Assumptions wire_ignores_userinfo_and_fragment.

(* a default port spelled out: same pool, same bytes - for direct and for tunnelled requests *)
Theorem explicit_default_port_is_the_same : forall idna u sch via,
  scheme u = Some sch -> (via = false \/ str_eqb sch HTTPS = true) ->
  wire_of idna clean via (with_port u (Some (default_port sch))) = wire_of idna clean via (with_port u None) /\
  pool_key (with_port u (Some (default_port sch))) = pool_key (with_port u None).
Proof. intros. apply WireUrl_proofs.explicit_default_port_is_the_same; assumption. Qed.
Print Assumptions explicit_default_port_is_the_same.

(* ... and the statement without the restriction is false: forwarded requests repeat the port as written (known finding C15-F2) *)
Definition ex_url (p : option N) : url :=
  mkUrl (Some HTTP) None (Some (str_of_string "example.com")) p (Some (str_of_string "/x")) None None.
Theorem forwarded_default_port_refuted :
  option_map w_line (wire_of (fun _ => None) clean true (ex_url (Some 80))) <>
  option_map w_line (wire_of (fun _ => None) clean true (ex_url None)).
Proof. vm_compute. discriminate. Qed.
Print Assumptions forwarded_default_port_refuted.

(* "the TCP connection is opened to the URL's ... port (80/443 when absent)" is false for the explicit port 0, which `if not port`
   reads as absent: http://example.com:0/x is sent to port 80 (known finding C15-F5) *)
Theorem explicit_port_zero_refuted :
  option_map w_port (wire_of (fun _ => None) clean false (ex_url (Some 0))) = Some 80.
Proof. vm_compute. reflexivity. Qed.
Print Assumptions explicit_port_zero_refuted.

Theorem host_header_port_rule : forall host p dp,
  (p = dp -> host_header host p dp = host_header host dp dp) /\
  (p <> dp -> host_header host p dp = host_header host dp dp ++ [COLON] ++ str_of_N p).
Proof. exact WireUrl_proofs.host_header_port_rule. Qed.
Print Assumptions host_header_port_rule.

(* the TLS server name is the host without trailing dots, or an IP literal without brackets and zone *)
Theorem server_name_shape : forall h,
  (server_name h = rstrip_dots h /\ match rev (rstrip_dots h) with c :: _ => (c =? DOT) = false | [] => True end) \/
  is_ip (server_name h) = true.
Proof. exact WireUrl_proofs.server_name_shape. Qed.
Print Assumptions server_name_shape.

Theorem empty_path_is_slash : forall u, (path u = None \/ path u = Some []) -> exists q, request_uri u = SLASH :: q.
Proof. exact WireUrl_proofs.empty_path_is_slash. Qed.
Print Assumptions empty_path_is_slash.

(* concrete URLs through the whole model (parse_url of C14 first) *)
Definition wire_str (via : bool) (s : string) : option wire :=
  match parse_url (fun _ => None) (str_of_string s) with Some u => wire_of (fun _ => None) clean via u | None => None end.
Definition show (w : option wire) :=
  match w with Some w => Some (w_dns w, w_port w, w_sni w, w_line w, w_host w) | None => None end.
Example direct_https_zone :
  show (wire_str false "https://user:pw@[FE80::1%25eth0]:8443/a/../b?q#frag") =
  Some (str_of_string "fe80::1%eth0", 8443, Some (str_of_string "fe80::1"), str_of_string "GET /b?q HTTP/1.1", str_of_string "[fe80::1]:8443").
Proof. vm_compute. reflexivity. Qed.
Example forwarded_has_no_credentials :
  option_map w_line (wire_str true "http://user:pw@Example.COM/a b#frag") = Some (str_of_string "GET http://example.com/a%20b HTTP/1.1").
Proof. vm_compute. reflexivity. Qed.
(* the model reproduces the known finding C15-F1 (double brackets in the tunnelled Host header, from http.client) *)
Example tunnel_ipv6_host_header :
  option_map w_host (wire_str true "https://[2001:db8::1]/") = Some (str_of_string "[[2001:db8::1]]").
Proof. vm_compute. reflexivity. Qed.
