(* C08 — certificate name and fingerprint matching accept exactly what the rules allow.
   Statements only. `host` is the requested name; hypotheses `count_star host = 0`
   say it is a real host name (contains no '*'). *)
From Coq Require Import String List NArith Bool Arith.
From V Require Import lib.PyStr model.HostMatch gen.Gen_Tls proofs.HostMatch_proofs.
Import ListNotations.

(* anchor: the pin-length table found in the source *)
Theorem gen_hashfunc_map_pinned :
  Gen_Tls.hashfunc_map = Some [(32, S!"md5"); (40, S!"sha1"); (64, S!"sha256")]%nat.
Proof. reflexivity. Qed.
Print Assumptions gen_hashfunc_map_pinned.

(* ---- must accept ---- *)
Theorem must_accept_exact : forall dn host,
  dn <> [] -> count_star (leftmost_of dn) = 0%nat -> ieq dn host = true ->
  dnsname_match dn host = DMatch true.
Proof. exact HostMatch_proofs.must_accept_exact. Qed.
Print Assumptions must_accept_exact.

Theorem must_accept_wildcard : forall dn host rest h0 hrest,
  split_dot dn = [STAR] :: rest -> split_dot host = h0 :: hrest ->
  h0 <> [] -> all_ieq rest hrest = true ->
  dnsname_match dn host = DMatch true.
Proof. exact HostMatch_proofs.must_accept_wildcard. Qed.
Print Assumptions must_accept_wildcard.

Theorem must_accept_san_dns : forall ip_parse pre v post cns host cn,
  host_ip_of ip_parse host = None ->
  dnsname_match v host = DMatch true ->
  (forall w, In (SDns w) pre -> dnsname_match w host <> DTooManyWildcards) ->
  match_hostname ip_parse (pre ++ SDns v :: post) cns host cn = Accept.
Proof. exact match_accept_complete_dns. Qed.
Print Assumptions must_accept_san_dns.

Theorem must_accept_san_ip : forall ip_parse pre v post cns host cn p,
  host_ip_of ip_parse host = Some p -> ip_parse (rstrip v) = Some p ->
  (forall w, In (SIp w) pre -> ip_parse (rstrip w) <> None) ->
  match_hostname ip_parse (pre ++ SIp v :: post) cns host cn = Accept.
Proof. exact match_accept_complete_ip. Qed.
Print Assumptions must_accept_san_ip.

(* without the hypothesis on the earlier entries the statement is false of the code that exists: an entry whose left-most label
   has several wildcards makes _dnsname_match raise, and the exact entry after it is never looked at (C08-F1) *)
Theorem must_accept_san_dns_unconditional_refuted : exists pre v post host,
  host_ip_of (fun _ => None) host = None /\ dnsname_match v host = DMatch true /\
  match_hostname (fun _ => None) (pre ++ SDns v :: post) [] host false = RejectCert.
Proof. exists [SDns (S!"**.a")], (S!"a.a"), [], (S!"a.a"). vm_compute. repeat split. Qed.
Print Assumptions must_accept_san_dns_unconditional_refuted.

(* "commonName when SANs exist" is rejected only for DNS and IP entries: a certificate whose subjectAltName holds only other
   entry types (URI, ...) is matched by its commonName when that is enabled (C08-F2) *)
Theorem common_name_beside_other_san_refuted : exists san cns host,
  san <> [] /\ match_hostname (fun _ => None) san cns host true = Accept.
Proof. exists [SOther], [S!"a.b"], (S!"a.b"). split; [discriminate|vm_compute; reflexivity]. Qed.
Print Assumptions common_name_beside_other_san_refuted.

(* ---- must reject ---- *)
(* every acceptance is justified: DNS entry vs non-IP host, IP entry by address value
   vs IP host, commonName only when enabled and no DNS/IP SAN exists *)
Theorem acceptance_is_justified : forall ip_parse san cns host cn,
  match_hostname ip_parse san cns host cn = Accept ->
  (host_ip_of ip_parse host = None /\ exists v, In (SDns v) san /\ dnsname_match v host = DMatch true) \/
  (exists p v, host_ip_of ip_parse host = Some p /\ In (SIp v) san /\ ip_parse (rstrip v) = Some p) \/
  (cn = true /\ host_ip_of ip_parse host = None /\ (forall e, In e san -> e = SOther) /\
   exists v, In v cns /\ dnsname_match v host = DMatch true).
Proof. exact match_accept_sound. Qed.
Print Assumptions acceptance_is_justified.

Theorem must_reject_many_wildcards : forall dn host,
  dn <> [] -> (1 < count_star (leftmost_of dn))%nat -> dnsname_match dn host = DTooManyWildcards.
Proof. exact reject_many_wildcards. Qed.
Print Assumptions must_reject_many_wildcards.

Theorem must_reject_wildcard_not_leftmost : forall dn host lm rem l,
  count_star host = 0%nat -> split_dot dn = lm :: rem -> In l rem -> (0 < count_star l)%nat ->
  dnsname_match dn host <> DMatch true.
Proof. exact reject_wildcard_not_leftmost. Qed.
Print Assumptions must_reject_wildcard_not_leftmost.

(* a whole-label wildcard covers exactly one non-empty label (never a dot, never nothing) *)
Theorem wildcard_covers_one_label : forall dn host rest,
  split_dot dn = [STAR] :: rest -> dnsname_match dn host = DMatch true ->
  exists h0 hrest, split_dot host = h0 :: hrest /\ h0 <> [] /\ ~ In DOT h0 /\
                   length hrest = length rest /\ all_ieq rest hrest = true.
Proof. exact wildcard_one_label. Qed.
Print Assumptions wildcard_covers_one_label.

(* the A-label test of _dnsname_match still ignores the letter case (source fact; the model's does) *)
Theorem alabel_source_fact : Gen_Tls.alabel_test_ignores_case = Some true.
Proof. reflexivity. Qed.
Print Assumptions alabel_source_fact.

(* _ipaddress_match still compares an IP entry with the host by packed octets - address family and value - as the model's packed_eqb does *)
Theorem ip_compare_source_fact : Gen_Tls.ip_entries_compared_by_packed_octets = Some true.
Proof. reflexivity. Qed.
Print Assumptions ip_compare_source_fact.

(* (the A-label prefix in any letter case: `XN--*` is as much an A-label as `xn--*`) *)
Theorem must_reject_wildcard_in_alabel : forall dn host lm rem,
  count_star host = 0%nat -> split_dot dn = lm :: rem -> starts_with XN (ascii_lower lm) = true -> (0 < count_star lm)%nat ->
  dnsname_match dn host <> DMatch true.
Proof. exact reject_wildcard_in_alabel. Qed.
Print Assumptions must_reject_wildcard_in_alabel.

(* ---- fingerprints ---- *)
Theorem fingerprint_iff : forall table fp,
  assert_fingerprint table fp = FAccept <->
  exists n dig, find (fun e => Nat.eqb (fst e) (length (strip_colons_lower fp))) table = Some (n, Some dig) /\
                unhexlify (strip_colons_lower fp) = Some dig.
Proof. exact HostMatch_proofs.fingerprint_iff. Qed.
Print Assumptions fingerprint_iff.

(* with the table found in the source: any pin whose length is not 32/40/64 is rejected *)
Theorem pin_other_length_rejected : forall m digest fp,
  Gen_Tls.hashfunc_map = Some m ->
  ~ In (length (strip_colons_lower fp)) [32; 40; 64]%nat ->
  assert_fingerprint (table_of m digest) fp = FRejectSSL.
Proof.
  intros m digest fp Hm Hn. rewrite gen_hashfunc_map_pinned in Hm. injection Hm as <-.
  apply other_length_rejected. exact Hn.
Qed.
Print Assumptions pin_other_length_rejected.

Theorem pin_colon_case_invariant : forall table a b,
  assert_fingerprint table (a ++ COLON :: b) = assert_fingerprint table (a ++ b) /\
  assert_fingerprint table (ascii_upper a) = assert_fingerprint table a.
Proof.
  intros table a b. split; apply pin_spelling_invariant; [apply pin_colon_invariant | apply pin_case_invariant].
Qed.
Print Assumptions pin_colon_case_invariant.

(* non-vacuity *)
Example c08_nonvacuous :
  dnsname_match (S!"*.Example.com") (S!"www.example.COM") = DMatch true /\
  dnsname_match (S!"*.example.com") (S!"a.b.example.com") = DMatch false /\
  dnsname_match (S!"*.example.com") (S!".example.com") = DMatch false /\
  dnsname_match (S!"xn--*.example.com") (S!"xn--a.example.com") = DMatch false /\
  dnsname_match (S!"a.*.com") (S!"a.b.com") = DMatch false.
Proof. vm_compute. repeat split. Qed.
