(* C01 — a pool never loses, duplicates or leaks connection slots, whatever the outcome.
   Statements only: for every maxsize, block flag, request list, outcome script of any
   length, class lattice and Retry policy source. *)
From Coq Require Import String List NArith ZArith Bool Arith.
From V Require Import lib.PyStr model.Retry model.PoolAcct proofs.PoolAcct_proofs
  gen.Gen_Exc gen.Gen_Urlopen gen.Gen_Retry gen.Gen_Read corr.Run_C04 corr.Run_C01.
Import ListNotations.

Definition final M B L ts tp ce re rac mk rc reqs script : pstate :=
  fst (run_history M B L ts tp ce re rac mk rc reqs script (init_pool M)).

(* the pool never holds more than maxsize entries; when no response owns a connection it offers
   exactly maxsize slots again; with block=True slots + connections owned by responses = maxsize always *)
Theorem slots_conserved : forall M B L ts tp ce re rac mk rc reqs script,
  let st := final M B L ts tp ce re rac mk rc reqs script in
  (length (p_q st) <= M) /\
  (p_leases st = [] -> length (p_q st) = M) /\
  (B = true -> length (p_q st) + length (p_leases st) = M).
Proof.
  intros. apply (PoolAcct_proofs.slots_conserved M B). apply run_history_inv. apply init_inv.
Qed.
Print Assumptions slots_conserved.

(* no connection object is idle in the pool twice, or both idle and owned by a response *)
Theorem no_dup_conn : forall M B L ts tp ce re rac mk rc reqs script,
  let st := final M B L ts tp ce re rac mk rc reqs script in
  NoDup (map c_id (qconns (p_q st) ++ p_leases st)).
Proof. intros. apply (PoolAcct_proofs.no_dup_conn M B). apply run_history_inv. apply init_inv. Qed.
Print Assumptions no_dup_conn.

(* once every response has given its connection back, every open socket is idle in the pool *)
Theorem nonidle_sockets_closed : forall M B L ts tp ce re rac mk rc reqs script,
  let st := final M B L ts tp ce re rac mk rc reqs script in
  p_leases st = [] -> forall s, In s (p_open st) -> In s (socks_of (qconns (p_q st))).
Proof. intros until script. intro st. apply (PoolAcct_proofs.nonidle_sockets_closed M B). apply run_history_inv. apply init_inv. Qed.
Print Assumptions nonidle_sockets_closed.

(* with block=True never more than maxsize sockets are open *)
Theorem block_bound : forall M L ts tp ce re rac mk rc reqs script,
  length (p_open (final M true L ts tp ce re rac mk rc reqs script)) <= M.
Proof. intros. apply (PoolAcct_proofs.block_bound M true); [apply run_history_inv; apply init_inv | reflexivity]. Qed.
Print Assumptions block_bound.

(* every fault surfaces as a urllib3 exception: with the class lattice and the handler tuples regenerated
   from the source, each class an attempt can raise is (wrapped into) a subclass of HTTPError *)
Definition raised_classes : list string :=
  ["NewConnectionError"; "ConnectTimeoutError"; "OSError"; "builtins.TimeoutError"; "http.client.ResponseNotReady";
   "ReadTimeoutError"; "ConnectionResetError"; "http.client.RemoteDisconnected"; "http.client.BadStatusLine";
   "BrokenPipeError"; "ssl.SSLError"; "CertificateError"; "http.client.IncompleteRead"]%string.

Theorem errors_are_urllib3 :
  forallb (fun c => isinstance LAT (e_cls (wrap_direct LAT (getl Gen_Urlopen.urlopen_to_sslerror)
                                              (getl Gen_Urlopen.urlopen_to_protocolerror) (str_of_string c)))
                               [S!"HTTPError"]) raised_classes = true /\
  forallb (fun c => isinstance LAT (S!c) (getl Gen_Urlopen.urlopen_except)) raised_classes = true /\
  isinstance LAT (S!"MaxRetryError") [S!"HTTPError"] = true /\ isinstance LAT (S!"EmptyPoolError") [S!"HTTPError"] = true /\
  (* interrupts are not caught by urlopen's handler: they propagate unchanged *)
  isinstance LAT (S!"KeyboardInterrupt") (getl Gen_Urlopen.urlopen_except) = false /\
  isinstance LAT (S!"SystemExit") (getl Gen_Urlopen.urlopen_except) = false.
Proof. vm_compute. repeat split. Qed.
Print Assumptions errors_are_urllib3.

(* the theorems above hold whichever way release_conn() treats an unread response (rc); the executable model follows the
   source (Gen_Read.release_closes_unread) *)

(* KNOWN FINDING C01-F1: close() alone does not give the slot back — the full-strength statement
   ("read, released or closed") is false of the code that exists *)
Theorem slots_conserved_close_refuted :
  exists reqs script,
    let st := final 1 true LAT (getl Gen_Urlopen.urlopen_to_sslerror) (getl Gen_Urlopen.urlopen_to_protocolerror)
                    (getl Gen_Urlopen.retry_connection_error) (getl Gen_Urlopen.retry_read_error)
                    (getl Gen_Retry.retry_after_status_codes) (the_default false) true reqs script in
    map rq_disposal reqs = [DClose] /\ length (p_q st) = 0%nat /\ p_open st = [].
Proof.
  exists [mkReq (S!"GET") false RNone DClose false], [mkAt KOk TOk (VResp 200 None true BOk false)].
  vm_compute. repeat split.
Qed.
Print Assumptions slots_conserved_close_refuted.
