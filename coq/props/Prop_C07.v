(* C07 — an HTTPS request is sent only over a connection verified as configured.
   Statements only: for every combination of cert_reqs, assert_hostname, assert_fingerprint, ssl_context, the way the CA is
   given, the backend (ssl or pyOpenSSL), the route (direct, CONNECT through an http proxy, CONNECT through an https proxy
   with its own settings) and every peer (issuer, names matching or not). *)
From Coq Require Import List Bool.
From V Require Import model.TlsVerify gen.Gen_Verify.
Import ListNotations.

(* the decisions are still written in the source the way the model transcribes them *)
Theorem source_facts :
  Gen_Verify.verify_mode_follows_cert_reqs = Some true /\ Gen_Verify.own_check_condition = Some true /\
  Gen_Verify.post_handshake_checks = Some true /\ Gen_Verify.default_context_rule = Some true /\
  Gen_Verify.no_cert_reqs_means_required = Some true /\ Gen_Verify.warning_rule = Some true /\
  Gen_Verify.system_store_only_without_ca = Some true /\ Gen_Verify.proxy_handshake_before_connect = Some true /\
  Gen_Verify.proxy_tls_settings = Some true /\ Gen_Verify.pyopenssl_context_shape = Some true /\
  Gen_Verify.common_name_fallback_always_off = Some true /\ Gen_Verify.common_name_signal_defaults_to_off = Some true.
Proof. repeat split; reflexivity. Qed.
Print Assumptions source_facts.

(* what the settings demand of a peer *)
Definition demanded (b : backend) (s : settings) (p : peer) : Prop :=
  match s_fingerprint s with
  | FPRight => True                                  (* the pinned certificate is the one presented *)
  | FPWrong | FPBadLength => False
  | FPUnset =>
      match resolve (s_cert_reqs s) with
      | VNone => True                                (* nothing is demanded (and the connection is not called verified) *)
      | _ =>
          p_chain_ok b s p = true /\
          match s_assert_hostname s with
          | AHFalse => True
          | AHName => p_assert_name_ok p = true
          | AHUnset => (* the TLS library checks the server name, or urllib3 does when the context does not *)
                       p_sni_name_ok p = true \/ p_assert_name_ok p = true
          end
      end
  end.

(* ---- the lattice is finite: both facts about one handshake are decided by evaluating `wrap` at every point of it ---- *)
Definition demandedb (b : backend) (s : settings) (p : peer) : bool :=
  match s_fingerprint s with
  | FPRight => true
  | FPWrong | FPBadLength => false
  | FPUnset =>
      match resolve (s_cert_reqs s) with
      | VNone => true
      | _ => p_chain_ok b s p &&
             match s_assert_hostname s with
             | AHFalse => true
             | AHName => p_assert_name_ok p
             | AHUnset => p_sni_name_ok p || p_assert_name_ok p
             end
      end
  end.

Lemma demandedb_spec b s p : demandedb b s p = true -> demanded b s p.
Proof.
  unfold demandedb, demanded. destruct (s_fingerprint s); try discriminate; auto.
  destruct (resolve (s_cert_reqs s)); auto; intros H; apply andb_true_iff in H as [H1 H2]; (split; [exact H1|]);
    destruct (s_assert_hostname s); auto; apply orb_true_iff in H2; exact H2.
Qed.

Definition bools := [true; false].
Definition backends := [BStd; BPyOpenSSL].
Definition crs := [CRDefault; CRRequired; CROptional; CRNone].
Definition ahs := [AHUnset; AHFalse; AHName].
Definition fps := [FPUnset; FPRight; FPWrong; FPBadLength].
Definition ctxs := [CtxNone; CtxChecking; CtxNotChecking; CtxPyOpenSSL].
Definition trusts := [TFile; TDir; TData; TNothing].
Definition issuers := [IConfigured; ISystem; IUnknown].
Lemma in_bools x : In x bools. Proof. destruct x; cbn; tauto. Qed.
Lemma in_backends x : In x backends. Proof. destruct x; cbn; tauto. Qed.
Lemma in_crs x : In x crs. Proof. destruct x; cbn; tauto. Qed.
Lemma in_ahs x : In x ahs. Proof. destruct x; cbn; tauto. Qed.
Lemma in_fps x : In x fps. Proof. destruct x; cbn; tauto. Qed.
Lemma in_ctxs x : In x ctxs. Proof. destruct x; cbn; tauto. Qed.
Lemma in_trusts x : In x trusts. Proof. destruct x; cbn; tauto. Qed.
Lemma in_issuers x : In x issuers. Proof. destruct x; cbn; tauto. Qed.

(* f holds at every point: 2 backends x direct / TLS in TLS x 4 x 3 x 4 x 4 x 4 settings x 3 x 2 x 2 peers = 36 864 points *)
Definition lattice_ok (f : backend -> bool -> settings -> peer -> bool) : bool :=
  forallb (fun b => forallb (fun t => forallb (fun cr => forallb (fun ah => forallb (fun fp => forallb (fun cx => forallb (fun tr =>
  forallb (fun iss => forallb (fun sni => forallb (fun asn =>
    f b t (mkSettings cr ah fp cx tr) (mkPeer iss sni asn)) bools) bools) issuers) trusts) ctxs) fps) ahs) crs) bools) backends.

Lemma lattice_ok_spec f : lattice_ok f = true -> forall b t s p, f b t s p = true.
Proof.
  intros H b t [cr ah fp cx tr] [iss sni asn]. unfold lattice_ok in H.
  rewrite forallb_forall in H. specialize (H b (in_backends b)). cbn beta in H.
  rewrite forallb_forall in H. specialize (H t (in_bools t)). cbn beta in H.
  rewrite forallb_forall in H. specialize (H cr (in_crs cr)). cbn beta in H.
  rewrite forallb_forall in H. specialize (H ah (in_ahs ah)). cbn beta in H.
  rewrite forallb_forall in H. specialize (H fp (in_fps fp)). cbn beta in H.
  rewrite forallb_forall in H. specialize (H cx (in_ctxs cx)). cbn beta in H.
  rewrite forallb_forall in H. specialize (H tr (in_trusts tr)). cbn beta in H.
  rewrite forallb_forall in H. specialize (H iss (in_issuers iss)). cbn beta in H.
  rewrite forallb_forall in H. specialize (H sni (in_bools sni)). cbn beta in H.
  rewrite forallb_forall in H. specialize (H asn (in_bools asn)). exact H.
Qed.

Definition verified_rule (s : settings) : bool :=
  is_required (resolve (s_cert_reqs s)) || negb (match s_fingerprint s with FPUnset => true | _ => false end).

Definition handshake_fact (b : backend) (t : bool) (s : settings) (p : peer) : bool :=
  match wrap b t s p with
  | WOk v => demandedb b s p && Bool.eqb v (verified_rule s)
  | _ => true
  end.

Lemma handshake_facts : lattice_ok handshake_fact = true.
Proof. vm_compute. reflexivity. Qed.

(* one handshake passes only if the peer passed what its settings demand *)
Lemma wrap_demanded : forall b t s p v, wrap b t s p = WOk v -> demanded b s p.
Proof.
  intros b t s p v H. pose proof (lattice_ok_spec _ handshake_facts b t s p) as F. unfold handshake_fact in F. rewrite H in F.
  apply andb_true_iff in F as [F _]. exact (demandedb_spec _ _ _ F).
Qed.

Lemma wrap_verified : forall b t s p v, wrap b t s p = WOk v ->
  v = (is_required (resolve (s_cert_reqs s)) || negb (match s_fingerprint s with FPUnset => true | _ => false end)).
Proof.
  intros b t s p v H. pose proof (lattice_ok_spec _ handshake_facts b t s p) as F. unfold handshake_fact in F. rewrite H in F.
  apply andb_true_iff in F as [_ F]. apply Bool.eqb_prop in F. exact F.
Qed.

(* not one byte of the request is written unless the server passed the checks the settings demand - and, through an
   https proxy, the proxy passed its own *)
Theorem sent_only_if_verified_as_configured : forall b s p r v w, connect b s p r = Sent v w ->
  demanded b s p /\ match r with TunnelHttps x xp => demanded b (proxy_tls s x) xp | _ => True end.
Proof.
  intros b s p r v w H. destruct r as [| |x xp]; unfold connect in H.
  - destruct (wrap b false s p) eqn:W; try discriminate. split; [exact (wrap_demanded _ _ _ _ _ W)|exact I].
  - destruct (wrap b false s p) eqn:W; try discriminate. split; [exact (wrap_demanded _ _ _ _ _ W)|exact I].
  - destruct (wrap b false (proxy_tls s x) xp) eqn:X; try discriminate. destruct (wrap b true s p) eqn:W; try discriminate.
    split; [exact (wrap_demanded _ _ _ _ _ W)|exact (wrap_demanded _ _ _ _ _ X)].
Qed.
Print Assumptions sent_only_if_verified_as_configured.

(* nor is the CONNECT written to an https proxy that did not pass its checks *)
Theorem tunnel_only_through_a_verified_proxy : forall b s p x xp,
  match connect b s p (TunnelHttps x xp) with
  | Sent _ _ | Refused true | Misconfigured true => demanded b (proxy_tls s x) xp
  | _ => True
  end.
Proof.
  intros b s p x xp. unfold connect. destruct (wrap b false (proxy_tls s x) xp) eqn:X; try exact I.
  pose proof (wrap_demanded _ _ _ _ _ X) as D. destruct (wrap b true s p); exact D.
Qed.
Print Assumptions tunnel_only_through_a_verified_proxy.

(* by default (no cert_reqs, no assert_hostname, no fingerprint, no context; stdlib backend) that is: a valid chain and a
   name the TLS library matched; with pyOpenSSL: a valid chain and a name urllib3 matched *)
Theorem default_is_chain_and_name : forall b p r v w tr, let s := mkSettings CRDefault AHUnset FPUnset CtxNone tr in
  connect b s p r = Sent v w ->
  p_chain_ok b s p = true /\ match b with BStd => p_sni_name_ok p = true | BPyOpenSSL => p_assert_name_ok p = true end.
Proof.
  intros b p r v w tr s H.
  assert (W : exists t v', wrap b t s p = WOk v').
  { destruct r as [| |x xp]; unfold connect in H.
    - destruct (wrap b false s p) eqn:W; try discriminate. eauto.
    - destruct (wrap b false s p) eqn:W; try discriminate. eauto.
    - destruct (wrap b false (proxy_tls s x) xp); try discriminate. destruct (wrap b true s p) eqn:W; try discriminate. eauto. }
  destruct W as (t & v' & W). subst s. destruct p as [iss sni asn]. revert W. unfold wrap, p_chain_ok, anchored; cbn.
  destruct b, t, tr, iss, sni, asn; cbn; intros W; try discriminate; auto.
Qed.
Print Assumptions default_is_chain_and_name.

(* a connection made without certificate validation - cert_reqs other than REQUIRED and no pinned fingerprint - is never
   reported as verified; one made with REQUIRED, or pinned, is *)
Theorem unvalidated_is_never_verified : forall b s p r v w, connect b s p r = Sent v w ->
  v = (is_required (resolve (s_cert_reqs s)) || negb (match s_fingerprint s with FPUnset => true | _ => false end)).
Proof.
  intros b s p r v w H. destruct r as [| |x xp]; unfold connect in H.
  - destruct (wrap b false s p) eqn:W; try discriminate. inversion H; subst. exact (wrap_verified _ _ _ _ _ W).
  - destruct (wrap b false s p) eqn:W; try discriminate. inversion H; subst. exact (wrap_verified _ _ _ _ _ W).
  - destruct (wrap b false (proxy_tls s x) xp); try discriminate. destruct (wrap b true s p) eqn:W; try discriminate.
    inversion H; subst. exact (wrap_verified _ _ _ _ _ W).
Qed.
Print Assumptions unvalidated_is_never_verified.

(* ... and it warns: always on a direct connection and through an http proxy; through an https proxy as long as the
   proxy's own certificate is not pinned *)
Theorem unvalidated_warns : forall b s p r v w, connect b s p r = Sent v w ->
  match r with TunnelHttps x _ => x_fingerprint x = FPUnset | _ => True end ->
  w = negb v.
Proof.
  intros b s p r v w H Hx. destruct r as [| |x xp]; unfold connect in H.
  - destruct (wrap b false s p) eqn:W; try discriminate. inversion H; reflexivity.
  - destruct (wrap b false s p) eqn:W; try discriminate. inversion H; subst. destruct v; reflexivity.
  - destruct (wrap b false (proxy_tls s x) xp) as [xv| |] eqn:X; try discriminate. destruct (wrap b true s p) as [ov| |] eqn:W; try discriminate.
    inversion H; subst. pose proof (wrap_verified _ _ _ _ _ W) as Hv. pose proof (wrap_verified _ _ _ _ _ X) as Hxv.
    unfold proxy_tls in Hxv; cbn [s_cert_reqs s_fingerprint] in Hxv. rewrite Hx in Hxv. subst v xv.
    destruct (is_required (resolve (s_cert_reqs s))), (s_fingerprint s); reflexivity.
Qed.
Print Assumptions unvalidated_warns.

(* the full statement - an unvalidated connection always warns - is false of the faithful model: with the proxy's
   certificate pinned, proxy_is_verified hides the unverified origin from _validate_conn (known finding C07-F1) *)
Theorem unvalidated_always_warns_refuted : exists b s p r, connect b s p r = Sent false false.
Proof.
  exists BStd, (mkSettings CRNone AHUnset FPUnset CtxNone TFile), (mkPeer IUnknown false false),
    (TunnelHttps (mkProxy AHUnset FPRight CtxNone) (mkPeer IUnknown false false)). reflexivity.
Qed.
Print Assumptions unvalidated_always_warns_refuted.

(* a configured CA (file, directory or in-memory data) is the only anchor: while certificates are validated and no
   fingerprint is pinned, nothing is sent to a server whose certificate was issued by anyone else - the system store
   included; and the system store counts only when no CA is configured, the context is urllib3's own and the backend
   the stdlib's *)
Theorem configured_ca_is_the_only_anchor : forall b s p r v w,
  connect b s p r = Sent v w -> s_fingerprint s = FPUnset -> resolve (s_cert_reqs s) <> VNone ->
  match s_trust s with
  | TNothing => p_issuer p = ISystem /\ s_context s = CtxNone /\ b = BStd
  | _ => p_issuer p = IConfigured
  end.
Proof.
  intros b s p r v w H Hfp Hv. destruct (sent_only_if_verified_as_configured b s p r v w H) as [D _]. unfold demanded in D. rewrite Hfp in D.
  destruct (resolve (s_cert_reqs s)) eqn:Hr; try (exfalso; apply Hv; reflexivity);
    destruct D as [Hc _]; unfold p_chain_ok, anchored in Hc;
    destruct (s_trust s), (p_issuer p), (s_context s), b; cbn in Hc; try discriminate; auto.
Qed.
Print Assumptions configured_ca_is_the_only_anchor.

(* when the server does not pass, the outcome is a refusal (SSLError) or a ValueError and the request is not written: the
   only constructor that writes it is Sent *)
Theorem failing_peer_is_refused : forall b s p r, ~ demanded b s p ->
  exists t, connect b s p r = Refused t \/ connect b s p r = Misconfigured t.
Proof.
  intros b s p r Hn. destruct (connect b s p r) as [v w|t|t] eqn:H; [|exists t; left; reflexivity|exists t; right; reflexivity].
  exfalso. apply Hn. exact (proj1 (sent_only_if_verified_as_configured b s p r v w H)).
Qed.
Print Assumptions failing_peer_is_refused.

(* non-vacuity: the lattice really contains accepted, refused and misconfigured points on every route *)
Example points :
  connect BStd (mkSettings CRDefault AHUnset FPUnset CtxNone TFile) (mkPeer IConfigured true true) Direct = Sent true false /\
  connect BStd (mkSettings CRDefault AHUnset FPUnset CtxNone TNothing) (mkPeer ISystem true true) Direct = Sent true false /\
  connect BPyOpenSSL (mkSettings CRDefault AHUnset FPUnset CtxNone TNothing) (mkPeer ISystem true true) Direct = Refused false /\
  connect BPyOpenSSL (mkSettings CRDefault AHUnset FPUnset CtxNone TFile) (mkPeer IConfigured false true) Direct = Sent true false /\
  connect BStd (mkSettings CRDefault AHUnset FPUnset CtxNone TData) (mkPeer ISystem true true) Direct = Refused false /\
  connect BStd (mkSettings CRNone AHUnset FPUnset CtxNone TFile) (mkPeer IUnknown false false) TunnelHttp = Sent false true /\
  connect BStd (mkSettings CRNone AHUnset FPRight CtxNone TFile) (mkPeer IUnknown false false) Direct = Sent true false /\
  connect BStd (mkSettings CRDefault AHUnset FPUnset CtxNone TFile) (mkPeer IConfigured false true) TunnelHttp = Refused true /\
  connect BStd (mkSettings CROptional AHFalse FPUnset CtxNotChecking TFile) (mkPeer IUnknown true true) Direct = Refused false /\
  connect BStd (mkSettings CRNone AHUnset FPUnset CtxChecking TFile) (mkPeer IConfigured true true) Direct = Misconfigured false /\
  connect BStd (mkSettings CRDefault AHUnset FPUnset CtxNone TFile) (mkPeer IConfigured true true)
    (TunnelHttps (mkProxy AHUnset FPUnset CtxNone) (mkPeer IConfigured true true)) = Sent true false /\
  connect BStd (mkSettings CRDefault AHUnset FPUnset CtxNone TFile) (mkPeer IConfigured true true)
    (TunnelHttps (mkProxy AHUnset FPUnset CtxNone) (mkPeer IUnknown true true)) = Refused false /\
  connect BPyOpenSSL (mkSettings CRDefault AHUnset FPUnset CtxNone TFile) (mkPeer IConfigured true true)
    (TunnelHttps (mkProxy AHUnset FPUnset CtxChecking) (mkPeer IConfigured true true)) = Misconfigured true.
Proof. repeat split; reflexivity. Qed.
