(* C07 — an HTTPS request is sent only over a connection verified as configured.
   Statements only: for every combination of cert_reqs, assert_hostname, assert_fingerprint, ssl_context and every
   peer (chain valid or not, names matching or not). *)
From Coq Require Import List Bool.
From V Require Import model.TlsVerify gen.Gen_Verify.
Import ListNotations.

(* the decisions are still written in the source the way the model transcribes them *)
Theorem source_facts :
  Gen_Verify.verify_mode_follows_cert_reqs = Some true /\ Gen_Verify.own_check_condition = Some true /\
  Gen_Verify.post_handshake_checks = Some true /\ Gen_Verify.default_context_rule = Some true /\
  Gen_Verify.no_cert_reqs_means_required = Some true /\ Gen_Verify.warning_rule = Some true /\
  Gen_Verify.system_store_only_without_ca = Some true.
Proof. repeat split; reflexivity. Qed.
Print Assumptions source_facts.

(* what the settings demand of the peer *)
Definition demanded (s : settings) (p : peer) : Prop :=
  match s_fingerprint s with
  | FPRight => True                                  (* the pinned certificate is the one presented *)
  | FPWrong | FPBadLength => False
  | FPUnset =>
      match resolve (s_cert_reqs s) with
      | VNone => True                                (* nothing is demanded (and the connection is not called verified) *)
      | _ =>
          p_chain_ok s p = true /\
          match s_assert_hostname s with
          | AHFalse => True
          | AHName => p_assert_name_ok p = true
          | AHUnset => (* the TLS library checks the server name, or urllib3 does when the context does not *)
                       p_sni_name_ok p = true \/ p_assert_name_ok p = true
          end
      end
  end.

(* not one byte of the request is written unless the peer passed the checks the settings demand *)
Theorem sent_only_if_verified_as_configured : forall s p v w, connect s p = Sent v w -> demanded s p.
Proof.
  intros [cr ah fp cx tr] [iss sni asn] v w; unfold connect, demanded, p_chain_ok, anchored;
    cbn [s_cert_reqs s_assert_hostname s_fingerprint s_context s_trust p_issuer p_sni_name_ok p_assert_name_ok].
  destruct (negb (no_ca tr)) eqn:Ha, (no_ca tr && own_context cx) eqn:Hb; destruct cr, ah, fp, cx, iss, sni, asn; cbn; intros H; try discriminate; auto.
Qed.
Print Assumptions sent_only_if_verified_as_configured.

(* by default (no cert_reqs, no assert_hostname, no fingerprint, no context) that is: a valid chain and a matching name *)
Theorem default_is_chain_and_name : forall p v w,
  forall tr, let s := mkSettings CRDefault AHUnset FPUnset CtxNone tr in
  connect s p = Sent v w -> p_chain_ok s p = true /\ p_sni_name_ok p = true.
Proof. intros [iss sni asn] v w tr; unfold connect, p_chain_ok, anchored; cbn. destruct tr, iss, sni, asn; cbn; intros H; try discriminate; auto. Qed.
Print Assumptions default_is_chain_and_name.

(* a connection made without certificate validation - cert_reqs other than REQUIRED and no pinned fingerprint - is never
   reported as verified and always warns; one made with REQUIRED, or pinned, is reported verified *)
Theorem unvalidated_is_never_verified : forall s p v w, connect s p = Sent v w ->
  v = (is_required (resolve (s_cert_reqs s)) || negb (match s_fingerprint s with FPUnset => true | _ => false end)) /\ w = negb v.
Proof.
  intros [cr ah fp cx tr] [iss sni asn] v w; unfold connect, p_chain_ok, anchored;
    cbn [s_cert_reqs s_assert_hostname s_fingerprint s_context s_trust p_issuer p_sni_name_ok p_assert_name_ok].
  destruct (negb (no_ca tr)) eqn:Ha, (no_ca tr && own_context cx) eqn:Hb; destruct cr, ah, fp, cx, iss, sni, asn; cbn; intros H; try discriminate; inversion H; subst; split; reflexivity.
Qed.
Print Assumptions unvalidated_is_never_verified.

(* a configured CA (file, directory or in-memory data) is the only anchor: while certificates are validated and no
   fingerprint is pinned, nothing is sent to a server whose certificate was issued by anyone else - the system store
   included; and the system store counts only when no CA is configured and the context is urllib3's own *)
Theorem configured_ca_is_the_only_anchor : forall s p v w,
  connect s p = Sent v w -> s_fingerprint s = FPUnset -> resolve (s_cert_reqs s) <> VNone ->
  match s_trust s with
  | TNothing => p_issuer p = ISystem /\ s_context s = CtxNone
  | _ => p_issuer p = IConfigured
  end.
Proof.
  intros s p v w H Hfp Hv. pose proof (sent_only_if_verified_as_configured s p v w H) as D. unfold demanded in D. rewrite Hfp in D.
  destruct (resolve (s_cert_reqs s)) eqn:Hr; try (exfalso; apply Hv; reflexivity);
    destruct D as [Hc _]; unfold p_chain_ok, anchored in Hc;
    destruct (s_trust s), (p_issuer p), (s_context s); cbn in Hc; try discriminate; auto.
Qed.
Print Assumptions configured_ca_is_the_only_anchor.

(* when the peer does not pass, the outcome is a refusal (SSLError) - or the ssl module's own ValueError for CERT_NONE on
   a context that checks host names - and nothing is written: the only constructor that writes is Sent *)
Theorem failing_peer_is_refused : forall s p, ~ demanded s p -> connect s p = Refused \/ connect s p = Misconfigured.
Proof.
  intros s p Hn. destruct (connect s p) as [v w| |] eqn:H; [|left; reflexivity|right; reflexivity].
  exfalso. apply Hn. exact (sent_only_if_verified_as_configured s p v w H).
Qed.
Print Assumptions failing_peer_is_refused.

(* non-vacuity: the lattice really contains accepted, refused and misconfigured points *)
Example points :
  connect (mkSettings CRDefault AHUnset FPUnset CtxNone TFile) (mkPeer IConfigured true true) = Sent true false /\
  connect (mkSettings CRDefault AHUnset FPUnset CtxNone TNothing) (mkPeer ISystem true true) = Sent true false /\
  connect (mkSettings CRDefault AHUnset FPUnset CtxNone TData) (mkPeer ISystem true true) = Refused /\
  connect (mkSettings CRNone AHUnset FPUnset CtxNone TFile) (mkPeer IUnknown false false) = Sent false true /\
  connect (mkSettings CRNone AHUnset FPRight CtxNone TFile) (mkPeer IUnknown false false) = Sent true false /\
  connect (mkSettings CRDefault AHUnset FPUnset CtxNone TFile) (mkPeer IConfigured false true) = Refused /\
  connect (mkSettings CROptional AHFalse FPUnset CtxNotChecking TFile) (mkPeer IUnknown true true) = Refused /\
  connect (mkSettings CRNone AHUnset FPUnset CtxChecking TFile) (mkPeer IConfigured true true) = Misconfigured.
Proof. repeat split; reflexivity. Qed.
