(* C07 — an HTTPS request is sent only over a connection verified as configured.
   Statements only: for every combination of cert_reqs, assert_hostname, assert_fingerprint, ssl_context and every
   peer (chain valid or not, names matching or not). *)
From Coq Require Import List Bool.
From V Require Import model.TlsVerify gen.Gen_Verify.
Import ListNotations.

(* the decisions are still written in the source the way the model transcribes them *)
Theorem source_facts :
  Gen_Verify.verify_mode_follows_cert_reqs = Some true /\ Gen_Verify.own_check_condition = Some true /\
  Gen_Verify.post_handshake_checks = Some true /\ Gen_Verify.default_context_rule = Some true /\
  Gen_Verify.no_cert_reqs_means_required = Some true /\ Gen_Verify.warning_rule = Some true.
Proof. repeat split; reflexivity. Qed.
Print Assumptions source_facts.

(* what the settings demand of the peer *)
Definition demanded (s : settings) (p : peer) : Prop :=
  match s_fingerprint s with
  | FPRight => True                                  (* the pinned certificate is the one presented *)
  | FPWrong | FPBadLength => False
  | FPUnset =>
      match resolve (s_cert_reqs s) with
      | VNone => True                                (* nothing is demanded (and the connection is not called verified) *)
      | _ =>
          p_chain_ok p = true /\
          match s_assert_hostname s with
          | AHFalse => True
          | AHName => p_assert_name_ok p = true
          | AHUnset => (* the TLS library checks the server name, or urllib3 does when the context does not *)
                       p_sni_name_ok p = true \/ p_assert_name_ok p = true
          end
      end
  end.

(* not one byte of the request is written unless the peer passed the checks the settings demand *)
Theorem sent_only_if_verified_as_configured : forall s p v w, connect s p = Sent v w -> demanded s p.
Proof.
  intros [cr ah fp cx] [chain sni asn] v w; unfold connect, demanded; cbn [s_cert_reqs s_assert_hostname s_fingerprint s_context p_chain_ok p_sni_name_ok p_assert_name_ok].
  destruct cr, ah, fp, cx, chain, sni, asn; cbn; intros H; try discriminate; auto.
Qed.
Print Assumptions sent_only_if_verified_as_configured.

(* by default (no cert_reqs, no assert_hostname, no fingerprint, no context) that is: a valid chain and a matching name *)
Theorem default_is_chain_and_name : forall p v w,
  connect (mkSettings CRDefault AHUnset FPUnset CtxNone) p = Sent v w -> p_chain_ok p = true /\ p_sni_name_ok p = true.
Proof. intros [chain sni asn] v w; unfold connect; cbn. destruct chain, sni, asn; cbn; intros H; try discriminate; auto. Qed.
Print Assumptions default_is_chain_and_name.

(* a connection made without certificate validation - cert_reqs other than REQUIRED and no pinned fingerprint - is never
   reported as verified and always warns; one made with REQUIRED, or pinned, is reported verified *)
Theorem unvalidated_is_never_verified : forall s p v w, connect s p = Sent v w ->
  v = (is_required (resolve (s_cert_reqs s)) || negb (match s_fingerprint s with FPUnset => true | _ => false end)) /\ w = negb v.
Proof.
  intros [cr ah fp cx] [chain sni asn] v w; unfold connect; cbn [s_cert_reqs s_assert_hostname s_fingerprint s_context p_chain_ok p_sni_name_ok p_assert_name_ok].
  destruct cr, ah, fp, cx, chain, sni, asn; cbn; intros H; try discriminate; inversion H; subst; split; reflexivity.
Qed.
Print Assumptions unvalidated_is_never_verified.

(* when the peer does not pass, the outcome is a refusal (SSLError) - or the ssl module's own ValueError for CERT_NONE on
   a context that checks host names - and nothing is written: the only constructor that writes is Sent *)
Theorem failing_peer_is_refused : forall s p, ~ demanded s p -> connect s p = Refused \/ connect s p = Misconfigured.
Proof.
  intros s p Hn. destruct (connect s p) as [v w| |] eqn:H; [|left; reflexivity|right; reflexivity].
  exfalso. apply Hn. exact (sent_only_if_verified_as_configured s p v w H).
Qed.
Print Assumptions failing_peer_is_refused.

(* non-vacuity: the lattice really contains accepted, refused and misconfigured points *)
Example points :
  connect (mkSettings CRDefault AHUnset FPUnset CtxNone) (mkPeer true true true) = Sent true false /\
  connect (mkSettings CRNone AHUnset FPUnset CtxNone) (mkPeer false false false) = Sent false true /\
  connect (mkSettings CRNone AHUnset FPRight CtxNone) (mkPeer false false false) = Sent true false /\
  connect (mkSettings CRDefault AHUnset FPUnset CtxNone) (mkPeer true false true) = Refused /\
  connect (mkSettings CROptional AHFalse FPUnset CtxNotChecking) (mkPeer false true true) = Refused /\
  connect (mkSettings CRNone AHUnset FPUnset CtxChecking) (mkPeer true true true) = Misconfigured.
Proof. repeat split; reflexivity. Qed.
