(* C09 — proxied traffic follows the documented routing and never leaks outside it.
   Statements only: for every configuration (proxy scheme, destination scheme, forwarding option, certificates good or
   bad, retries), every script of CONNECT answers, every pattern of the server closing connections, any number of requests. *)
From Coq Require Import List Arith Bool.
From V Require Import model.ProxyRoute proofs.ProxyRoute_proofs gen.Gen_Proxy corr.Run_C09.
Import ListNotations.

(* the routing decision regenerated from util/proxy.py on this run is the model's; a forwarded request applies the checks
   configured for the proxy (proxy_assert_hostname / proxy_assert_fingerprint) to its TLS peer, the proxy *)
Theorem routing_table_is_the_model's :
  match Gen_Proxy.tunnel_table with
  | Some t => forallb (fun r => let '(ps, ds, fw, tun) := r in
                                Bool.eqb (tunnel_required (mkCfg ps ds fw true true None)) tun) t = true /\ length t = 8
  | None => False
  end /\ Gen_Proxy.proxy_reached_after_tunnel = Some true /\ Gen_Proxy.forwarded_uses_proxy_checks = Some true.
Proof. vm_compute. repeat split. Qed.
Print Assumptions routing_table_is_the_model's.

(* every message ever written:
   - proxy headers are never inside a tunnel;
   - with an https proxy nothing is written unless the proxy's certificate verified;
   - an https destination without the forwarding opt-in: only CONNECTs (outside the origin's TLS, without the caller's
     headers) and origin-form requests inside the tunnel, one TLS layer deeper, and only if the origin's certificate verified;
   - otherwise: only absolute-form requests addressed to the proxy;
   in the order written, every tunnelled request comes after a CONNECT on its own connection (a connection that was
   closed is tunnelled again before it carries a request); a request message is written only for a request that
   ends normally (refused CONNECT, bad certificates: nothing is sent, the outcome is ProxyError / SSLError, possibly
   inside MaxRetryError - the only constructors of `outcome` besides Ok) *)
Theorem proxy_routing : forall c close_after connects n,
  let '(ms, os) := ProxyRoute.run c connects close_after n in
  Forall (good_msg c) ms /\ connect_before [] ms /\ requests_in ms = oks os /\ length os = n.
Proof. intros. apply run_properties. Qed.
Print Assumptions proxy_routing.

(* spelled out for one field: no proxy header inside a tunnel, whatever happens *)
Theorem proxy_headers_never_in_tunnel : forall c close_after connects n m,
  In m (fst (ProxyRoute.run c connects close_after n)) -> m_tunnelled m = true -> m_proxy_headers m = false.
Proof.
  intros c close_after connects n m Hin Ht. pose proof (run_properties c close_after connects n) as H.
  destruct (ProxyRoute.run c connects close_after n) as [ms os]. destruct H as (Hg & _). cbn [fst] in Hin.
  rewrite Forall_forall in Hg. exact (proj1 (Hg m Hin) Ht).
Qed.
Print Assumptions proxy_headers_never_in_tunnel.

(* non-vacuity: a tunnel refused once (403), then granted; the server closes after the first response; an https proxy *)
Example refused_then_granted :
  let '(ms, os) := ProxyRoute.run (mkCfg true true false true true None) [403; 200; 200] [true; false] 3 in
  (map (fun m => (m_conn m, m_layers m, m_kind m)) ms, os) =
  ([(0, 1, KConnect); (1, 1, KConnect); (1, 2, KOrigin 1); (2, 1, KConnect); (2, 2, KOrigin 2)],
   [ProxyErr false false; Ok; Ok]).
Proof. vm_compute. reflexivity. Qed.
