(* Model of urllib3._collections.RecentlyUsedContainer (OrderedDict = list,
   oldest first) and of PoolManager.connection_from_pool_key / clear.
   Every operation returns the values handed to dispose_func, in call order;
   they are disposed AFTER the critical section (see the small-step model
   LruConc below for the lock). *)
From Coq Require Import List NArith Bool Arith.
Import ListNotations.
Local Open Scope N_scope.

Definition key := N.
Definition val := N.
Definition cont := list (key * val).

Fixpoint c_find (k : key) (c : cont) : option val :=
  match c with
  | [] => None
  | (k', v) :: r => if k =? k' then Some v else c_find k r
  end.

Fixpoint c_remove (k : key) (c : cont) : cont :=
  match c with
  | [] => []
  | (k', v) :: r => if k =? k' then r else (k', v) :: c_remove k r
  end.

Inductive op :=
| Get (k : key)                (* __getitem__ *)
| Set_ (k : key) (v : val)     (* __setitem__ *)
| Del (k : key)                (* __delitem__ *)
| Len
| Clear
| Keys
| MGet (k : key)               (* Mapping.get(k): try self[k] except KeyError: None *)
| Contains (k : key)           (* Mapping.__contains__: try self[k] *)
| Pop (k : key)                (* MutableMapping.pop(k): v = self[k]; del self[k] *)
| SetDefault (k : key) (v : val)
| GetOrCreate (k : key) (fresh : val).  (* PoolManager.connection_from_pool_key: get, else create+set; one critical section *)

Inductive res :=
| RNone | RVal (v : val) | RKeyError | RLen (n : nat) | RKeys (ks : list key) | RBool (b : bool).

(* __getitem__: item = pop(key); container[key] = item *)
Definition getitem (k : key) (c : cont) : option (val * cont) :=
  match c_find k c with
  | Some v => Some (v, c_remove k c ++ [(k, v)])
  | None => None
  end.

(* __setitem__ ; returns new container and the evicted value if any *)
Definition setitem (maxsize : nat) (k : key) (v : val) (c : cont) : cont * list val :=
  match c_find k c with
  | Some old => (c_remove k c ++ [(k, v)], [old])
  | None =>
      let c' := c ++ [(k, v)] in
      if (maxsize <? length c')%nat then
        match c' with
        | (_, ev) :: r => (r, [ev])            (* popitem(last=False) *)
        | [] => (c', [])
        end
      else (c', [])
  end.

Definition delitem (k : key) (c : cont) : option (cont * list val) :=
  match c_find k c with
  | Some v => Some (c_remove k c, [v])
  | None => None
  end.

(* one operation = one critical section: new container, result, values to dispose afterwards *)
Definition step (maxsize : nat) (c : cont) (p : op) : cont * res * list val :=
  match p with
  | Get k => match getitem k c with Some (v, c') => (c', RVal v, []) | None => (c, RKeyError, []) end
  | Set_ k v => let '(c', d) := setitem maxsize k v c in (c', RNone, d)
  | Del k => match delitem k c with Some (c', d) => (c', RNone, d) | None => (c, RKeyError, []) end
  | Len => (c, RLen (length c), [])
  | Clear => ([], RNone, map snd c)
  | Keys => (c, RKeys (map fst c), [])
  | MGet k => match getitem k c with Some (v, c') => (c', RVal v, []) | None => (c, RNone, []) end
  | Contains k => match getitem k c with Some (_, c') => (c', RBool true, []) | None => (c, RBool false, []) end
  | Pop k =>
      match getitem k c with
      | Some (v, c') =>
          match delitem k c' with
          | Some (c'', d) => (c'', RVal v, d)
          | None => (c', RKeyError, [])
          end
      | None => (c, RKeyError, [])
      end
  | SetDefault k v =>
      match getitem k c with
      | Some (x, c') => (c', RVal x, [])
      | None => let '(c', d) := setitem maxsize k v c in (c', RVal v, d)
      end
  | GetOrCreate k fresh =>
      match getitem k c with
      | Some (v, c') => (c', RVal v, [])
      | None => let '(c', d) := setitem maxsize k fresh c in (c', RVal fresh, d)
      end
  end.

(* run: final container, results, all disposed values in order *)
Fixpoint run (maxsize : nat) (ops : list op) (c : cont) : cont * list res * list val :=
  match ops with
  | [] => (c, [], [])
  | p :: r =>
      let '(c', x, d) := step maxsize c p in
      let '(c'', xs, ds) := run maxsize r c' in
      (c'', x :: xs, d ++ ds)
  end.

(* values ever stored by an operation sequence (the inputs of Set_ / created ones) *)
Definition stored_by (c : cont) (p : op) : list val :=
  match p with
  | Set_ _ v => [v]
  | SetDefault k v | GetOrCreate k v => match c_find k c with Some _ => [] | None => [v] end
  | _ => []
  end.
Fixpoint all_stored (maxsize : nat) (ops : list op) (c : cont) : list val :=
  match ops with
  | [] => []
  | p :: r => stored_by c p ++ all_stored maxsize r (fst (fst (step maxsize c p)))
  end.
