(* C02: threads sharing one connection pool, under every interleaving.

   Modelled code: connectionpool.py _get_conn, _new_conn, _put_conn, close, _close_pool_connections and the part of
   urlopen between them, cut into atomic steps at every access to shared state: each read of self.pool, each operation
   on the queue object (queue.LifoQueue is taken as atomic and as specified), and one point in the middle of using
   the connection.  A schedule is a list of thread numbers; a thread that cannot run (blocked in get on an empty queue)
   is skipped. *)
From Coq Require Import List Arith Bool.
Import ListNotations.

Inductive op := Request | RequestFail | Close | RequestRetry.
(* RequestFail: the attempt fails on the wire (retries=False): the connection is closed, its slot returned.
   RequestRetry: a streamed request whose first attempt is answered by a status the Retry policy retries: the response is
   drained, which gives the connection back (_put_conn), and urlopen starts over with _get_conn *)

(* where a thread stands: about to execute ... *)
Inductive pc :=
| PStart
| PGetCheck        (* _get_conn: `if self.pool is None` *)
| PGetRead         (* `self.pool` of self.pool.get(...) *)
| PGet             (* queue.get(block, timeout) *)
| PUse (c : nat)   (* the request is on the wire on connection c *)
| PPutCheck (oc : option nat)   (* _put_conn(conn or None): `if self.pool is not None` *)
| PPutRead (oc : option nat)    (* `self.pool` of self.pool.put(...) *)
| PPut (oc : option nat)        (* queue.put(conn, block=False) *)
| PWarn            (* the full-queue warning reads self.pool.qsize() *)
| PCloseCheck      (* close(): `if self.pool is None` *)
| PCloseSwap       (* old_pool, self.pool = self.pool, None *)
| PDrain           (* _close_pool_connections: old_pool.get(block=False) ... *)
| PIdle.           (* nothing left to do *)

(* outcomes: 0 ended normally, 1 ClosedPoolError, 2 FullPoolError, 3 AttributeError (an internal error), 4 close() returned,
   5 the attempt failed on the wire (a urllib3 error of the request itself) *)
Record thread := mkThread { t_ops : list op; t_pc : pc; t_fail : bool; t_outs : list nat }.

Record state := mkState {
  s_q : list (option nat);     (* the queue object: free slots (None) and idle connections, top first *)
  s_closed : bool;             (* self.pool is None *)
  s_threads : list thread;
  s_open : list nat;           (* connections created and not closed *)
  s_next : nat;                (* connections created so far *)
  s_max_open : nat             (* the most connections that were open at once *)
}.

Definition idle_thread : thread := mkThread [] PIdle false [].
Definition get_thread (st : state) (t : nat) : thread := nth t (s_threads st) idle_thread.
Definition set_thread (st : state) (t : nat) (th : thread) : list thread :=
  firstn t (s_threads st) ++ th :: skipn (S t) (s_threads st).
Definition remove_nat (x : nat) (l : list nat) : list nat := filter (fun y => negb (Nat.eqb x y)) l.
Definition close_opt (op : list nat) (oc : option nat) : list nat := match oc with Some c => remove_nat c op | None => op end.

(* the current operation is over with outcome o *)
Definition finish (th : thread) (o : nat) : thread :=
  match tl (t_ops th) with
  | [] => mkThread [] PIdle false (t_outs th ++ [o])
  | rest => mkThread rest PStart false (t_outs th ++ [o])
  end.
Definition at_pc (th : thread) (p : pc) : thread := mkThread (t_ops th) p (t_fail th) (t_outs th).
(* an attempt is over and its connection dealt with: the operation is over, or (RequestRetry) the second attempt begins *)
Definition complete (th : thread) : thread :=
  match t_ops th with
  | RequestRetry :: rest => mkThread (Request :: rest) PGetCheck false (t_outs th)
  | _ => finish th (if t_fail th then 5 else 0)
  end.

(* can thread t take a step? (only a get on an empty queue of a blocking pool cannot) *)
Definition runnable (block : bool) (st : state) (t : nat) : bool :=
  match t_pc (get_thread st t) with
  | PIdle => false
  | PGet => negb (block && match s_q st with [] => true | _ => false end)
  | _ => true
  end.

(* one step of thread t (assumed runnable); warn_safe: the full-queue warning copes with self.pool being None (source fact) *)
Definition step (warn_safe : bool) (maxsize : nat) (block : bool) (st : state) (t : nat) : state :=
  let th := get_thread st t in
  let upd th' := mkState (s_q st) (s_closed st) (set_thread st t th') (s_open st) (s_next st) (s_max_open st) in
  let upd_open th' op := mkState (s_q st) (s_closed st) (set_thread st t th') op (s_next st) (s_max_open st) in
  match t_pc th with
  | PStart =>
      match t_ops th with
      | Request :: _ => upd (mkThread (t_ops th) PGetCheck false (t_outs th))
      | RequestFail :: _ => upd (mkThread (t_ops th) PGetCheck true (t_outs th))
      | RequestRetry :: _ => upd (mkThread (t_ops th) PGetCheck false (t_outs th))
      | Close :: _ => upd (at_pc th PCloseCheck)
      | [] => upd (at_pc th PIdle)
      end
  | PGetCheck => upd (if s_closed st then finish th 1 else at_pc th PGetRead)
  | PGetRead => upd (if s_closed st then finish th 1 else at_pc th PGet)
  | PGet =>
      match s_q st with
      | Some c :: q => mkState q (s_closed st) (set_thread st t (at_pc th (PUse c))) (s_open st) (s_next st) (s_max_open st)
      | _ =>      (* a free slot, or (non-blocking pool) queue.Empty: a new connection *)
          let c := s_next st in
          let op := c :: s_open st in
          mkState (tl (s_q st)) (s_closed st) (set_thread st t (at_pc th (PUse c))) op (S c) (Nat.max (s_max_open st) (length op))
      end
  | PUse c =>
      if t_fail th then upd_open (at_pc th (PPutCheck None)) (remove_nat c (s_open st))
      else upd (at_pc th (PPutCheck (Some c)))
  | PPutCheck oc =>
      if s_closed st then upd_open (complete th) (close_opt (s_open st) oc)
      else upd (at_pc th (PPutRead oc))
  | PPutRead oc =>
      if s_closed st then upd_open (complete th) (close_opt (s_open st) oc)
      else upd (at_pc th (PPut oc))
  | PPut oc =>
      if Nat.ltb (length (s_q st)) maxsize
      then mkState (oc :: s_q st) (s_closed st) (set_thread st t (complete th)) (s_open st) (s_next st) (s_max_open st)
      else upd_open (if block then finish th 2 else at_pc th PWarn) (close_opt (s_open st) oc)
  | PWarn => upd (if s_closed st && negb warn_safe then finish th 3 else complete th)
  | PCloseCheck => upd (if s_closed st then finish th 4 else at_pc th PCloseSwap)
  | PCloseSwap => mkState (s_q st) true (set_thread st t (at_pc th PDrain)) (s_open st) (s_next st) (s_max_open st)
  | PDrain =>
      match s_q st with
      | oc :: q => mkState q (s_closed st) (s_threads st) (close_opt (s_open st) oc) (s_next st) (s_max_open st)
      | [] => upd (finish th 4)
      end
  | PIdle => st
  end.

(* the next thread to run: the first runnable one named by the schedule, else the lowest-numbered runnable one *)
Fixpoint pick (block : bool) (st : state) (sched : list nat) : option (nat * list nat) :=
  match sched with
  | t :: rest => if runnable block st t then Some (t, rest) else pick block st rest
  | [] => None
  end.
Fixpoint first_runnable (block : bool) (st : state) (n t : nat) : option nat :=
  match n with
  | O => None
  | S n' => if runnable block st t then Some t else first_runnable block st n' (S t)
  end.

(* run until nobody can move (fuel bounds the number of steps) *)
Fixpoint run (warn_safe : bool) (fuel : nat) (maxsize : nat) (block : bool) (st : state) (sched : list nat) : state :=
  match fuel with
  | O => st
  | S f =>
      match pick block st sched with
      | Some (t, rest) => run warn_safe f maxsize block (step warn_safe maxsize block st t) rest
      | None =>
          match first_runnable block st (length (s_threads st)) 0 with
          | Some t => run warn_safe f maxsize block (step warn_safe maxsize block st t) []
          | None => st
          end
      end
  end.

Definition init (maxsize : nat) (progs : list (list op)) : state :=
  mkState (repeat None maxsize) false (map (fun ops => mkThread ops PStart false []) progs) [] 0 0.
