(* C15: from a URL to what goes on the wire.

   Modelled code: PoolManager.connection_from_url / connection_from_host / _new_pool, HTTPConnectionPool.__init__
   (_normalize_host, _proxy_host), _new_conn / _prepare_proxy (set_tunnel), HTTPConnection.host, the request target chosen
   by urlopen (origin-form: Url.request_uri; absolute-form: Url.url without userinfo and fragment), ProxyManager's
   Host header for forwarded requests, the server name normalisation of _ssl_wrap_socket_and_match_hostname, and below
   urllib3: http.client's Host header construction (Python 3.12). *)
From Coq Require Import String List NArith Arith Bool.
From V Require Import lib.PyStr model.Url.
Import ListNotations.
Local Open Scope N_scope.

Definition HTTP : str := str_of_string "http".
Definition HTTPS : str := str_of_string "https".
Definition default_port (scheme : str) : N := if str_eqb scheme HTTPS then 443 else 80.

Definition strip_brackets (h : str) : str :=
  match h with
  | c :: r => if (c =? LBR) && (match rev r with l :: _ => l =? RBR | [] => false end) then removelast r else h
  | [] => []
  end.

Fixpoint rstrip_dots_rev (r : str) : str := match r with c :: t => if c =? DOT then rstrip_dots_rev t else r | [] => [] end.
Definition rstrip_dots (h : str) : str := rev (rstrip_dots_rev (rev h)).

Definition has_colon (h : str) : bool := existsb (fun c => c =? COLON) h.

(* http.client._strip_ipv6_iface on a bracketed name: drop "%zone" *)
Definition strip_iface (h : str) : str :=
  let '(a, z) := span (fun c => negb (c =? PCT)) h in
  match z with [] => h | _ => a ++ [RBR] end.

(* the Host header http.client writes for (host, port) on a connection whose default port is dp *)
Definition host_header (host : str) (port dp : N) : str :=
  let h := if has_colon host then strip_iface ([LBR] ++ host ++ [RBR]) else host in
  if port =? dp then h else h ++ [COLON] ++ str_of_N port.

(* server_hostname as handed to ssl_wrap_socket *)
Definition rfind_pct_prefix (h : str) : str :=
  (* normalized[: normalized.rfind("%")] *)
  let r := rev h in
  let '(_, rest) := span (fun c => negb (c =? PCT)) r in
  match rest with _ :: before => rev before | [] => h end.
Definition strip_both_brackets (h : str) : str :=       (* str.strip("[]") *)
  let f := fix go (l : str) := match l with c :: r => if (c =? LBR) || (c =? RBR) then go r else l | [] => [] end in
  rev (f (rev (f h))).
Definition is_ip (h : str) : bool := is_ipv4 h || is_ipv6 h.
Definition server_name (h : str) : str :=
  let nodot := rstrip_dots h in
  let n0 := strip_both_brackets nodot in
  let n1 := if existsb (fun c => c =? PCT) n0 then rfind_pct_prefix n0 else n0 in
  if is_ip n1 then n1 else nodot.

Record wire := mkWire {
  w_dns : str; w_port : N;               (* where the TCP connection goes *)
  w_sni : option str;                    (* server name offered in the TLS handshake to the origin *)
  w_line : str;                          (* request line *)
  w_host : str;                          (* Host header value *)
  w_connect : option str                 (* CONNECT request line, when a tunnel is made *)
}.

Definition SP : str := [32].
Definition GETs : str := str_of_string "GET".
Definition V11 : str := str_of_string "HTTP/1.1".
Definition CONNECTs : str := str_of_string "CONNECT".

Section Wire.
Variable idna_encode : str -> option str.
Variable absolute_target_clean : bool.     (* source fact: the absolute-form target is built without userinfo and fragment *)

Definition PROXY_HOST : str := str_of_string "proxy.example".
Definition PROXY_PORT : N := 3128.

(* the effective port: `if not port` also replaces port 0 *)
Definition port_eff (sch : str) (p : option N) : N :=
  match p with Some 0 => default_port sch | Some n => n | None => default_port sch end.

Definition netloc (u : url) : str :=
  (* Url.netloc: `if self.port` - a port 0 is left out *)
  (match host u with Some h => h | None => [] end) ++
  (match Url.port u with Some 0 => [] | Some p => COLON :: str_of_N p | None => [] end).

(* None: the manager refuses the URL (no host, scheme other than http/https) *)
Definition wire_of (via_proxy : bool) (u : url) : option wire :=
  match scheme u, host u with
  | Some sch, Some ((_ :: _) as h) =>
      if negb (str_eqb sch HTTP || str_eqb sch HTTPS) then None else
      match normalize_host idna_encode (Some h) (Some sch) with
      | Some (Some nh) =>
          let ph := strip_brackets nh in                      (* the pool's / connection's host *)
          let prt := port_eff sch (Url.port u) in
          let dp := default_port sch in
          let https := str_eqb sch HTTPS in
          let origin_line := GETs ++ SP ++ request_uri u ++ SP ++ V11 in
          if negb via_proxy then
            Some (mkWire ph prt (if https then Some (server_name ph) else None) origin_line
                         (host_header (rstrip_dots ph) prt dp) None)
          else if https then
            (* a CONNECT tunnel to the pool's host as given (lower-cased), then as for a direct connection, but http.client
               names the tunnel host in the Host header *)
            let th := ascii_lower h in
            Some (mkWire PROXY_HOST PROXY_PORT (Some (server_name th)) origin_line
                         (host_header th prt 443)
                         (Some (CONNECTs ++ SP ++ th ++ [COLON] ++ str_of_N prt ++ SP ++ V11)))
          else
            let u' := if absolute_target_clean then mkUrl (scheme u) None (host u) (Url.port u) (path u) (query u) None else u in
            Some (mkWire PROXY_HOST PROXY_PORT None (GETs ++ SP ++ url_string u' ++ SP ++ V11) (netloc u) None)
      | _ => None
      end
  | _, _ => None
  end.

(* same pool? (scheme, host, effective port) *)
Definition pool_key (u : url) : option (str * str * N) :=
  match scheme u, host u with
  | Some sch, Some h => Some (sch, ascii_lower h, port_eff sch (port u))
  | _, _ => None
  end.
End Wire.
