(* Model of urllib3.fields.format_multipart_header_param / RequestField
   (from_tuples, make_multipart, _render_parts, render_headers) and
   urllib3.filepost.encode_multipart_formdata, over bytes, plus an independent
   strict multipart/form-data parser (WHATWG reading of quoted parameters: the
   value ends at the first double quote; a backslash is an ordinary character). *)
From Coq Require Import String List NArith Bool.
From V Require Import lib.PyStr lib.Utf8.
Import ListNotations.
Local Open Scope N_scope.

Definition bytes := list N.
Definition CR : N := 13.
Definition LF : N := 10.
Definition QUOTE : N := 34.
Definition CRLF : bytes := [13; 10].
Definition DASHDASH : bytes := [45; 45].

(* value.translate: LF, CR and the double quote are percent-encoded *)
Definition esc_cp (c : N) : str :=
  if c =? 10 then S!"%0A" else if c =? 13 then S!"%0D" else if c =? 34 then S!"%22" else [c].
Definition escape (s : str) : str := flat_map esc_cp s.

(* name=<quote>value<quote> *)
Definition render_param (pname : str) (value : str) : str :=
  pname ++ S!"=""" ++ escape value ++ S!"""".

Inductive data := DStr (s : str) | DBytes (b : bytes).

(* a field after from_tuples / make_multipart *)
Record field := mkF {
  f_name : str;
  f_filename : option str;
  f_ctype : option str;        (* Content-Type header value (None or empty: omitted) *)
  f_data : data
}.

Definition content_disposition (f : field) : str :=
  S!"form-data" ++ S!"; " ++ render_param (S!"name") (f_name f) ++
  match f_filename f with
  | Some fn => S!"; " ++ render_param (S!"filename") fn
  | None => []
  end.

Definition truthy (o : option str) : option str :=
  match o with Some ((_ :: _) as s) => Some s | _ => None end.

(* render_headers for the three sort_keys (Content-Location is never set here) *)
Definition render_headers (f : field) : str :=
  S!"Content-Disposition: " ++ content_disposition f ++ [13; 10] ++
  match truthy (f_ctype f) with
  | Some ct => S!"Content-Type: " ++ ct ++ [13; 10]
  | None => []
  end ++ [13; 10].

Definition data_bytes (d : data) : option bytes :=
  match d with DStr s => utf8 s | DBytes b => Some b end.

Definition encode_part (bb : bytes) (f : field) : option bytes :=
  match utf8 (render_headers f), data_bytes (f_data f) with
  | Some h, Some d => Some (DASHDASH ++ bb ++ CRLF ++ h ++ d ++ CRLF)
  | _, _ => None
  end.

Fixpoint encode_parts (bb : bytes) (fs : list field) : option bytes :=
  match fs with
  | [] => Some []
  | f :: r => match encode_part bb f, encode_parts bb r with
              | Some a, Some b => Some (a ++ b)
              | _, _ => None
              end
  end.

(* encode_multipart_formdata: None = UnicodeEncodeError *)
Definition encode (bb : bytes) (fs : list field) : option bytes :=
  match encode_parts bb fs with
  | Some b => Some (b ++ DASHDASH ++ bb ++ DASHDASH ++ CRLF)
  | None => None
  end.

Definition content_type_header (boundary : str) : str := S!"multipart/form-data; boundary=" ++ boundary.

(* ------------------------------------------------------------------ *)
(* the strict reference parser *)

Fixpoint strip_prefix (p s : bytes) : option bytes :=
  match p, s with
  | [], _ => Some s
  | x :: p', y :: s' => if x =? y then strip_prefix p' s' else None
  | _ :: _, [] => None
  end.

(* first occurrence of p in s: (before, after) *)
Fixpoint find_sub (p s : bytes) : option (bytes * bytes) :=
  match strip_prefix p s with
  | Some rest => Some ([], rest)
  | None =>
      match s with
      | [] => None
      | c :: r => match find_sub p r with
                  | Some (a, b) => Some (c :: a, b)
                  | None => None
                  end
      end
  end.

Definition L_CD : bytes := S!"Content-Disposition: ".
Definition L_CT : bytes := S!"Content-Type: ".
Definition L_FD : bytes := S!"form-data; name=""".
Definition L_FN : bytes := S!"; filename=""".

(* name=<q>...<q>[; filename=<q>...<q>] after the form-data prefix; a quoted value ends at the first double quote *)
Definition parse_quoted (s : bytes) : option (bytes * bytes) := find_sub [QUOTE] s.

Definition parse_cd (v : bytes) : option (bytes * option bytes) :=
  match strip_prefix L_FD v with
  | None => None
  | Some r =>
      match parse_quoted r with
      | None => None
      | Some (name, r2) =>
          match r2 with
          | [] => Some (name, None)
          | _ =>
              match strip_prefix L_FN r2 with
              | None => None
              | Some r3 =>
                  match parse_quoted r3 with
                  | Some (fn, []) => Some (name, Some fn)
                  | _ => None
                  end
              end
          end
      end
  end.

Record part := mkP { p_name : bytes; p_filename : option bytes; p_ctype : option bytes; p_data : bytes }.

(* header block: Content-Disposition line, optional Content-Type line, empty line *)
Definition parse_headers (s : bytes) : option (bytes * option bytes * option bytes * bytes) :=
  match find_sub CRLF s with
  | None => None
  | Some (l1, r1) =>
      match strip_prefix L_CD l1 with
      | None => None
      | Some cdv =>
          match parse_cd cdv with
          | None => None
          | Some (name, fn) =>
              match find_sub CRLF r1 with
              | None => None
              | Some ([], r2) => Some (name, fn, None, r2)
              | Some (l2, r2) =>
                  match strip_prefix L_CT l2 with
                  | None => None
                  | Some ct =>
                      match strip_prefix CRLF r2 with
                      | Some r3 => Some (name, fn, Some ct, r3)
                      | None => None
                      end
                  end
              end
          end
      end
  end.

(* `rest` follows a delimiter (two dashes and the boundary) *)
Fixpoint parse_after_delim (fuel : nat) (bb rest : bytes) : option (list part) :=
  match fuel with
  | O => None
  | S f =>
      if str_eqb rest (DASHDASH ++ CRLF) then Some []
      else
        match strip_prefix CRLF rest with
        | None => None
        | Some r1 =>
            match parse_headers r1 with
            | None => None
            | Some (name, fn, ct, r2) =>
                match find_sub (CRLF ++ DASHDASH ++ bb) r2 with
                | None => None
                | Some (d, r3) =>
                    match parse_after_delim f bb r3 with
                    | Some ps => Some (mkP name fn ct d :: ps)
                    | None => None
                    end
                end
            end
        end
  end.

Definition parse_strict (bb body : bytes) : option (list part) :=
  match strip_prefix (DASHDASH ++ bb) body with
  | Some rest => parse_after_delim (S (length body)) bb rest
  | None => None
  end.

(* what the parser must return for a field *)
Definition expected_part (f : field) : option part :=
  match utf8 (escape (f_name f)),
        match f_filename f with Some fn => option_map Some (utf8 (escape fn)) | None => Some None end,
        match truthy (f_ctype f) with Some ct => option_map Some (utf8 ct) | None => Some None end,
        data_bytes (f_data f) with
  | Some n, Some fn, Some ct, Some d => Some (mkP n fn ct d)
  | _, _, _, _ => None
  end.
