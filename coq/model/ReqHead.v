(* C10: the head of an HTTP/1.1 request as HTTPConnection.request writes it, and as a server reads it.

   Modelled code: connection.py HTTPConnection.request (header_keys, skip_host / skip_accept_encoding, default
   User-Agent, the header loop), putrequest (the method check), putheader (SKIP_HEADER); below it http.client
   (Python 3.12): putrequest (_validate_method, _validate_path, ASCII request line, Host and Accept-Encoding lines),
   putheader (_is_legal_header_name, _is_illegal_header_value, latin-1 values), the buffered output joined by CRLF.
   Strings are lists of code points, the wire is a list of bytes. *)
From Coq Require Import String List NArith Bool.
From V Require Import lib.PyStr.
Import ListNotations.
Local Open Scope N_scope.

Definition CR : N := 13.
Definition LF : N := 10.
Definition SPc : N := 32.
Definition HT : N := 9.
Definition COLONc : N := 58.
Definition CRLF : list N := [CR; LF].

(* urllib3: _CONTAINS_CONTROL_CHAR_RE = [^-!#$%&'*+.^_`|~0-9a-zA-Z] *)
Definition token_char (c : N) : bool :=
  ((48 <=? c) && (c <=? 57)) || ((65 <=? c) && (c <=? 90)) || ((97 <=? c) && (c <=? 122)) ||
  existsb (N.eqb c) [45; 33; 35; 36; 37; 38; 39; 42; 43; 46; 94; 95; 96; 124; 126].
Definition method_ok (m : str) : bool := forallb token_char m.

(* http.client: _contains_disallowed_url_pchar_re = [\x00-\x20\x7f] *)
Definition path_ok (u : str) : bool := forallb (fun c => negb ((c <=? 32) || (c =? 127))) u.
Definition ascii (s : str) : bool := forallb (fun c => c <? 128) s.
Definition latin1 (s : str) : bool := forallb (fun c => c <? 256) s.

(* bytes \s *)
Definition is_ws (c : N) : bool := (c =? 32) || ((9 <=? c) && (c <=? 13)).
Definition is_spht (c : N) : bool := (c =? SPc) || (c =? HT).

(* _is_legal_header_name = [^:\s][^:\r\n]* (fullmatch) *)
Definition legal_name (n : list N) : bool :=
  match n with
  | [] => false
  | c :: r => negb (c =? COLONc) && negb (is_ws c) && forallb (fun c => negb ((c =? COLONc) || (c =? CR) || (c =? LF))) r
  end.

(* _is_illegal_header_value = \n(?![ \t])|\r(?![ \t\n]) (search) *)
Fixpoint illegal_value (v : list N) : bool :=
  match v with
  | [] => false
  | c :: r =>
      (if c =? LF then match r with d :: _ => negb (is_spht d) | [] => true end
       else if c =? CR then match r with d :: _ => negb (is_spht d || (d =? LF)) | [] => true end
       else false) || illegal_value r
  end.

Inductive err :=
| EMethod          (* ValueError: method cannot contain non-token characters *)
| EUrl             (* http.client.InvalidURL *)
| EAscii           (* UnicodeEncodeError: request line or header name not ASCII, header value not latin-1 *)
| EName            (* ValueError: invalid header name *)
| EValue           (* ValueError: invalid header value *)
| ESkip.           (* ValueError: SKIP_HEADER on a header that cannot be skipped *)

Definition SKIP : str := str_of_string "@@@SKIP_HEADER@@@".
Definition skippable (n : str) : bool :=
  mem_str (ascii_lower n) (map str_of_string ["accept-encoding"; "host"; "user-agent"]%string).

Definition line (name value : list N) : list N := name ++ [COLONc; SPc] ++ value.

(* the lines of the caller's headers, in order; the first problem met stops everything *)
Fixpoint header_lines (hs : list (str * str)) : list (list N * list N) + err :=
  match hs with
  | [] => inl []
  | (n, v) :: r =>
      if str_eqb v SKIP then
        (if skippable n then header_lines r else inr ESkip)
      else if negb (ascii n) then inr EAscii
      else if negb (legal_name n) then inr EName
      else if negb (latin1 v) then inr EAscii
      else if illegal_value v then inr EValue
      else match header_lines r with inl ls => inl ((n, v) :: ls) | inr e => inr e end
  end.

Definition has_key (k : string) (hs : list (str * str)) : bool :=
  existsb (fun nv => str_eqb (ascii_lower (fst nv)) (str_of_string k)) hs.

Definition HOST : list N := str_of_string "Host".
Definition AE : list N := str_of_string "Accept-Encoding".
Definition IDENTITY : list N := str_of_string "identity".
Definition UA : list N := str_of_string "User-Agent".
Definition V11 : list N := str_of_string "HTTP/1.1".

(* everything HTTPConnection.request(method, url, headers=hs) writes for a body-less request on a connection whose
   automatic Host value is `host` and whose default User-Agent is `ua`; or the error raised before anything is written *)
Definition CL : list N := str_of_string "Content-Length".
Definition request_head (nbm : list str) (host ua : list N) (method url : str) (hs : list (str * str)) : list N + err :=
  if negb (method_ok method) then inr EMethod
  else
    let url' := match url with [] => [47] | _ => url end in
    if negb (path_ok url') then inr EUrl
    else if negb (ascii (method ++ [SPc] ++ url')) then inr EAscii
    else
      let auto :=
        (if has_key "host" hs then [] else [(HOST, host)]) ++
        (if has_key "accept-encoding" hs then [] else [(AE, IDENTITY)]) ++
        (* no body: methods that usually carry one get Content-Length: 0 (C11); nbm = _METHODS_NOT_EXPECTING_BODY *)
        (if mem_str (ascii_upper method) nbm then [] else [(CL, [48])]) ++
        (if has_key "user-agent" hs then [] else [(UA, ua)]) in
      match header_lines hs with
      | inr e => inr e
      | inl ls =>
          inl ((method ++ [SPc] ++ url' ++ [SPc] ++ V11) ++ CRLF ++
               concat (map (fun nv => line (fst nv) (snd nv) ++ CRLF) (auto ++ ls)) ++ CRLF)
      end.

(* ---------- the receiver ---------- *)
(* one logical line: up to a CRLF that is not followed by SP / HT (obs-fold keeps the line going) *)
Fixpoint take_line (w : list N) : option (list N * list N) :=
  match w with
  | [] => None
  | c :: r =>
      if (c =? CR) && (match r with d :: _ => d =? LF | [] => false end) then
        match r with
        | _ :: e :: r' => if is_spht e then match take_line r with Some (l, rest) => Some (c :: l, rest) | None => None end
                          else Some ([], tl r)
        | _ => Some ([], tl r)
        end
      else match take_line r with Some (l, rest) => Some (c :: l, rest) | None => None end
  end.

Fixpoint split_at (d : N) (l : list N) : option (list N * list N) :=
  match l with
  | [] => None
  | c :: r => if c =? d then Some ([], r) else match split_at d r with Some (a, b) => Some (c :: a, b) | None => None end
  end.

(* header lines until the empty line; fuel = number of bytes *)
Fixpoint read_headers (fuel : nat) (w : list N) : option (list (list N * list N) * list N) :=
  match fuel with
  | O => None
  | S f =>
      match take_line w with
      | None => None
      | Some ([], rest) => Some ([], rest)
      | Some (l, rest) =>
          match split_at COLONc l with
          | Some (name, SPv) =>
              match SPv with
              | s :: value =>
                  if s =? SPc then
                    match read_headers f rest with
                    | Some (hs, body) => Some ((name, value) :: hs, body)
                    | None => None
                    end
                  else None
              | [] => None
              end
          | None => None
          end
      end
  end.

(* the request as a server reads it: method, target, header fields in order, and what follows the head *)
Definition read_request (w : list N) : option (list N * list N * list (list N * list N) * list N) :=
  match take_line w with
  | Some (l, rest) =>
      match split_at SPc l with
      | Some (method, r1) =>
          match split_at SPc r1 with
          | Some (target, version) =>
              if str_eqb version V11 then
                match read_headers (S (length rest)) rest with
                | Some (hs, body) => Some (method, target, hs, body)
                | None => None
                end
              else None
          | None => None
          end
      | None => None
      end
  | None => None
  end.
