(* Specification for C16: the simplest reference multimap — a flat list of
   header lines (name, value).  Names compare through `lower`; assignment
   replaces the group in place of its first line, add appends to the group,
   delete removes the group. *)
From Coq Require Import List NArith Bool.
From V Require Import lib.PyStr model.HeaderDict.
Import ListNotations.

Section Spec.
Variable lower : str -> str.

Definition line := (str * str)%type.
Definition lines := list line.

Definition same (k : str) (l : line) : bool := str_eqb (lower k) (lower (fst l)).
Definition sp_has (k : str) (ls : lines) : bool := existsb (same k) ls.
Definition sp_values (k : str) (ls : lines) : list str := map snd (filter (same k) ls).
Definition sp_get (k : str) (ls : lines) : option str :=
  if sp_has k ls then Some (join [44; 32]%N (sp_values k ls)) else None.
Definition sp_del (k : str) (ls : lines) : lines := filter (fun l => negb (same k l)) ls.

Fixpoint sp_set (k v : str) (ls : lines) : lines :=
  match ls with
  | [] => [(k, v)]
  | l :: r => if same k l then (k, v) :: sp_del k r else l :: sp_set k v r
  end.

(* add: a new line carrying the group's name right after the group's last
   line (or, with combine, the value glued onto that last line) *)
Fixpoint sp_add (k v : str) (combine : bool) (ls : lines) : lines :=
  match ls with
  | [] => [(k, v)]
  | l :: r =>
      if same k l && negb (sp_has k r)
      then (if combine then [(fst l, snd l ++ [44; 32]%N ++ v)] else [l; (fst l, v)]) ++ r
      else l :: sp_add k v combine r
  end.

(* group leaders in order of first appearance *)
Fixpoint sp_names_go (seen : list str) (ls : lines) : list str :=
  match ls with
  | [] => []
  | l :: r =>
      if mem_str (lower (fst l)) seen then sp_names_go seen r
      else fst l :: sp_names_go (lower (fst l) :: seen) r
  end.
Definition sp_names (ls : lines) : list str := sp_names_go [] ls.

Definition sp_len (ls : lines) : nat := length (sp_names ls).


Definition sp_merged (ls : lines) : list (str * str) :=
  map (fun n => (n, match sp_get n ls with Some v => v | None => [] end)) (sp_names ls).

Definition sp_add_all (l : lines) (ls : lines) : lines :=
  fold_left (fun ls kv => sp_add (fst kv) (snd kv) false ls) l ls.
Definition sp_set_all (l : lines) (ls : lines) : lines :=
  fold_left (fun ls kv => sp_set (fst kv) (snd kv) ls) l ls.

Definition sp_eq (a b : lines) : bool :=
  let da := dict_of_pairs (map (fun kv => (lower (fst kv), snd kv)) (sp_merged a)) in
  let db := dict_of_pairs (map (fun kv => (lower (fst kv), snd kv)) (sp_merged b)) in
  pd_sub da db && pd_sub db da.

(* ---- the specification's step on a store of line lists ---- *)
Definition sstore := list lines.
Fixpoint set_nth {A} (st : list A) (o : nat) (d : A) : list A :=
  match st, o with
  | [], _ => []
  | _ :: r, O => d :: r
  | x :: r, S o' => x :: set_nth r o' d
  end.

Definition sp_src_lines (st : sstore) (s : src) : lines :=
  match s with
  | SrcPairs l => l
  | SrcDict l => dict_of_pairs l
  | SrcHD o => nth o st []
  end.
Definition sp_src_items (st : sstore) (s : src) : lines :=
  match s with
  | SrcHD o => sp_merged (nth o st [])
  | _ => sp_src_lines st s
  end.
Definition sp_construct (st : sstore) (s : src) : lines :=
  match s with
  | SrcHD o => nth o st []                       (* a copy *)
  | _ => sp_add_all (sp_src_lines st s) []
  end.

Definition sp_step (st : sstore) (p : op) : sstore * res :=
  let g o := nth o st [] in
  match p with
  | OSet o k v => (set_nth st o (sp_set k v (g o)), RNone)
  | ODel o k =>
      if sp_has k (g o) then (set_nth st o (sp_del k (g o)), RNone) else (st, RKeyError)
  | OAdd o k v c => (set_nth st o (sp_add k v c (g o)), RNone)
  | OExtend o s | OIor o s => (set_nth st o (sp_add_all (sp_src_lines st s) (g o)), RNone)
  | OUpdate o s => (set_nth st o (sp_set_all (sp_src_items st s) (g o)), RNone)
  | OSetDefault o k v =>
      match sp_get k (g o) with
      | Some x => (st, RStr x)
      | None => (set_nth st o (sp_set k v (g o)), RStr v)
      end
  | OPop o k dflt =>
      match sp_get k (g o) with
      | Some x => (set_nth st o (sp_del k (g o)), RStr x)
      | None => match dflt with Some x => (st, RStr x) | None => (st, RKeyError) end
      end
  | OPopItem o =>
      match sp_names (g o) with
      | [] => (st, RKeyError)
      | n :: _ =>
          (set_nth st o (sp_del n (g o)),
           RPair n (match sp_get n (g o) with Some v => v | None => [] end))
      end
  | ODiscard o k => (set_nth st o (sp_del k (g o)), RNone)
  | OClear o => (set_nth st o [], RNone)
  | OCopy o => (st ++ [g o], RNew (length st))
  | ONew s => (st ++ [sp_construct st s], RNew (length st))
  | OOr o s => (st ++ [sp_add_all (sp_src_lines st s) (g o)], RNew (length st))
  | ORor o s => (st ++ [sp_add_all (g o) (sp_construct st s)], RNew (length st))
  | OPrepare o =>
      (set_nth st o (fold_left (fun ls h => sp_del h ls) content_specific_headers (g o)), RNone)
  end.

Fixpoint sp_run (ops : list op) (st : sstore) : sstore * list res :=
  match ops with
  | [] => (st, [])
  | p :: r => let '(st', x) := sp_step st p in
              let '(st'', xs) := sp_run r st' in (st'', x :: xs)
  end.

End Spec.
