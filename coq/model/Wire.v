(* C03: what a pooled keep-alive connection delivers.

   A socket is a queue of inbound items the peer has written and the client has not consumed.
   Every item carries the tag of the request the server was answering when it wrote it (or a stray tag).
   The client side is tag-blind: getresponse parses whatever is at the head of the queue, the body readers consume
   whatever comes next.  The theorems show that, with the checkout test of _get_conn (is_connection_dropped) and
   http.client's response state, the tags delivered for request i are all i.

   Modelled code: HTTPConnectionPool.urlopen/_get_conn/_put_conn (connectionpool.py), is_connection_dropped
   (util/connection.py), HTTPResponse.read/stream/drain_conn/release_conn/close/_error_catcher/_raw_read (response.py),
   http.client's getresponse state check (ResponseNotReady) and buffered body reads. *)
From Coq Require Import List Arith Bool.
Import ListNotations.

Inductive framing := FLen | FEof | FChunked.
Inductive stray := SNone | SSame | SSepResp | SSepJunk
| SLate.    (* no stray at all: the rest of the body itself is late - it arrives only when the next request does *)

Record reply := mkReply {
  k_kind : nat;            (* 0 a response, 1 junk instead of a status line, 2 EOF instead of a reply *)
  k_status : nat;
  k_framing : framing;
  k_n : nat;               (* declared body length *)
  k_first : nat;           (* body bytes in the segment that holds the headers *)
  k_sent : nat;            (* body bytes sent in all; < n: the server stops early and closes *)
  k_keep : bool;
  k_stray : stray;
  k_eof_after : bool       (* the server closes after a reply it declared keep-alive *)
}.

Inductive item :=
| IResp (tag : nat) (r : reply)     (* status line + headers + the first body bytes *)
| IData (tag : nat) (cnt : nat)     (* further bytes *)
| IJunk (tag : nat)
| IEof
| IHold.                            (* what follows has not arrived yet: it does when the next request is written to this socket *)

Definition stray_tag (i : nat) : nat := 100 + i.

Definition bodyless (head : bool) (r : reply) : bool :=
  head || Nat.eqb (k_status r) 204 || Nat.eqb (k_status r) 304.

(* what the scripted server really does with a reply description (mirrors norm_reply in tools/harness/c03.py) *)
Definition norm (head : bool) (r : reply) : reply :=
  if bodyless head r then
    mkReply 0 (k_status r) FLen (if head && negb (Nat.eqb (k_status r) 204 || Nat.eqb (k_status r) 304) then k_n r else 0)
            0 0 (k_keep r) (k_stray r) (k_eof_after r)
  else match k_framing r with
       | FEof => mkReply 0 (k_status r) FEof (k_n r) (Nat.min (k_first r) (k_n r)) (k_n r) false SNone (k_eof_after r)
       | f => mkReply 0 (k_status r) f (k_n r) (Nat.min (k_first r) (Nat.min (k_sent r) (k_n r))) (Nat.min (k_sent r) (k_n r)) (k_keep r)
                      (if Nat.ltb (k_sent r) (k_n r) then (match k_stray r with SLate => SLate | _ => SNone end) else k_stray r)
                      (k_eof_after r)
       end.

Definition stray_reply : reply := mkReply 0 200 FLen 3 3 3 true SNone false.
(* the late rest of a body reads like a response of its own (followed by a few more bytes) to a client that lost track of the framing *)
Definition late_reply : reply := mkReply 0 200 FLen 3 3 3 true SNone false.
Definition is_late (r : reply) (bl complete : bool) : bool :=
  negb bl && negb complete &&
  match k_stray r, k_framing r with SLate, FLen => true | SLate, FChunked => true | _, _ => false end.

(* the items the server writes when it receives request i *)
Definition serve (i : nat) (head : bool) (r0 : reply) : list item :=
  match k_kind r0 with
  | 1 => [IJunk (stray_tag i)]
  | 2 => [IEof]
  | _ =>
      let r := norm head r0 in
      let bl := bodyless head r0 in
      let complete := bl || Nat.eqb (k_sent r) (k_n r) in
      [IResp i r]
      ++ (if Nat.ltb (k_first r) (k_sent r) then [IData i (k_sent r - k_first r)] else [])
      ++ (if complete then match k_stray r with
                           | SSepResp => [IResp (stray_tag i) stray_reply]
                           | SSepJunk => [IJunk (stray_tag i)]
                           | _ => []               (* same-segment strays sit in the reader's buffer and die with it *)
                           end else [])
      ++ (if is_late r bl complete then [IHold; IResp i late_reply; IJunk i]      (* k_sent counts what is sent at once *)
          else if negb (k_keep r) || negb complete || k_eof_after r || (match k_framing r with FEof => true | _ => false end)
          then [IEof] else [])
  end.

(* ---------- the client ---------- *)
Record state := mkSt {
  s_q : list (option (nat * bool));      (* idle slots, next to be handed out first; Some (socket, dirty) *)
  s_evs : list (nat * list item);        (* inbound queue of every open socket (first match wins) *)
  s_nsid : nat;                          (* sockets opened so far *)
  s_script : list reply
}.

Definition init (M : nat) (script : list reply) : state := mkSt (repeat None M) [] 0 script.

Fixpoint evs_of (evs : list (nat * list item)) (s : nat) : list item :=
  match evs with [] => [] | (k, v) :: r => if Nat.eqb k s then v else evs_of r s end.
Definition set_evs (st : state) (s : nat) (v : list item) : state :=
  mkSt (s_q st) ((s, v) :: s_evs st) (s_nsid st) (s_script st).
Definition close_sock (st : state) (s : nat) : state :=
  mkSt (s_q st) (filter (fun kv => negb (Nat.eqb (fst kv) s)) (s_evs st)) (s_nsid st) (s_script st).
Definition set_q (st : state) (q : list (option (nat * bool))) : state :=
  mkSt q (s_evs st) (s_nsid st) (s_script st).

(* _get_conn: an idle connection whose socket is readable (bytes or EOF pending) is closed; it reconnects *)
Definition checkout (st : state) : state * option (nat * bool) :=
  match s_q st with
  | [] => (st, None)
  | None :: q => (set_q st q, None)
  | Some (s, d) :: q =>
      match evs_of (s_evs st) s with
      | [] | IHold :: _ => (set_q st q, Some (s, d))          (* nothing has arrived: the socket is not readable *)
      | _ => (close_sock (set_q st q) s, None)
      end
  end.

(* the next request reaches the server: what it held back is on its way now *)
Fixpoint unhold (l : list item) : list item :=
  match l with [] => [] | IHold :: r => r | x :: r => x :: unhold r end.

Definition open_sock (st : state) : state * nat :=
  (mkSt (s_q st) ((s_nsid st, []) :: s_evs st) (S (s_nsid st)) (s_script st), s_nsid st).

(* _put_conn (M = maxsize): a full queue discards the connection *)
Definition put (M : nat) (st : state) (slot : option (nat * bool)) : state :=
  if Nat.ltb (length (s_q st)) M then set_q st (slot :: s_q st)
  else match slot with Some (s, _) => close_sock st s | None => st end.

(* ---------- body readers (tag-blind) ---------- *)
(* buffered reads: items are pulled whole while fewer than `need` bytes are at hand; EOF stays pending *)
Fixpoint pull (need have : nat) (items : list item) : list (nat * nat) * nat * list item * bool :=
  if Nat.leb need have then ([], have, items, false) else
  match items with
  | [] => ([], have, [], true)
  | IEof :: _ => ([], have, items, true)
  | IHold :: _ => ([], have, items, true)          (* the read times out *)
  | IData t c :: more =>
      let '(ch, h, it, e) := pull need (have + c) more in ((t, Nat.min c (need - have)) :: ch, h, it, e)
  | IResp t _ :: more =>        (* a reader that meets a foreign message consumes its bytes as body *)
      let '(ch, h, it, e) := pull need (have + 1) more in ((t, 1) :: ch, h, it, e)
  | IJunk t :: more =>
      let '(ch, h, it, e) := pull need (have + 1) more in ((t, 1) :: ch, h, it, e)
  end.

(* read until EOF *)
Fixpoint pull_eof (items : list item) : list (nat * nat) * list item :=
  match items with
  | [] => ([], [])
  | IEof :: _ => ([], items)
  | IHold :: _ => ([], items)
  | IData t c :: more => let '(ch, it) := pull_eof more in ((t, c) :: ch, it)
  | IResp t _ :: more => let '(ch, it) := pull_eof more in ((t, 1) :: ch, it)
  | IJunk t :: more => let '(ch, it) := pull_eof more in ((t, 1) :: ch, it)
  end.

(* the first k bytes of a list of runs *)
Fixpoint take_bytes (k : nat) (ch : list (nat * nat)) : list (nat * nat) :=
  match ch with
  | [] => []
  | (t, c) :: r => if Nat.leb k c then [(t, k)] else (t, c) :: take_bytes (k - c) r
  end.

Inductive caller := CReadAll | CReadK (k : nat) | CRelease | CKeep | CDrain | CClose | CStream (amt : nat)
| CRead1 (k : nat).    (* one read1(k), then the response is dropped *)

(* what happens to the connection afterwards *)
Inductive after :=
| APut (rest : list item) (dirty : bool)   (* goes back to the pool with its socket open and these items pending *)
| AClosedPut                               (* socket closed, an empty slot goes back *)
| ALost.                                   (* socket closed, nothing goes back (close() alone) *)

Definition fin (keep : bool) (rest : list item) : after := if keep then APut rest false else AClosedPut.

(* reading a response to its end: (delivered, error, rest) *)
Definition to_end (t : nat) (r : reply) (bl : bool) (rest : list item) (amt : option nat)
  : list (nat * nat) * bool * list item :=
  if bl then ([], false, rest) else
  match k_framing r with
  | FEof => let '(ch, it) := pull_eof rest in ((t, k_first r) :: ch, false, it)
  | f =>
      let '(ch, have, it, short) := pull (k_n r) (k_first r) rest in
      let all := (t, k_first r) :: ch in
      if short then
        match f, amt with
        | FChunked, Some _ => (take_bytes have all, true, it)        (* every complete chunk was yielded *)
        | _, Some a => (take_bytes ((have / a) * a) all, true, it)   (* every complete read(amt) was yielded *)
        | _, None => ([], true, it)
        end
      else (all, false, it)
  end.

(* rc: release_conn() closes the connection when the body has not been read to its end (a fact of the source) *)
Section Release.
Variable rc : bool.

(* nothing of the body is outstanding although the caller has read none of it: length_remaining is 0 *)
Definition nothing_to_read (r : reply) (bl : bool) : bool :=
  bl || (match k_framing r with FLen => Nat.eqb (k_n r) 0 | _ => false end).
(* release_conn() on a response that was not read to its end *)
Definition released_unread (keep : bool) (rest : list item) : after := if rc then AClosedPut else fin keep rest.

(* read(k) has read the body to its end, framing included *)
Definition read_to_end (r : reply) (bl : bool) (k : nat) : bool :=
  bl || match k_framing r with FLen => Nat.leb (k_n r) k | FChunked => Nat.ltb (k_n r) k | FEof => false end.

Definition respond (t : nat) (r : reply) (bl : bool) (rest : list item) (c : caller)
  : list (nat * nat) * bool * after :=
  let keep := k_keep r in
  match c with
  | CReadAll =>
      let '(d, err, it) := to_end t r bl rest None in (d, err, if err then AClosedPut else fin keep it)
  | CDrain =>
      let '(_, err, it) := to_end t r bl rest None in ([], false, if err then AClosedPut else fin keep it)
  | CStream a =>
      let '(d, err, it) := to_end t r bl rest (Some (Nat.max a 1)) in (d, err, if err then AClosedPut else fin keep it)
  | CReadK k =>
      if bl || Nat.leb (k_n r) k && negb (match k_framing r with FEof => true | _ => false end) then
        (* every byte of the body is delivered; http.client has closed the response only if it has also seen the end of
           the framing (a chunked body: the last-chunk line, read with the next byte asked for) *)
        let '(d, err, it) := to_end t r bl rest None in
        (d, err, if err then AClosedPut else if read_to_end r bl k then fin keep it else released_unread keep it)
      else
        let '(ch, have, it, short) := pull k (k_first r) rest in
        let all := (t, k_first r) :: ch in
        match k_framing r with
        | FEof => (take_bytes (Nat.min k have) all, false, AClosedPut)
        | _ => if short then ([], true, AClosedPut) else (take_bytes k all, false, released_unread keep it)
        end
  | CRead1 k =>
      (* read1 does at most one raw read: what is buffered with the headers, else the next segment *)
      if bl then ([], false, fin keep rest)
      else if Nat.ltb 0 (k_first r) then
        let got := Nat.min k (Nat.min (k_first r) (k_n r)) in
        ([(t, got)], false, if Nat.eqb got (k_n r) then fin keep rest else ALost)
      else match k_n r, rest with
           | O, _ => ([], false, fin keep rest)
           | _, IData t' c :: more =>
               let got := Nat.min k (Nat.min c (k_n r)) in
               (* read1 on an empty buffer reads straight from the socket, at most what it was asked for: a stray that
                  came in the same segment as the end of the body stays in the socket *)
               ([(t', got)], false,
                if Nat.eqb got (k_n r)
                then fin keep (match k_stray r with SSame => IJunk (stray_tag t) :: more | _ => more end)
                else ALost)
           | _, IResp t' _ :: more => ([(t', 1)], false, ALost)
           | _, IJunk t' :: more => ([(t', 1)], false, ALost)
           | _, _ => ([], true, AClosedPut)
           end
  | CRelease => ([], false, if nothing_to_read r bl then fin keep rest else released_unread keep rest)
  | CKeep => ([], false, if rc && negb (nothing_to_read r bl) then AClosedPut else if keep then APut rest true else AClosedPut)
  | CClose => ([], false, ALost)
  end.

Definition apply_after (M : nat) (st : state) (s : nat) (a : after) : state :=
  match a with
  | APut rest dirty => put M (set_evs st s rest) (Some (s, dirty))
  | AClosedPut => put M (close_sock st s) None
  | ALost => close_sock st s
  end.

Record request := mkReq { q_head : bool; q_preload : bool; q_caller : caller }.

Inductive outcome := OResp | OMaxRetry | OScriptEnd.
Record result := mkRes {
  r_outcome : outcome; r_status : nat; r_delivered : list (nat * nat); r_read_err : bool;
  r_sock : option nat; r_connects : nat
}.

(* _get_conn + connect when needed: the socket the attempt will use and whether http.client still has an unread response on it *)
Definition acquire (st : state) : state * nat * bool :=
  let '(st1, slot) := checkout st in
  match slot with
  | Some (s, d) => (st1, s, d)
  | None => let '(st', s) := open_sock st1 in (st', s, false)
  end.

(* one attempt on socket s; the server answers the request with r0.  None: a failure urlopen retries
   (ResponseNotReady, BadStatusLine, RemoteDisconnected, IncompleteRead while preloading -> ProtocolError) *)
Definition attempt (M : nat) (st2 : state) (s : nat) (dirty : bool) (i : nat) (rq : request) (r0 : reply) (more : list reply)
  : state * option result :=
  (* the request is written; the server answers it on this socket *)
  let st3 := mkSt (s_q st2) ((s, unhold (evs_of (s_evs st2) s) ++ serve i (q_head rq) r0) :: s_evs st2) (s_nsid st2) more in
  let failed := (put M (close_sock st3 s) None, None) in
  if dirty then failed
  else
  match evs_of (s_evs st3) s with
  | IResp t r :: rest =>
      let bl := bodyless (q_head rq) r in
      if q_preload rq then
        let '(d, err, it) := to_end t r bl rest None in
        if err then failed
        else let st4 := apply_after M st3 s (fin (k_keep r) it) in
             (st4, Some (mkRes OResp (k_status r) d false (Some s) (s_nsid st4)))
      else
        let '(d, err, a) := respond t r bl rest (q_caller rq) in
        let st4 := apply_after M st3 s a in
        (st4, Some (mkRes OResp (k_status r) d err (Some s) (s_nsid st4)))
  | _ => failed
  end.

(* one urlopen call: `fuel` further attempts are allowed after a failed one (Retry(3): fuel 3) *)
Fixpoint urlopen (fuel : nat) (M : nat) (st : state) (i : nat) (rq : request) (last : option nat) : state * result :=
  let '(st2, s, dirty) := acquire st in
  match s_script st2 with
  | [] => (st2, mkRes OScriptEnd 0 [] false last (s_nsid st2))
  | r0 :: more =>
      match attempt M st2 s dirty i rq r0 more with
      | (st4, Some res) => (st4, res)
      | (st4, None) =>
          match fuel with
          | 0 => (st4, mkRes OMaxRetry 0 [] false (Some s) (s_nsid st4))
          | S f => urlopen f M st4 i rq (Some s)
          end
      end
  end.

Fixpoint run_history (fuel M : nat) (st : state) (i : nat) (reqs : list request) : list result :=
  match reqs with
  | [] => []
  | rq :: more =>
      let '(st1, res) := urlopen fuel M st i rq None in
      res :: match r_outcome res with OScriptEnd => [] | _ => run_history fuel M st1 (S i) more end
  end.
End Release.
