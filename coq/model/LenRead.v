(* C13, Content-Length framing: reading a body that may stop short of its declared length.

   Modelled code: response.py _raw_read (the empty-read test, enforce_content_length, length_remaining), read(amt) /
   read() for a body without content decoder (the decoded buffer, the refill loop, decode_content False returning the
   raw read at once), stream() for a non-chunked body (loop until the file object is closed and the buffer empty), and
   the caller's loops of the harness.  Below it: http.client.HTTPResponse.read(amt) / read() for a body with
   Content-Length (clipping to the length left, closing on an empty read or when the length reaches zero, _safe_read),
   over a BufferedReader that returns the bytes asked for or, at EOF, fewer.
   The stream after the headers is `sock` followed by EOF. *)
From Coq Require Import List Arith Bool.
Import ListNotations.

Record st := mkSt {
  sock : list nat;        (* bytes not yet read, then EOF *)
  hlen : nat;             (* http.client: self.length *)
  fp_open : bool;         (* http.client: self.fp is not None *)
  io_closed : bool;       (* urllib3 has called self._fp.close() *)
  lrem : nat;             (* urllib3: length_remaining *)
  buf : list nat          (* urllib3: _decoded_buffer *)
}.

Definition init (body : list nat) (content_length : nat) : st := mkSt body content_length true false content_length [].

Definition is_nil (l : list nat) : bool := match l with [] => true | _ => false end.

(* http.client HTTPResponse.read(amt): Some data, or None for IncompleteRead *)
Definition hc_read (s : st) (amt : option nat) : option (list nat) * st :=
  if negb (fp_open s) then (Some [], s)
  else match amt with
       | Some a =>
           let a' := Nat.min a (hlen s) in
           let d := firstn a' (sock s) in
           if is_nil d && negb (Nat.eqb a' 0)
           then (Some [], mkSt (sock s) (hlen s) false (io_closed s) (lrem s) (buf s))
           else let h := hlen s - length d in
                (Some d, mkSt (skipn a' (sock s)) h (negb (Nat.eqb h 0)) (io_closed s) (lrem s) (buf s))
       | None =>
           let d := firstn (hlen s) (sock s) in
           if Nat.ltb (length d) (hlen s)
           then (None, mkSt [] (hlen s) false (io_closed s) (lrem s) (buf s))
           else (Some d, mkSt (skipn (hlen s) (sock s)) 0 false (io_closed s) (lrem s) (buf s))
       end.

Inductive res :=
| RData (d : list nat)
| RIncomplete           (* urllib3.exceptions.IncompleteRead *)
| RProtocol             (* ProtocolError around http.client.IncompleteRead *)
| RFuel.                (* the model ran out of fuel (excluded by the theorems) *)

(* _raw_read(amt); enforce: enforce_content_length *)
Definition raw_read (enforce : bool) (s : st) (amt : option nat) : res * st :=
  let '(r, s1) := if io_closed s then (Some [], s) else hc_read s amt in
  match r with
  | None => (RProtocol, s1)
  | Some d =>
      if match amt with Some a => negb (Nat.eqb a 0) | None => false end && is_nil d
      then let s2 := mkSt (sock s1) (hlen s1) false true (lrem s1) (buf s1) in
           if enforce && negb (Nat.eqb (lrem s1) 0) then (RIncomplete, s2) else (RData [], s2)
      else (RData d, mkSt (sock s1) (hlen s1) (fp_open s1) (io_closed s1) (lrem s1 - length d) (buf s1))
  end.

(* the refill loop of read(amt): `while len(buffer) < amt and data` *)
Fixpoint refill (enforce : bool) (fuel : nat) (s : st) (a : nat) (last : list nat) : res * st :=
  match fuel with
  | O => (RFuel, s)
  | S f =>
      if Nat.ltb (length (buf s)) a && negb (is_nil last)
      then match raw_read enforce s (Some a) with
           | (RData d, s1) => refill enforce f (mkSt (sock s1) (hlen s1) (fp_open s1) (io_closed s1) (lrem s1) (buf s1 ++ d)) a d
           | (e, s1) => (e, s1)
           end
      else (RData (firstn a (buf s)), mkSt (sock s) (hlen s) (fp_open s) (io_closed s) (lrem s) (skipn a (buf s)))
  end.

(* HTTPResponse.read(amt, decode_content=dc) without a content decoder *)
Definition read (enforce dc : bool) (s : st) (amt : option nat) : res * st :=
  match amt with
  | None =>
      match raw_read enforce s None with
      | (RData d, s1) => (RData (buf s1 ++ d), mkSt (sock s1) (hlen s1) (fp_open s1) (io_closed s1) (lrem s1) [])
      | (e, s1) => (e, s1)
      end
  | Some a =>
      if Nat.leb a (length (buf s))
      then (RData (firstn a (buf s)), mkSt (sock s) (hlen s) (fp_open s) (io_closed s) (lrem s) (skipn a (buf s)))
      else match raw_read enforce s (Some a) with
           | (RData d, s1) =>
               if is_nil d && is_nil (buf s1) then (RData [], s1)
               else if negb dc then (RData d, s1)
               else refill enforce (S (S (length (sock s1)))) (mkSt (sock s1) (hlen s1) (fp_open s1) (io_closed s1) (lrem s1) (buf s1 ++ d)) a d
           | (e, s1) => (e, s1)
           end
  end.

(* how the caller's reading ended *)
Inductive ending := Normal | EIncomplete | EProtocol | OutOfFuel.
Definition ending_of (r : res) : ending :=
  match r with RData _ => Normal | RIncomplete => EIncomplete | RProtocol => EProtocol | RFuel => OutOfFuel end.

(* `while True: p = r.read(n); if not p: break` *)
Fixpoint read_n_loop (enforce dc : bool) (fuel : nat) (s : st) (a : nat) : list (list nat) * ending * st :=
  match fuel with
  | O => ([], OutOfFuel, s)
  | S f =>
      match read enforce dc s (Some a) with
      | (RData [], s1) => ([], Normal, s1)
      | (RData d, s1) => let '(ps, e, s2) := read_n_loop enforce dc f s1 a in (d :: ps, e, s2)
      | (r, s1) => ([], ending_of r, s1)
      end
  end.

(* stream(amt) for a body that is not chunked: `while not is_fp_closed(self._fp) or len(self._decoded_buffer) > 0` *)
Fixpoint stream_loop (enforce dc : bool) (fuel : nat) (s : st) (a : nat) : list (list nat) * ending * st :=
  match fuel with
  | O => ([], OutOfFuel, s)
  | S f =>
      if fp_open s || negb (is_nil (buf s))
      then match read enforce dc s (Some a) with
           | (RData d, s1) =>
               let '(ps, e, s2) := stream_loop enforce dc f s1 a in
               (if is_nil d then ps else d :: ps, e, s2)
           | (r, s1) => ([], ending_of r, s1)
           end
      else ([], Normal, s)
  end.

(* the caller: 0 read() / preload, 1 read(n) until empty, 3 stream(n) *)
Inductive api := ARead | AReadN (n : nat) | AStream (n : nat).
Definition run_api (enforce dc : bool) (body : list nat) (content_length : nat) (a : api) : list (list nat) * ending :=
  let s := init body content_length in
  let fuel := S (S (length body)) in
  match a with
  | ARead => match read enforce dc s None with
             | (RData d, _) => ([d], Normal)
             | (r, _) => ([], ending_of r)
             end
  | AReadN n => let '(ps, e, _) := read_n_loop enforce dc fuel s n in (ps, e)
  | AStream n => let '(ps, e, _) := stream_loop enforce dc fuel s n in (ps, e)
  end.
