(* C07: which checks stand between an HTTPS request and the wire.

   Modelled code: util/ssl_.py resolve_cert_reqs, create_urllib3_context (verify_mode / check_hostname of the default
   context); connection.py _ssl_wrap_socket_and_match_hostname (verify_mode always follows cert_reqs, when urllib3 takes
   the host-name check over, the fingerprint and host-name checks after the handshake, is_verified), HTTPSConnection.connect;
   connectionpool.py _validate_conn (InsecureRequestWarning).
   and which trust anchors the context ends up with (ca_certs / ca_cert_dir / ca_cert_data, else - and only in a context
   urllib3 made itself - the system store).
   Below the model: the TLS library.  Its chain validation and its host-name check, and urllib3's own match_hostname
   (C08), are inputs: who issued the certificate, does it name the server name, does it name the asserted name. *)
From Coq Require Import List Bool.
Import ListNotations.

Inductive cert_reqs := CRDefault | CRRequired | CROptional | CRNone.
Inductive verify_mode := VRequired | VOptional | VNone.
Inductive assert_hostname := AHUnset | AHFalse | AHName.
Inductive fingerprint := FPUnset | FPRight | FPWrong | FPBadLength.
Inductive context := CtxNone | CtxChecking | CtxNotChecking.     (* ssl_context: none given / check_hostname on / off *)

Inductive trust := TFile | TDir | TData | TNothing.              (* ca_certs / ca_cert_dir / ca_cert_data / none of them *)
Inductive issuer := IConfigured | ISystem | IUnknown.            (* the CA the caller configured / one of the system store / neither *)

Record settings := mkSettings {
  s_cert_reqs : cert_reqs; s_assert_hostname : assert_hostname; s_fingerprint : fingerprint; s_context : context; s_trust : trust
}.
Record peer := mkPeer {
  p_issuer : issuer;        (* who signed the certificate *)
  p_sni_name_ok : bool;     (* the TLS library finds the server name in the certificate *)
  p_assert_name_ok : bool   (* urllib3's match_hostname finds assert_hostname (or else the server name) in it *)
}.

Definition resolve (c : cert_reqs) : verify_mode :=
  match c with CRDefault | CRRequired => VRequired | CROptional => VOptional | CRNone => VNone end.

Definition is_none (v : verify_mode) : bool := match v with VNone => true | _ => false end.
Definition is_required (v : verify_mode) : bool := match v with VRequired => true | _ => false end.

(* the anchors of the context after _ssl_wrap_socket_and_match_hostname: the configured CA whenever one is configured
   (load_verify_locations); the system store only when none is and the context is urllib3's own (load_default_certs);
   a caller's context is taken as it comes (here: empty) *)
Definition no_ca (t : trust) : bool := match t with TNothing => true | _ => false end.
Definition own_context (c : context) : bool := match c with CtxNone => true | _ => false end.
Definition anchored (s : settings) (i : issuer) : bool :=
  match i with
  | IConfigured => negb (no_ca (s_trust s))
  | ISystem => no_ca (s_trust s) && own_context (s_context s)
  | IUnknown => false
  end.
(* the chain validates: the issuer is one of the anchors *)
Definition p_chain_ok (s : settings) (p : peer) : bool := anchored s (p_issuer p).

Inductive result :=
| Sent (verified warned : bool)      (* the handshake and every demanded check passed: the request is written *)
| Refused                            (* SSLError, nothing written *)
| Misconfigured.                     (* ValueError from the ssl module: CERT_NONE on a context that checks host names *)

Definition connect (s : settings) (p : peer) : result :=
  let vm := resolve (s_cert_reqs s) in
  (* the context's check_hostname before urllib3 touches it *)
  let ch0 := match s_context s with CtxNone => is_required vm | CtxChecking => true | CtxNotChecking => false end in
  (* context.verify_mode = resolve_cert_reqs(cert_reqs): the ssl module refuses CERT_NONE while check_hostname is on *)
  if ch0 && is_none vm then Misconfigured
  else
    let own := match s_fingerprint s, s_assert_hostname s with FPUnset, AHUnset => false | _, _ => true end in
    let ch := if own then false else ch0 in
    (* the handshake *)
    if negb (is_none vm) && negb (p_chain_ok s p) then Refused
    else if ch && negb (p_sni_name_ok p) then Refused
    else
      (* after the handshake *)
      let post_ok :=
        match s_fingerprint s with
        | FPRight => true
        | FPWrong | FPBadLength => false
        | FPUnset =>
            if negb (is_none vm) && negb ch && negb (match s_assert_hostname s with AHFalse => true | _ => false end)
            then p_assert_name_ok p else true
        end in
      if negb post_ok then Refused
      else
        let verified := is_required vm || negb (match s_fingerprint s with FPUnset => true | _ => false end) in
        Sent verified (negb verified).
