(* C07: which checks stand between an HTTPS request and the wire.

   Modelled code: util/ssl_.py resolve_cert_reqs, create_urllib3_context (verify_mode / check_hostname of the default
   context), ssl_wrap_socket (load_verify_locations, TLS in TLS needs wrap_bio); connection.py
   _ssl_wrap_socket_and_match_hostname (verify_mode always follows cert_reqs, when urllib3 takes the host-name check over,
   the fingerprint and host-name checks after the handshake, is_verified, and which trust anchors the context ends up
   with: ca_certs / ca_cert_dir / ca_cert_data, else - only in a context urllib3 made itself with the stdlib backend - the
   system store), HTTPSConnection.connect (direct; CONNECT tunnel through an http proxy; through an https proxy, whose own
   handshake comes first: _connect_tls_proxy), is_verified / proxy_is_verified; connectionpool.py _validate_conn
   (InsecureRequestWarning); contrib/pyopenssl.py as far as it changes these decisions (IS_PYOPENSSL, a context without
   check_hostname, load_default_certs or wrap_bio, load_verify_locations that needs a file or a directory).
   Below the model: the TLS library.  Its chain validation and its host-name check, and urllib3's own match_hostname
   (C08), are inputs: who issued the certificate, does it name the server name, does it name the asserted name. *)
From Coq Require Import List Bool.
Import ListNotations.

Inductive cert_reqs := CRDefault | CRRequired | CROptional | CRNone.
Inductive verify_mode := VRequired | VOptional | VNone.
Inductive assert_hostname := AHUnset | AHFalse | AHName.
Inductive fingerprint := FPUnset | FPRight | FPWrong | FPBadLength.
(* ssl_context: none given / an ssl.SSLContext with check_hostname on / off / a PyOpenSSLContext *)
Inductive context := CtxNone | CtxChecking | CtxNotChecking | CtxPyOpenSSL.
Inductive trust := TFile | TDir | TData | TNothing.              (* ca_certs / ca_cert_dir / ca_cert_data / none of them *)
Inductive issuer := IConfigured | ISystem | IUnknown.            (* the CA the caller configured / one of the system store / neither *)
Inductive backend := BStd | BPyOpenSSL.                          (* contrib.pyopenssl.inject_into_urllib3() or not *)

Record settings := mkSettings {
  s_cert_reqs : cert_reqs; s_assert_hostname : assert_hostname; s_fingerprint : fingerprint; s_context : context; s_trust : trust
}.
Record peer := mkPeer {
  p_issuer : issuer;        (* who signed the certificate *)
  p_sni_name_ok : bool;     (* the TLS library finds the server name in the certificate *)
  p_assert_name_ok : bool   (* urllib3's match_hostname finds assert_hostname (or else the server name) in it *)
}.

Definition resolve (c : cert_reqs) : verify_mode :=
  match c with CRDefault | CRRequired => VRequired | CROptional => VOptional | CRNone => VNone end.

Definition is_none (v : verify_mode) : bool := match v with VNone => true | _ => false end.
Definition is_required (v : verify_mode) : bool := match v with VRequired => true | _ => false end.

(* is the context in use a PyOpenSSLContext? *)
Definition py_context (b : backend) (c : context) : bool :=
  match c, b with CtxPyOpenSSL, _ => true | CtxNone, BPyOpenSSL => true | _, _ => false end.

(* the anchors of the context after _ssl_wrap_socket_and_match_hostname: the configured CA whenever one is configured
   (load_verify_locations); the system store only when none is and the context is urllib3's own and has
   load_default_certs (a PyOpenSSLContext has not); a caller's context is taken as it comes (here: empty) *)
Definition no_ca (t : trust) : bool := match t with TNothing => true | _ => false end.
Definition own_context (c : context) : bool := match c with CtxNone => true | _ => false end.
Definition anchored (b : backend) (s : settings) (i : issuer) : bool :=
  match i with
  | IConfigured => negb (no_ca (s_trust s))
  | ISystem => no_ca (s_trust s) && own_context (s_context s) && negb (py_context b (s_context s))
  | IUnknown => false
  end.
(* the chain validates: the issuer is one of the anchors *)
Definition p_chain_ok (b : backend) (s : settings) (p : peer) : bool := anchored b s (p_issuer p).

(* one call of _ssl_wrap_socket_and_match_hostname *)
Inductive wrapped :=
| WOk (verified : bool)      (* the handshake and every demanded check passed *)
| WRefused                   (* SSLError *)
| WMisconfigured.            (* ValueError: CERT_NONE on a context that checks host names; TLS in TLS on a context without wrap_bio *)

Definition wrap (b : backend) (tls_in_tls : bool) (s : settings) (p : peer) : wrapped :=
  let vm := resolve (s_cert_reqs s) in
  let py := py_context b (s_context s) in
  (* the context's check_hostname before urllib3 touches it *)
  let ch0 := match s_context s with
             | CtxNone => is_required vm && negb py
             | CtxChecking => true
             | CtxNotChecking | CtxPyOpenSSL => false
             end in
  (* context.verify_mode = resolve_cert_reqs(cert_reqs): the ssl module refuses CERT_NONE while check_hostname is on *)
  if ch0 && is_none vm then WMisconfigured
  else
    let own := match s_fingerprint s, s_assert_hostname s, b with FPUnset, AHUnset, BStd => false | _, _, _ => true end in
    let ch := if own then false else ch0 in
    (* load_verify_locations of a PyOpenSSLContext wants a file or a directory: with data alone it fails *)
    if py && match s_trust s with TData => true | _ => false end then WRefused
    (* TLS in TLS needs SSLContext.wrap_bio *)
    else if tls_in_tls && py then WMisconfigured
    (* the handshake *)
    else if negb (is_none vm) && negb (p_chain_ok b s p) then WRefused
    else if ch && negb (p_sni_name_ok p) then WRefused
    else
      (* after the handshake *)
      let post_ok :=
        match s_fingerprint s with
        | FPRight => true
        | FPWrong | FPBadLength => false
        | FPUnset =>
            if negb (is_none vm) && negb ch && negb (match s_assert_hostname s with AHFalse => true | _ => false end)
            then p_assert_name_ok p else true
        end in
      if negb post_ok then WRefused
      else WOk (is_required vm || negb (match s_fingerprint s with FPUnset => true | _ => false end)).

(* how the origin is reached *)
Record proxy_settings := mkProxy {
  x_assert_hostname : assert_hostname; x_fingerprint : fingerprint; x_context : context     (* proxy_assert_hostname, proxy_assert_fingerprint, proxy_ssl_context *)
}.
Inductive route :=
| Direct
| TunnelHttp                                          (* CONNECT in the clear, then TLS with the origin *)
| TunnelHttps (x : proxy_settings) (xp : peer).       (* TLS with the proxy, CONNECT inside it, then TLS in TLS with the origin *)

(* the settings of the proxy's handshake: cert_reqs and the CAs are the connection's own (_connect_tls_proxy) *)
Definition proxy_tls (s : settings) (x : proxy_settings) : settings :=
  mkSettings (s_cert_reqs s) (x_assert_hostname x) (x_fingerprint x) (x_context x) (s_trust s).

Inductive result :=
| Sent (verified warned : bool)      (* the request is written *)
| Refused (tunnel : bool)            (* SSLError (ProxyError when it is the proxy's), no request written; tunnel: CONNECT was *)
| Misconfigured (tunnel : bool).     (* ValueError, no request written *)

Definition connect (b : backend) (s : settings) (p : peer) (r : route) : result :=
  match r with
  | Direct =>
      match wrap b false s p with
      | WOk v => Sent v (negb v)
      | WRefused => Refused false
      | WMisconfigured => Misconfigured false
      end
  | TunnelHttp =>
      (* proxy_is_verified is False for an http proxy *)
      match wrap b false s p with
      | WOk v => Sent v (negb v && negb false)
      | WRefused => Refused true
      | WMisconfigured => Misconfigured true
      end
  | TunnelHttps x xp =>
      match wrap b false (proxy_tls s x) xp with
      | WOk xv =>
          match wrap b true s p with
          | WOk v => Sent v (negb v && negb xv)        (* _validate_conn: not is_verified and not proxy_is_verified *)
          | WRefused => Refused true
          | WMisconfigured => Misconfigured true
          end
      | WRefused => Refused false
      | WMisconfigured => Misconfigured false
      end
  end.
