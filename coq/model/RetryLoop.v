(* Model of the retry loop of HTTPConnectionPool.urlopen (redirects disabled):
   one scripted outcome per attempt, the error wrapping that decides the Retry
   category, Retry.increment, sleeps, and what ends the loop. *)
From Coq Require Import String List NArith ZArith QArith Qminmax Bool.
From V Require Import lib.PyStr model.Retry.
Import ListNotations.
Local Open Scope Z_scope.

Inductive conn_outcome := COk | CRefused | CTimeout.
Inductive send_outcome := SOk | SEpipe | SReset | SOther | STimeout.
Inductive recv_outcome :=
| RResp (status : Z) (retry_after : option Z) (keepalive : bool)
| RTimeout | RReset | REof | RGarbage.
Record attempt := mkA { a_connect : conn_outcome; a_send : send_outcome; a_recv : recv_outcome }.

(* Tunnelling: CONNECT to an http proxy, always granted; `up`: urlopen remembers that the tunnel of the attempt is up and
   then never reports a failure to reach the proxy (a fact of the source) *)
Inductive proxy_mode := Direct | Forwarding | Tunnelling (up : bool).

(* what one attempt did on the network *)
Record wire := mkW { w_connected : bool; w_sent : bool }.

Inductive final :=
| FResponse (status : Z)
| FRaise (e : exn)                          (* re-raised (wrapped) error *)
| FMaxRetry (reason : option exn)           (* MaxRetryError; None: reason is a ResponseError *)
| FScriptEnd.                               (* the script has no outcome left (excluded by the theorems) *)

(* why an attempt was followed by another one *)
Inductive category := KConnect | KRead | KOther | KStatus.

Record trace := mkTr { t_wire : list wire; t_sleeps : list Q; t_final : final; t_retried : list category }.

Section Loop.
Variable L : lattice.
Variable to_ssl to_proxy to_protocol : list str.      (* the three isinstance tuples of urlopen's handler *)
Variable conn_err_classes read_err_classes : list str.
Variable retry_after_codes : list Z.

Definition C (s : string) : str := str_of_string s.

(* the exception an attempt raises inside urlopen's try block, and whether the stdlib
   closed the connection on the way (http.client closes on ConnectionError in getresponse) *)
Inductive raised := Raised (cls : str) (closed_by_httpclient : bool).

Definition attempt_exception (need_connect : bool) (a : attempt) : option raised :=
  match (if need_connect then a_connect a else COk) with
  | CRefused => Some (Raised (C "NewConnectionError") false)
  | CTimeout => Some (Raised (C "ConnectTimeoutError") false)
  | COk =>
      match a_send a with
      | SOther => Some (Raised (C "OSError") false)
      | STimeout => Some (Raised (C "builtins.TimeoutError") false)
      | SOk | SEpipe | SReset =>                   (* BrokenPipeError / ECONNRESET are swallowed *)
          match a_recv a with
          | RResp _ _ _ => None
          | RTimeout => Some (Raised (C "ReadTimeoutError") false)      (* _raise_timeout *)
          | RReset => Some (Raised (C "ConnectionResetError") true)
          | REof => Some (Raised (C "http.client.RemoteDisconnected") true)
          | RGarbage => Some (Raised (C "http.client.BadStatusLine") false)
          end
      end
  end.

(* urlopen's handler: SSLError / ProxyError / ProtocolError wrapping *)
Definition wrap (mode : proxy_mode) (connected_to_proxy : bool) (cls : str) : exn :=
  let e1 := if isinstance L cls to_ssl then mkExn (C "SSLError") (Some cls) else mkExn cls None in
  if isinstance L (e_cls e1) to_proxy &&
     (match mode with Direct => false | Forwarding | Tunnelling _ => negb connected_to_proxy end)
  then mkExn (C "ProxyError") (Some (e_cls e1))
  else if isinstance L (e_cls e1) to_protocol then mkExn (C "ProtocolError") (Some (e_cls e1))
  else e1.

(* Retry.sleep(response) / _sleep_backoff; jitter is 0 *)
Definition sleep_after_error (r : retry) : list Q :=
  let b := backoff_time r 0 in if Qle_bool b 0 then [] else [b].
Definition sleep_after_status (r : retry) (retry_after : option Z) : list Q :=
  match (if r_respect_retry_after r then retry_after else None) with
  | Some n => if 0 <? n then [inject_Z n] else sleep_after_error r
  | None => sleep_after_error r
  end.

Definition wire_of (need_connect : bool) (a : attempt) : wire :=
  let conn_ok := match (if need_connect then a_connect a else COk) with COk => true | _ => false end in
  mkW need_connect (conn_ok && match a_send a with SOk => true | _ => false end).

(* have_conn: an idle live connection of this pool is available (keep-alive);
   for such a connection has_connected_to_proxy is true in Forwarding mode *)
Definition category_of (e : exn) : category :=
  if is_connection_error L conn_err_classes e then KConnect
  else if is_read_error L read_err_classes e then KRead else KOther.

Fixpoint loop (script : list attempt) (mode : proxy_mode) (method : str) (r : retry) (have_conn : bool)
         (wires : list wire) (sleeps : list Q) (cats : list category) : trace :=
  match script with
  | [] => mkTr wires sleeps FScriptEnd cats
  | a :: rest =>
      let need_connect := negb have_conn in
      let wires := wires ++ [wire_of need_connect a] in
      match attempt_exception need_connect a with
      | Some (Raised cls closed) =>
          let connected :=
            (* has_connected_to_proxy at classification time: set by a successful connect
               (or kept on a reused connection), reset when the connection was closed *)
            match (if need_connect then a_connect a else COk) with
            | COk => match mode with Tunnelling true => true | _ => negb closed end
            | _ => false
            end in
          let e := wrap mode connected cls in
          match increment L conn_err_classes read_err_classes r method (IError e) with
          | IReraise => mkTr wires sleeps (FRaise e) cats
          | IMaxRetry _ => mkTr wires sleeps (FMaxRetry (Some e)) cats
          | IOk r' => loop rest mode method r' false wires (sleeps ++ sleep_after_error r') (cats ++ [category_of e])
          end
      | None =>
          match a_recv a with
          | RResp status ra keepalive =>
              let has_ra := match ra with Some _ => true | None => false end in
              if is_retry retry_after_codes r method status has_ra then
                match increment L conn_err_classes read_err_classes r method (IResponse status false) with
                | IOk r' => loop rest mode method r' keepalive wires (sleeps ++ sleep_after_status r' ra) (cats ++ [KStatus])
                | _ => if r_raise_on_status r then mkTr wires sleeps (FMaxRetry None) cats
                       else mkTr wires sleeps (FResponse status) cats
                end
              else mkTr wires sleeps (FResponse status) cats
          | _ => mkTr wires sleeps FScriptEnd cats    (* unreachable *)
          end
      end
  end.

Definition run_loop (script : list attempt) (mode : proxy_mode) (method : str) (r : retry) : trace :=
  loop script mode method r false [] [] [].
End Loop.
