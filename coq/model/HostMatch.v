(* Model of urllib3.util.ssl_match_hostname (_dnsname_match, _ipaddress_match,
   match_hostname), urllib3.connection._match_hostname and
   urllib3.util.ssl_.assert_fingerprint.  The regular expressions built by
   _dnsname_match are replaced by the label-wise matcher they denote.
   ipaddress.ip_address, is_ipaddress and hashlib digests are oracles. *)
From Coq Require Import String List NArith Bool Arith.
From V Require Import lib.PyStr.
Import ListNotations.
Local Open Scope N_scope.

Definition DOT : N := 46.
Definition STAR : N := 42.
Definition PERCENT : N := 37.
Definition COLON : N := 58.

(* str.split(".") *)
Fixpoint split_dot_go (s : str) (cur : str) : list str :=
  match s with
  | [] => [rev cur]
  | c :: r => if c =? DOT then rev cur :: split_dot_go r [] else split_dot_go r (c :: cur)
  end.
Definition split_dot (s : str) : list str := split_dot_go s [].

Definition count_star (s : str) : nat := length (filter (fun c => c =? STAR) s).
Definition ieq (a b : str) : bool := str_eqb (ascii_lower a) (ascii_lower b).

Definition ends_with_n (suffix s : str) : bool :=
  (* s ends with suffix *)
  starts_with (rev suffix) (rev s).

(* split a label with exactly one '*' into (before, after) *)
Fixpoint split_star (s : str) (pre : str) : option (str * str) :=
  match s with
  | [] => None
  | c :: r => if c =? STAR then Some (rev pre, r) else split_star r (c :: pre)
  end.

Definition has_dot (s : str) : bool := existsb (fun c => c =? DOT) s.

Definition XN : str := S!"xn--".

(* one host label against the left-most pattern label containing one '*' *)
Definition wild_label_match (leftmost hostlabel : str) : bool :=
  match split_star leftmost [] with
  | Some (pre, post) =>
      (Nat.leb (length pre + length post) (length hostlabel))
      && starts_with (ascii_lower pre) (ascii_lower hostlabel)
      && ends_with_n (ascii_lower post) (ascii_lower hostlabel)
  | None => false
  end.

Fixpoint all_ieq (a b : list str) : bool :=
  match a, b with
  | [], [] => true
  | x :: a', y :: b' => ieq x y && all_ieq a' b'
  | _, _ => false
  end.

Inductive dres := DMatch (b : bool) | DTooManyWildcards.

Definition dnsname_match (dn hostname : str) : dres :=
  match dn with
  | [] => DMatch false
  | _ =>
      match split_dot dn with
      | [] => DMatch false
      | leftmost :: remainder =>
          let w := count_star leftmost in
          if Nat.ltb 1 w then DTooManyWildcards
          else if Nat.eqb w 0 then DMatch (ieq dn hostname)
          else
            match split_dot hostname with
            | [] => DMatch false
            | h0 :: hrest =>
                if str_eqb leftmost [STAR] then
                  DMatch (negb (Nat.eqb (length h0) 0) && all_ieq remainder hrest)
                else if starts_with XN (ascii_lower leftmost) || starts_with XN (ascii_lower hostname) then
                  DMatch (ieq dn hostname)             (* the pattern is the literal name *)
                else
                  DMatch (wild_label_match leftmost h0 && all_ieq remainder hrest)
            end
      end
  end.

Inductive san_entry := SDns (v : str) | SIp (v : str) | SOther.
Inductive mres := Accept | RejectCert | RaiseValueError.

Definition is_space (c : N) : bool :=
  (c =? 32) || ((9 <=? c) && (c <=? 13)) || ((28 <=? c) && (c <=? 31)) || (c =? 133) || (c =? 160).
Fixpoint rstrip_rev (r : str) : str :=
  match r with
  | c :: t => if is_space c then rstrip_rev t else r
  | [] => []
  end.
Definition rstrip (s : str) : str := rev (rstrip_rev (rev s)).

(* hostname[: hostname.rfind("%")] *)
Fixpoint drop_to_last_percent_rev (r : str) : option str :=
  match r with
  | [] => None
  | c :: t => if c =? PERCENT then Some t else drop_to_last_percent_rev t
  end.
Definition before_last_percent (s : str) : str :=
  match drop_to_last_percent_rev (rev s) with Some t => rev t | None => s end.
Definition has_percent (s : str) : bool := existsb (fun c => c =? PERCENT) s.

Section Oracles.
Variable ip_parse : str -> option (list N).    (* ipaddress.ip_address(s).packed, None = ValueError *)
Variable is_ip : str -> bool.                  (* urllib3.util.ssl_.is_ipaddress *)

Definition host_ip_of (hostname : str) : option (list N) :=
  if has_percent hostname then ip_parse (before_last_percent hostname) else ip_parse hostname.

Definition packed_eqb (a b : list N) : bool := str_eqb a b.

(* the SAN loop: returns the outcome, or None to continue with the names seen so far *)
Fixpoint san_loop (san : list san_entry) (hostname : str) (host_ip : option (list N))
         (seen : nat) : mres + nat :=
  match san with
  | [] => inr seen
  | SDns v :: r =>
      match host_ip with
      | None =>
          match dnsname_match v hostname with
          | DTooManyWildcards => inl RejectCert
          | DMatch true => inl Accept
          | DMatch false => san_loop r hostname host_ip (S seen)
          end
      | Some _ => san_loop r hostname host_ip (S seen)
      end
  | SIp v :: r =>
      match host_ip with
      | Some hp =>
          match ip_parse (rstrip v) with
          | None => inl RaiseValueError
          | Some p => if packed_eqb p hp then inl Accept else san_loop r hostname host_ip (S seen)
          end
      | None => san_loop r hostname host_ip (S seen)
      end
  | SOther :: r => san_loop r hostname host_ip seen
  end.

Fixpoint cn_loop (cns : list str) (hostname : str) : mres :=
  match cns with
  | [] => RejectCert
  | v :: r =>
      match dnsname_match v hostname with
      | DTooManyWildcards => RejectCert
      | DMatch true => Accept
      | DMatch false => cn_loop r hostname
      end
  end.

Definition match_hostname (san : list san_entry) (cns : list str) (hostname : str) (checks_cn : bool) : mres :=
  let host_ip := host_ip_of hostname in
  match san_loop san hostname host_ip 0 with
  | inl r => r
  | inr seen =>
      if checks_cn && (match host_ip with None => true | Some _ => false end) && Nat.eqb seen 0
      then cn_loop cns hostname
      else RejectCert
  end.

(* str.strip("[]") *)
Definition is_bracket (c : N) : bool := (c =? 91) || (c =? 93).
Fixpoint lstrip_br (s : str) : str :=
  match s with c :: t => if is_bracket c then lstrip_br t else s | [] => [] end.
Definition strip_br (s : str) : str := rev (lstrip_br (rev (lstrip_br s))).

(* urllib3.connection._match_hostname *)
Definition conn_match_hostname (san : list san_entry) (cns : list str) (asserted : str) (checks_cn : bool) : mres :=
  let stripped := strip_br asserted in
  match_hostname san cns (if is_ip stripped then stripped else asserted) checks_cn.
End Oracles.

(* ---------------- fingerprints ---------------- *)
Definition hexval (c : N) : option N :=
  if (48 <=? c) && (c <=? 57) then Some (c - 48)
  else if (97 <=? c) && (c <=? 102) then Some (c - 87)
  else if (65 <=? c) && (c <=? 70) then Some (c - 55)
  else None.

Fixpoint unhexlify (s : str) : option (list N) :=
  match s with
  | [] => Some []
  | [_] => None
  | a :: b :: r =>
      match hexval a, hexval b, unhexlify r with
      | Some x, Some y, Some t => Some (x * 16 + y :: t)
      | _, _, _ => None
      end
  end.

Definition strip_colons_lower (fp : str) : str := ascii_lower (filter (fun c => negb (c =? COLON)) fp).

Inductive fres := FAccept | FRejectSSL | FRaiseOther.

(* table: digest length in hex digits -> digest of the certificate (None: algorithm unavailable) *)
Definition assert_fingerprint (table : list (nat * option (list N))) (fp : str) : fres :=
  let f := strip_colons_lower fp in
  match find (fun e => Nat.eqb (fst e) (length f)) table with
  | None => FRejectSSL
  | Some (_, None) => FRejectSSL
  | Some (_, Some dig) =>
      match unhexlify f with
      | None => FRaiseOther                          (* binascii.Error *)
      | Some bytes => if str_eqb bytes dig then FAccept else FRejectSSL
      end
  end.

(* HASHFUNC_MAP (length in hex digits -> algorithm name) applied to a certificate:
   `digest name` is hashlib's digest of the certificate under that algorithm *)
Definition table_of (m : list (nat * str)) (digest : str -> option (list N)) : list (nat * option (list N)) :=
  map (fun e => (fst e, digest (snd e))) m.
