(* Model of urllib3.util.url: parse_url, _normalize_host, _remove_path_dot_segments,
   _encode_invalid_chars, Url.__new__, Url.url, request_uri.  The regular
   expressions are replaced by explicit scanners for the pinned pattern
   literals (gen/Gen_Url.v; pins in props/Prop_C14.v).  idna.encode is an oracle. *)
From Coq Require Import String List NArith Bool Arith.
From V Require Import lib.PyStr lib.Utf8.
Import ListNotations.
Local Open Scope N_scope.

(* ---------- character classes ---------- *)
Definition is_upper (c : N) := (65 <=? c) && (c <=? 90).
Definition is_lower (c : N) := (97 <=? c) && (c <=? 122).
Definition is_alpha (c : N) := is_upper c || is_lower c.
Definition is_digit (c : N) := (48 <=? c) && (c <=? 57).
Definition is_hex (c : N) := is_digit c || ((65 <=? c) && (c <=? 70)) || ((97 <=? c) && (c <=? 102)).
Definition is_unreserved (c : N) := is_alpha c || is_digit c || (c =? 46) || (c =? 95) || (c =? 45) || (c =? 126).
Definition is_sub_delim (c : N) := existsb (N.eqb c) [33; 36; 38; 39; 40; 41; 42; 43; 44; 59; 61].
Definition userinfo_char (c : N) := is_unreserved c || is_sub_delim c || (c =? 58).
Definition path_char (c : N) := userinfo_char c || (c =? 64) || (c =? 47).
Definition query_char (c : N) := path_char c || (c =? 63).

Definition SLASH : N := 47.
Definition COLON : N := 58.
Definition QMARK : N := 63.
Definition HASH : N := 35.
Definition AT : N := 64.
Definition PCT : N := 37.
Definition BSLASH : N := 92.
Definition LBR : N := 91.
Definition RBR : N := 93.
Definition NL : N := 10.
Definition DOT : N := 46.

Fixpoint span (p : N -> bool) (s : str) : str * str :=
  match s with
  | [] => ([], [])
  | c :: r => if p c then let '(a, b) := span p r in (c :: a, b) else ([], s)
  end.

(* ---------- _SCHEME_RE.search:  ^(?:[a-zA-Z][a-zA-Z0-9+-]*:|/) ---------- *)
Definition scheme_char_strict (c : N) := is_alpha c || is_digit c || (c =? 43) || (c =? 45).
Definition scheme_char (c : N) := scheme_char_strict c || (c =? 46).

Definition has_scheme_prefix (s : str) : bool :=
  match s with
  | [] => false
  | c :: r =>
      if c =? SLASH then true
      else if is_alpha c then
        match snd (span scheme_char_strict r) with
        | d :: _ => d =? COLON
        | [] => false
        end
      else false
  end.

(* ---------- _URI_RE ---------- *)
Record uri_parts := mkU { u_scheme : option str; u_authority : option str; u_path : str;
                          u_query : option str; u_fragment : option str }.

Definition uri_split (s : str) : uri_parts :=
  let '(sc, r1) :=
    match s with
    | c :: _ =>
        if is_alpha c then
          let '(run, rest) := span scheme_char s in
          match rest with
          | d :: r => if d =? COLON then (Some run, r) else (None, s)
          | [] => (None, s)
          end
        else (None, s)
    | [] => (None, s)
    end in
  let '(au, r2) :=
    match r1 with
    | a :: b :: r =>
        if (a =? SLASH) && (b =? SLASH) then
          let '(x, rest) := span (fun c => negb ((c =? BSLASH) || (c =? SLASH) || (c =? QMARK) || (c =? HASH))) r in
          (Some x, rest)
        else (None, r1)
    | _ => (None, r1)
    end in
  let '(path, r3) := span (fun c => negb ((c =? QMARK) || (c =? HASH))) r2 in
  let '(q, r4) :=
    match r3 with
    | c :: r => if c =? QMARK then let '(x, rest) := span (fun c => negb (c =? HASH)) r in (Some x, rest) else (None, r3)
    | [] => (None, r3)
    end in
  let fr := match r4 with c :: r => if c =? HASH then Some r else None | [] => None end in
  mkU sc au path q fr.

(* ---------- IPv4 / IPv6 / zone recognisers ---------- *)
Fixpoint split_on (d : N) (s : str) (cur : str) : list str :=
  match s with
  | [] => [rev cur]
  | c :: r => if c =? d then rev cur :: split_on d r [] else split_on d r (c :: cur)
  end.
Definition split (d : N) (s : str) : list str := split_on d s [].

Definition digits_1_3 (s : str) : bool :=
  forallb is_digit s && Nat.leb 1 (length s) && Nat.leb (length s) 3.
Definition is_ipv4 (s : str) : bool :=
  match split DOT s with
  | [a; b; c; d] => digits_1_3 a && digits_1_3 b && digits_1_3 c && digits_1_3 d
  | _ => false
  end.
Definition is_h16 (s : str) : bool := forallb is_hex s && Nat.leb 1 (length s) && Nat.leb (length s) 4.

(* groups on one side of "::" (or the whole address): all h16, the last may be an
   IPv4 literal when allowed; returns the number of 16-bit groups *)
Fixpoint count_groups (gs : list str) (allow_v4 : bool) : option nat :=
  match gs with
  | [] => Some O
  | [g] => if is_h16 g then Some 1%nat else if allow_v4 && is_ipv4 g then Some 2%nat else None
  | g :: r => if is_h16 g then option_map S (count_groups r allow_v4) else None
  end.

(* first occurrence of "::" *)
Fixpoint split_dcolon (s : str) (pre : str) : option (str * str) :=
  match s with
  | a :: ((b :: r) as t) => if (a =? COLON) && (b =? COLON) then Some (rev pre, r) else split_dcolon t (a :: pre)
  | _ => None
  end.

Definition is_ipv6 (s : str) : bool :=
  match split_dcolon s [] with
  | None =>
      match count_groups (split COLON s) true with
      | Some n => Nat.eqb n 8
      | None => false
      end
  | Some (l, r) =>
      match (match l with [] => Some O | _ => count_groups (split COLON l) false end),
            (match r with [] => Some O | _ => count_groups (split COLON r) true end) with
      | Some a, Some b => Nat.leb (a + b) 7
      | _, _ => false
      end
  end.

(* (unreserved | %HH)+ *)
Fixpoint zone_units (s : str) : bool :=
  match s with
  | [] => true
  | c :: r =>
      if is_unreserved c then zone_units r
      else if c =? PCT then
        match r with
        | a :: b :: r' => is_hex a && is_hex b && zone_units r'
        | _ => false
        end
      else false
  end.
(* _ZONE_ID_PAT: '%' followed by one or more units *)
Definition is_zone (z : str) : bool :=
  match z with
  | c :: r => (c =? PCT) && negb (Nat.eqb (length r) 0) && zone_units r
  | [] => false
  end.

(* content between the brackets: IPv6 address, optional zone *)
Definition is_ipv6_content (s : str) : bool :=
  let '(addr, z) := span (fun c => negb (c =? PCT)) s in
  is_ipv6 addr && (match z with [] => true | _ => is_zone z end).

(* ^\[ ... \]$  on a string known to end where the regex ends *)
Definition is_ipv6_addrz (s : str) : bool :=
  match s with
  | c :: r =>
      (c =? LBR) &&
      match rev r with
      | d :: inner_rev => (d =? RBR) && is_ipv6_content (rev inner_rev)
      | [] => false
      end
  | [] => false
  end.

(* ---------- _HOST_PORT_RE ---------- *)
(* longest prefix of reg-name units: [^\[\]%:/?#] | %HH *)
Fixpoint regname_span (s : str) : str * str :=
  match s with
  | [] => ([], [])
  | c :: r =>
      if c =? PCT then
        match r with
        | a :: b :: r' =>
            if is_hex a && is_hex b then let '(x, y) := regname_span r' in (c :: a :: b :: x, y) else ([], s)
        | _ => ([], s)
        end
      else if (c =? LBR) || (c =? RBR) || (c =? COLON) || (c =? SLASH) || (c =? QMARK) || (c =? HASH) then ([], s)
      else let '(x, y) := regname_span r in (c :: x, y)
  end.

Fixpoint strip_zeros (s : str) : str :=
  match s with c :: r => if c =? 48 then strip_zeros r else s | [] => [] end.

(* what follows the host: "" | ":" port, each optionally followed by one final newline ($) *)
Definition port_suffix (rest : str) : option (option str) :=
  match rest with
  | [] => Some None
  | c :: r =>
      if c =? COLON then
        let '(d, tail) := span is_digit r in
        if match tail with [] => true | [x] => x =? NL | _ => false end then
          match d with
          | [] => Some (Some [])
          | _ => match strip_zeros d with
                 | [] => Some (Some [48])
                 | z => if Nat.leb (length z) 5 then Some (Some z) else None
                 end
          end
        else None
      else None
  end.

Definition host_port_match (s : str) : option (str * option str) :=
  match s with
  | c :: _ =>
      if c =? LBR then
        (* \[ IPv6 (zone)? \] *)
        let '(inner, rest) := span (fun x => negb (x =? RBR)) (tl s) in
        match rest with
        | d :: after =>
            if is_ipv6_content inner then
              match port_suffix after with
              | Some p => Some (LBR :: inner ++ [RBR], p)
              | None => match after with
                        | [x] => if x =? NL then Some (LBR :: inner ++ [RBR], None) else None
                        | _ => None
                        end
              end
            else None
        | [] => None
        end
      else
        let '(name, rest) := regname_span s in
        match port_suffix rest with
        | Some p => Some (name, p)
        | None => None
        end
  | [] => Some ([], None)
  end.

(* ---------- _encode_invalid_chars ---------- *)
Definition upper_hex (c : N) : N := if (97 <=? c) && (c <=? 102) then c - 32 else c.

(* _PERCENT_RE.subn(upper): returns the rewritten string and the number of escapes *)
Fixpoint upper_escapes (s : str) : str * nat :=
  match s with
  | [] => ([], O)
  | c :: r =>
      match r with
      | a :: b :: r' =>
          if (c =? PCT) && is_hex a && is_hex b
          then let '(x, n) := upper_escapes r' in (c :: upper_hex a :: upper_hex b :: x, S n)
          else let '(x, n) := upper_escapes r in (c :: x, n)
      | _ => let '(x, n) := upper_escapes r in (c :: x, n)
      end
  end.

(* utf-8 with errors='surrogatepass' *)
Definition utf8_cp_sp (c : N) : list N :=
  if c <? 128 then [c]
  else if c <? 2048 then [192 + c / 64; 128 + c mod 64]
  else if c <? 65536 then [224 + c / 4096; 128 + (c / 64) mod 64; 128 + c mod 64]
  else [240 + c / 262144; 128 + (c / 4096) mod 64; 128 + (c / 64) mod 64; 128 + c mod 64].
Definition utf8_sp (s : str) : list N := flat_map utf8_cp_sp s.

Definition hex_digit (n : N) : N := if n <? 10 then 48 + n else 55 + n.
Definition pct_byte (b : N) : str := [PCT; hex_digit (b / 16); hex_digit (b mod 16)].

Definition encode_invalid_chars (allowed : N -> bool) (component : str) : str :=
  let '(comp, n) := upper_escapes component in
  let bytes := utf8_sp comp in
  let is_pct_encoded := Nat.eqb n (length (filter (fun b => b =? PCT) bytes)) in
  flat_map (fun b => if (is_pct_encoded && (b =? PCT)) || ((b <? 128) && allowed b) then [b] else pct_byte b) bytes.

(* ---------- _remove_path_dot_segments ---------- *)
Definition seg_dot (s : str) : bool := str_eqb s [DOT].
Definition seg_dotdot (s : str) : bool := str_eqb s [DOT; DOT].

Fixpoint dot_loop (segs : list str) (out_rev : list str) : list str :=
  match segs with
  | [] => rev out_rev
  | s :: r =>
      if seg_dot s then dot_loop r out_rev
      else if negb (seg_dotdot s) then dot_loop r (s :: out_rev)
      else dot_loop r (tl out_rev)
  end.

Definition ends_with (suf s : str) : bool := starts_with (rev suf) (rev s).

Definition remove_dot_segments (path : str) : str :=
  let out := dot_loop (split SLASH path) [] in
  let out := if starts_with [SLASH] path && (match out with [] => true | x :: _ => negb (Nat.eqb (length x) 0) end)
             then [] :: out else out in
  let out := if ends_with [SLASH; DOT] path || ends_with [SLASH; DOT; DOT] path then out ++ [[]] else out in
  join [SLASH] out.

(* ---------- _normalize_host ---------- *)
Definition is_ascii (s : str) : bool := forallb (fun c => c <? 128) s.

Section WithIdna.
Variable idna_encode : str -> option str.   (* idna.encode(label.lower(), strict=True, std3_rules=True); None = IDNAError *)

Definition normalizable (scheme : option str) : bool :=
  match scheme with
  | None => true
  | Some s => str_eqb s (S!"http") || str_eqb s (S!"https")
  end.

Fixpoint map_opt {A B} (f : A -> option B) (l : list A) : option (list B) :=
  match l with
  | [] => Some []
  | x :: r => match f x, map_opt f r with Some y, Some t => Some (y :: t) | _, _ => None end
  end.

Definition idna_label (label : str) : option str :=
  if is_ascii label then Some (ascii_lower label) else idna_encode label.

(* ^IPV4$ : the `$` also matches before one trailing newline *)
Definition is_ipv4_re (s : str) : bool :=
  is_ipv4 s || match rev s with c :: t => (c =? NL) && is_ipv4 (rev t) | [] => false end.

(* Python str.lower() on the address part: ASCII letters only occur there *)
Definition normalize_host (host : option str) (scheme : option str) : option (option str) :=
  match host with
  | None => Some None
  | Some [] => Some (Some [])
  | Some h =>
      if normalizable scheme then
        if is_ipv6_addrz h then
          let '(addr, z) := span (fun c => negb (c =? PCT)) h in
          match z with
          | [] => Some (Some (ascii_lower h))
          | _ =>
              (* z = '%' zone ']' *)
              let zone_id := removelast z in
              let zid := if starts_with (S!"%25") zone_id && negb (str_eqb zone_id (S!"%25"))
                         then skipn 3 zone_id else skipn 1 zone_id in
              Some (Some (ascii_lower addr ++ [PCT] ++ encode_invalid_chars is_unreserved zid ++ [RBR]))
          end
        else if is_ipv4_re h then Some (Some h)
        else
          match map_opt idna_label (split DOT h) with
          | Some labels => Some (Some (join [DOT] labels))
          | None => None
          end
      else Some (Some h)
  end.

(* ---------- parse_url ---------- *)
Record url := mkUrl { scheme : option str; auth : option str; host : option str; port : option N;
                      path : option str; query : option str; fragment : option str }.

Definition empty_url : url := mkUrl None None None None None None None.

Fixpoint rpartition_at_rev (r : str) (acc : str) : option (str * str) :=
  (* r = reversed string being scanned from the end; acc = suffix collected so far *)
  match r with
  | [] => None
  | c :: t => if c =? AT then Some (rev t, acc) else rpartition_at_rev t (c :: acc)
  end.
(* authority.rpartition('@') -> (auth, host_port) *)
Definition rpartition_at (s : str) : str * str :=
  match rpartition_at_rev (rev s) [] with
  | Some (a, b) => (a, b)
  | None => ([], s)
  end.

Fixpoint N_of_digits (s : str) (acc : N) : N :=
  match s with [] => acc | c :: r => N_of_digits r (acc * 10 + (c - 48)) end.

Definition nonempty (o : option str) : bool := match o with Some (_ :: _) => true | _ => false end.

Definition lower_scheme (s : str) : str := ascii_lower s.

(* authority -> (auth, host, port text); None = no match (AttributeError) *)
Definition parse_authority (normalize_uri : bool) (authority : option str)
  : option (option str * option str * option str) :=
  match authority with
  | Some ((_ :: _) as a) =>
      let '(au, hp) := rpartition_at a in
      match host_port_match hp with
      | None => None
      | Some (h, po) =>
          let au' := match au with [] => None | _ => Some (if normalize_uri then encode_invalid_chars userinfo_char au else au) end in
          let po' := match po with Some [] => None | x => x end in
          Some (au', Some h, po')
      end
  | _ => Some (None, None, None)
  end.

(* int(port) and the range check; None = LocationParseError *)
Definition check_port (po : option str) : option (option N) :=
  match po with
  | Some d => let n := N_of_digits d 0 in if n <=? 65535 then Some (Some n) else None
  | None => Some None
  end.

(* the rules after the try block and Url.__new__ *)
Definition finish_path (pth : str) (q f : option str) : option str :=
  let pth' := match pth with
              | [] => match q, f with None, None => None | _, _ => Some [] end
              | _ => Some pth
              end in
  match pth' with
  | Some ((c :: _) as x) => if c =? SLASH then Some x else Some (SLASH :: x)
  | x => x
  end.

(* None = LocationParseError *)
Definition parse_url (u : str) : option url :=
  match u with
  | [] => Some empty_url
  | _ =>
      let u' := if has_scheme_prefix u then u else [SLASH; SLASH] ++ u in
      let p := uri_split u' in
      let normalize_uri := match u_scheme p with None => true | Some s => normalizable (Some (lower_scheme s)) end in
      let sch := option_map lower_scheme (u_scheme p) in
      match parse_authority normalize_uri (u_authority p) with
      | None => None
      | Some (au, h, po) =>
          match check_port po with
          | None => None
          | Some port_int =>
              match normalize_host h sch with
              | None => None
              | Some h' =>
                  let pth := u_path p in
                  let pth := if normalize_uri && negb (Nat.eqb (length pth) 0)
                             then encode_invalid_chars path_char (remove_dot_segments pth) else pth in
                  let q := if normalize_uri && nonempty (u_query p) then option_map (encode_invalid_chars query_char) (u_query p) else u_query p in
                  let f := if normalize_uri && nonempty (u_fragment p) then option_map (encode_invalid_chars query_char) (u_fragment p) else u_fragment p in
                  Some (mkUrl sch au h' port_int (finish_path pth q f) q f)
              end
          end
      end
  end.
End WithIdna.

(* ---------- Url.url and request_uri ---------- *)
Fixpoint digits_of_fuel (fuel : nat) (n : N) (acc : str) : str :=
  match fuel with
  | O => acc
  | S f => let acc' := (48 + n mod 10) :: acc in if n / 10 =? 0 then acc' else digits_of_fuel f (n / 10) acc'
  end.
Definition str_of_N (n : N) : str := digits_of_fuel (S (N.to_nat (N.size n))) n [].

Definition url_string (u : url) : str :=
  (match scheme u with Some s => s ++ S!"://" | None => [] end) ++
  (match auth u with Some a => a ++ [AT] | None => [] end) ++
  (match host u with Some h => h | None => [] end) ++
  (match port u with Some p => COLON :: str_of_N p | None => [] end) ++
  (match path u with Some p => p | None => [] end) ++
  (match query u with Some q => QMARK :: q | None => [] end) ++
  (match fragment u with Some f => HASH :: f | None => [] end).

Definition request_uri (u : url) : str :=
  (match path u with Some ((_ :: _) as p) => p | _ => [SLASH] end) ++
  (match query u with Some q => QMARK :: q | None => [] end).
