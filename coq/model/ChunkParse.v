(* C13: reading a chunked body that may stop early or be corrupt.

   Modelled code: HTTPResponse.read_chunked, _update_chunk_length, _handle_chunk (response.py) over the byte stream
   left after the headers, ending in EOF; http.client's _safe_read (fewer bytes than asked for: IncompleteRead) and
   BufferedReader.readline; Python's int(line, 16) as far as it decides whether a size line is accepted.
   The content decoder is not part of this model (C12's model has it); pieces are the raw chunk data. *)
From Coq Require Import List NArith ZArith Arith Bool.
From V Require Import model.Framing.
Import ListNotations.
Local Open Scope N_scope.

(* fp.readline(): up to and including the first LF, or everything *)
Fixpoint readline (w : list N) : list N * list N :=
  match w with
  | [] => ([], [])
  | c :: r => if c =? 10 then ([c], r) else let '(l, rest) := readline r in (c :: l, rest)
  end.

(* line.split(b";", 1)[0] *)
Fixpoint before_semi (l : list N) : list N :=
  match l with [] => [] | c :: r => if c =? 59 then [] else c :: before_semi r end.

(* ---------- int(line, 16) ---------- *)
Definition is_space (c : N) : bool := (c =? 32) || ((9 <=? c) && (c <=? 13)).
Fixpoint lstrip (l : list N) : list N := match l with c :: r => if is_space c then lstrip r else l | [] => [] end.
Definition strip (l : list N) : list N := rev (lstrip (rev (lstrip l))).

Definition hexval (c : N) : option N :=
  if (48 <=? c) && (c <=? 57) then Some (c - 48)
  else if (97 <=? c) && (c <=? 102) then Some (c - 87)
  else if (65 <=? c) && (c <=? 70) then Some (c - 55)
  else None.

(* digits with single underscores between them; `may_us`: an underscore may come next *)
Fixpoint digits (l : list N) (acc : N) (seen may_us : bool) : option N :=
  match l with
  | [] => if seen && may_us then Some acc else None        (* must end on a digit *)
  | c :: r =>
      if c =? 95 then (if may_us then digits r acc seen false else None)
      else match hexval c with
           | Some d => digits r (16 * acc + d) true true
           | None => None
           end
  end.

Definition py_int16 (line : list N) : option Z :=
  let s := strip line in
  let neg := match s with c :: _ => c =? 45 | [] => false end in
  let signed := match s with c :: _ => (c =? 45) || (c =? 43) | [] => false end in
  let s1 := if signed then tl s else s in
  let prefixed := match s1 with c :: x :: _ => (c =? 48) && ((x =? 120) || (x =? 88)) | _ => false end in
  let body := if prefixed then digits (tl (tl s1)) 0 false true      (* 0x prefix: an underscore may follow it *)
              else digits s1 0 false false in
  match body with
  | Some v => Some (if neg then (- Z.of_N v)%Z else Z.of_N v)
  | None => None
  end.

(* ---------- the reader ---------- *)
Inductive outcome :=
| Complete                 (* the zero-size chunk was seen: normal end of body *)
| InvalidChunk             (* InvalidChunkLength *)
| Premature                (* "Response ended prematurely" *)
| Incomplete               (* http.client.IncompleteRead from _safe_read *)
| Negative.                (* a negative size was accepted (not explored further) *)

(* _safe_read(k): exactly k bytes or failure *)
Definition safe_read (w : list N) (k : nat) : option (list N * list N) :=
  if Nat.ltb (length w) k then None else Some (firstn k w, skipn k w).

(* one chunk's data, cut into pieces of at most amt: the pieces read, and what is left (None: a read fell short) *)
Fixpoint chunk_data (fuel : nat) (w : list N) (left : nat) (amt : option nat) : list (list N) * option (list N) :=
  match fuel with
  | O => ([], None)
  | S f =>
      let take := match amt with
                  | None => left
                  | Some a => if Nat.ltb a left then Nat.max a 1 else left
                  end in
      match safe_read w take with
      | None => ([], None)
      | Some (piece, w1) =>
          if Nat.eqb take left then
            match safe_read w1 2 with              (* the CRLF after the chunk: tossed, not looked at *)
            | Some (_, w2) => ([piece], Some w2)
            | None => ([], None)                   (* the piece is lost with the exception *)
            end
          else let '(ps, r) := chunk_data f w1 (left - take) amt in (piece :: ps, r)
      end
  end.

(* read_chunked(amt) on the bytes w followed by EOF: the pieces yielded before it ended, and how it ended *)
Fixpoint read_chunked (fuel : nat) (w : list N) (amt : option nat) : list (list N) * outcome :=
  match fuel with
  | O => ([], Incomplete)
  | S f =>
      let '(line, w1) := readline w in
      let sz := before_semi line in
      match py_int16 sz with
      | None => ([], match sz with [] => Premature | _ => InvalidChunk end)
      | Some z =>
          match z with
          | Z0 => ([], Complete)
          | Zneg _ => ([], Negative)
          | Zpos p =>
              (* a size larger than everything that is left behaves like "everything left + 3": the same reads succeed and
                 the same read falls short (keeps the model's numbers small when a corrupt line announces gigabytes) *)
              let left := N.to_nat (N.min (Npos p) (N.of_nat (length w1) + 3)) in
              match chunk_data (S left) w1 left amt with
              | (ps, None) => (ps, Incomplete)
              | (ps, Some w2) => let '(more, o) := read_chunked f w2 amt in (ps ++ more, o)
              end
          end
      end
  end.

(* ---------- the sender's encoding, for the statements (hexadecimal sizes as in Framing.v) ---------- *)
Definition enc_chunk (ext : list N) (c : list N) : list N := to_hex (N.of_nat (length c)) ++ ext ++ CRLF ++ c ++ CRLF.
Definition enc_chunked (ext : list N) (cs : list (list N)) : list N := concat (map (enc_chunk ext) cs) ++ last_chunk.
