(* An independent RFC 3986 reading of the authority: it ends at the first
   '/', '?', '#' or backslash; the host follows the LAST '@'; the port follows
   the LAST ':' outside brackets. *)
From Coq Require Import String List NArith Bool.
From V Require Import lib.PyStr model.Url.
Import ListNotations.
Local Open Scope N_scope.

(* split at the last occurrence of d: (before, after) *)
Fixpoint rsplit_rev (d : N) (r : str) (acc : str) : option (str * str) :=
  match r with
  | [] => None
  | c :: t => if c =? d then Some (rev t, acc) else rsplit_rev d t (c :: acc)
  end.
Definition rsplit (d : N) (s : str) : option (str * str) := rsplit_rev d (rev s) [].

(* host and port TEXT of "host[:port]" *)
Definition ref_hostport (hp : str) : option (str * option str) :=
  match hp with
  | [] => Some ([], None)
  | c :: r =>
      if c =? LBR then
        let '(inner, rest) := span (fun x => negb (x =? RBR)) r in
        match rest with
        | [] => None
        | _ :: after =>
            match after with
            | [] => Some (LBR :: inner ++ [RBR], None)
            | d :: p => if d =? COLON then Some (LBR :: inner ++ [RBR], Some p) else None
            end
        end
      else
        match rsplit COLON hp with
        | Some (h, p) => Some (h, Some p)
        | None => Some (hp, None)
        end
  end.

(* userinfo (text before the last '@', None when there is no '@') and host:port *)
Definition ref_userinfo_hostport (authority : str) : option str * str :=
  match rsplit AT authority with
  | Some (u, hp) => (Some u, hp)
  | None => (None, authority)
  end.
