(* C09: which messages a ProxyManager puts on the wire, on which connection, inside how many TLS layers.

   Modelled code: util/proxy.py connection_requires_http_tunnel; ProxyManager.connection_from_host / urlopen /
   _set_proxy_headers; HTTPSConnectionPool._prepare_proxy (set_tunnel with the proxy headers); HTTPSConnection.connect's
   order (TLS to an https proxy, CONNECT, TLS to the origin); the error wrapping of HTTPConnectionPool.urlopen
   (ProxyError while the proxy has not been reached / the tunnel is not up, SSLError for the origin's certificate) and
   Retry's handling of both; connection reuse and the dropped-connection check at checkout.
   TLS itself and http.client's _tunnel are below the model: a certificate is good or bad, a CONNECT is answered by a
   status (0 = not HTTP at all). *)
From Coq Require Import List Arith Bool.
Import ListNotations.

Record config := mkCfg {
  c_proxy_https : bool;          (* the proxy URL's scheme *)
  c_dest_https : bool;           (* the destination's scheme *)
  c_forwarding : bool;           (* use_forwarding_for_https *)
  c_proxy_ok : bool;             (* the proxy's certificate passes verification *)
  c_origin_ok : bool;            (* the origin's certificate passes verification (name = destination host) *)
  c_retries : option nat         (* None: retries=False; Some n: Retry(n) *)
}.

(* connection_requires_http_tunnel(proxy_url, proxy_config, destination_scheme), with a proxy configured *)
Definition tunnel_required (c : config) : bool :=
  if negb (c_dest_https c) then false
  else if c_proxy_https c && c_forwarding c then false
  else true.

Inductive kind := KConnect | KOrigin (i : nat) | KAbsolute (i : nat).   (* CONNECT host:port / GET /res<i> / GET scheme://host/res<i> *)

Record msg := mkMsg {
  m_conn : nat;                  (* which connection (sockets are numbered as they are created) *)
  m_layers : nat;                (* TLS layers around the bytes *)
  m_kind : kind;
  m_proxy_headers : bool;        (* carries the proxy_headers (Proxy-Authorization, ...) *)
  m_request_headers : bool;      (* carries the caller's request headers *)
  m_tunnelled : bool             (* written after a successful CONNECT on this connection *)
}.

Inductive outcome :=
| Ok
| ProxyErr (ssl : bool) (garbage : bool)   (* ProxyError wrapping SSLError / BadStatusLine / OSError *)
| SslErr
| MaxRetry (proxy : bool).                 (* MaxRetryError whose reason is ProxyError / SSLError *)

Record state := mkState {
  s_open : option (nat * nat * bool);    (* the pooled connection: id, layers, tunnelled *)
  s_next : nat;                          (* sockets created so far *)
  s_connects : list nat;                 (* answers to the coming CONNECTs (exhausted: 200) *)
  s_responses : nat;                     (* responses served so far *)
  s_log : list msg                       (* newest first *)
}.

Inductive attempt_result := ADone (st : state) | AFail (st : state) (o : outcome).

(* one attempt of request i; close_after tells, per response, whether the server closes afterwards *)
Definition attempt (c : config) (close_after : list bool) (st : state) (i : nat) : attempt_result :=
  let tunnel := tunnel_required c in
  (* obtain a usable connection *)
  let established :=
    match s_open st with
    | Some conn => inl (conn, st)
    | None =>
        let id := s_next st in
        let st1 := mkState None (S id) (s_connects st) (s_responses st) (s_log st) in
        if c_proxy_https c && negb (c_proxy_ok c) then inr (AFail st1 (ProxyErr true false))
        else
          let layers := if c_proxy_https c then 1 else 0 in
          if tunnel then
            let st2 := mkState None (S id) (tl (s_connects st)) (s_responses st)
                               (mkMsg id layers KConnect true false false :: s_log st) in
            let answer := hd 200 (s_connects st) in
            if Nat.eqb answer 200 then (if c_origin_ok c then inl ((id, S layers, true), st2) else inr (AFail st2 SslErr))
            else if Nat.eqb answer 0 then inr (AFail st2 (ProxyErr false true))
            else inr (AFail st2 (ProxyErr false false))
          else inl ((id, layers, false), st1)
    end in
  match established with
  | inr r => r
  | inl ((id, layers, tunnelled), st1) =>
      let m := if tunnelled then mkMsg id layers (KOrigin i) false true true
               else mkMsg id layers (KAbsolute i) true true false in
      let closes := nth (s_responses st1) close_after false in
      ADone (mkState (if closes then None else Some (id, layers, tunnelled)) (s_next st1) (s_connects st1)
                     (S (s_responses st1)) (m :: s_log st1))
  end.

(* a request: attempts until one succeeds or the Retry object is used up *)
Fixpoint request (c : config) (close_after : list bool) (fuel : nat) (st : state) (i : nat) : state * outcome :=
  match attempt c close_after st i with
  | ADone st1 => (st1, Ok)
  | AFail st1 o =>
      match fuel with
      | S f => request c close_after f st1 i
      | O => (st1, match c_retries c with
                   | None => o
                   | Some _ => MaxRetry (match o with ProxyErr _ _ => true | _ => false end)
                   end)
      end
  end.

Fixpoint requests (c : config) (close_after : list bool) (st : state) (i n : nat) : state * list outcome :=
  match n with
  | O => (st, [])
  | S n' =>
      let '(st1, o) := request c close_after (match c_retries c with Some k => k | None => 0 end) st i in
      let '(st2, os) := requests c close_after st1 (S i) n' in
      (st2, o :: os)
  end.

Definition run (c : config) (connects : list nat) (close_after : list bool) (n : nat) : list msg * list outcome :=
  let '(st, os) := requests c close_after (mkState None 0 connects 0 []) 0 n in
  (rev (s_log st), os).
