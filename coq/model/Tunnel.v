(* Model of the CONNECT request a proxy is made to read - HTTPConnection.set_tunnel (src/urllib3/connection.py) and, below it,
   http.client.HTTPConnection.set_tunnel/_tunnel of CPython 3.12 - and of the HTTP/2 header checks of
   src/urllib3/http2/connection.py (putheader, _is_legal_header_name, _is_illegal_header_value).  Part of C10. *)
From Coq Require Import String List NArith Bool.
From V Require Import lib.PyStr model.Url model.ReqHead.
Import ListNotations.
Local Open Scope N_scope.

Definition memN (c : N) (l : list N) : bool := existsb (N.eqb c) l.
Definition is_nil {A} (l : list A) : bool := match l with [] => true | _ => false end.

Section Tunnel.
  Variable validate : bool.        (* gen: tunnel_validates - set_tunnel checks the host and every header before it keeps them *)
  Variable bad_host : list N.      (* gen: tunnel_host_illegal_chars *)
  Variable token : list N.         (* gen: method_allowed_chars, the complement class of _CONTAINS_CONTROL_CHAR_RE *)
  Variable bad_value : list N.     (* gen: tunnel_value_illegal_chars *)

  Definition host_ok (h : str) : bool := forallb (fun c => negb (memN c bad_host)) h.
  Definition name_ok (n : str) : bool := negb (is_nil n) && forallb (fun c => memN c token) n.
  Definition value_ok (v : str) : bool := forallb (fun c => negb (memN c bad_value)) v.

  Definition CONNECT : str := str_of_string "CONNECT".
  Definition authority (h : str) (port : N) : str := h ++ [COLONc] ++ str_of_N port.

  (* http.client.set_tunnel: a Host field for the tunnel target unless the caller's headers have one (any casing) *)
  Definition tunnel_fields (h : str) (port : N) (hs : list (str * str)) : list (str * str) :=
    hs ++ (if has_key "host" hs then [] else [(HOST, authority h port)]).

  (* h: the pool's _tunnel_host (an ASCII reg-name or IPv4 literal here; IDNA and bracketed IPv6 are outside the model) *)
  Definition connect_head (h : str) (port : N) (hs : list (str * str)) : list N + err :=
    if validate && negb (host_ok h) then inr EMethod
    else if validate && negb (forallb (fun nv => name_ok (fst nv)) hs) then inr EName
    else if validate && negb (forallb (fun nv => value_ok (snd nv)) hs) then inr EValue
    else if negb (ascii h) then inr EAscii
    else if negb (forallb (fun nv => latin1 (fst nv) && latin1 (snd nv)) hs) then inr EAscii
    else inl ((CONNECT ++ [SPc] ++ authority h port ++ [SPc] ++ V11) ++ CRLF ++
              concat (map (fun nv => line (fst nv) (snd nv) ++ CRLF) (tunnel_fields h port hs)) ++ CRLF).
End Tunnel.

Section H2.
  Variable anchored : bool.        (* gen: h2_name_anchored - the name pattern ends with \Z (true) or with $ (false: a final LF is skipped) *)
  Variable chars : list N.         (* gen: h2_name_chars *)

  Definition strip_final_lf (s : str) : str := match rev s with c :: r => if c =? LF then rev r else s | [] => s end.

  (* putheader: the name is encoded (code points above 127 become bytes above 127), lower-cased as bytes, then matched *)
  Definition h2_name_ok (n : str) : bool :=
    let l := ascii_lower n in
    let core := if anchored then l else strip_final_lf l in
    negb (is_nil core) && forallb (fun c => memN c chars) core.

  (* RE_IS_ILLEGAL_HEADER_VALUE = [\0\n\r] | ^[ \r\n\t] | [ \r\n\t]$ (search) *)
  Definition h2_value_ok (v : str) : bool :=
    forallb (fun c => negb ((c =? 0) || (c =? LF) || (c =? CR))) v
    && match v with c :: _ => negb (is_spht c) | [] => true end
    && match rev v with c :: _ => negb (is_spht c) | [] => true end.

  (* what putheader keeps (the lower-cased name), or None for ValueError *)
  Definition h2_putheader (n v : str) : option str :=
    if h2_name_ok n && h2_value_ok v then Some (ascii_lower n) else None.
End H2.
