(* Model of urllib3.util.retry.Retry (counters, policy, increment, is_retry,
   is_exhausted, back-off) and of the exception classification that feeds it.
   Exception classes are names; isinstance is computed on the class lattice
   regenerated from the source (gen/Gen_Exc.v). *)
From Coq Require Import String List NArith ZArith QArith Qminmax Bool.
From V Require Import lib.PyStr.
Import ListNotations.
Local Open Scope Z_scope.

(* ---------- exceptions ---------- *)
Definition lattice := list (str * list str).

Fixpoint ancestors_of (l : lattice) (cls : str) : list str :=
  match l with
  | [] => [cls]
  | (c, a) :: r => if str_eqb c cls then a else ancestors_of r cls
  end.

Definition isinstance (l : lattice) (cls : str) (targets : list str) : bool :=
  existsb (fun t => mem_str t (ancestors_of l cls)) targets.

(* an exception value: its class and, for wrappers (ProxyError, ProtocolError,
   SSLError, MaxRetryError), the class of the wrapped error *)
Record exn := mkExn { e_cls : str; e_inner : option str }.

(* ---------- counters ---------- *)
Inductive count := CFalse | CNone | CInt (z : Z).

Definition truthy (c : count) : bool := match c with CInt z => negb (z =? 0) | _ => false end.
Definition negative (c : count) : bool := match c with CInt z => z <? 0 | _ => false end.
Definition dec (c : count) : count :=
  match c with CNone => CNone | CFalse => CInt (-1) | CInt z => CInt (z - 1) end.
Definition is_false (c : count) : bool := match c with CFalse => true | _ => false end.

(* one history entry: did it carry a redirect location? *)
Record retry := mkRetry {
  r_total : count; r_connect : count; r_read : count; r_redirect : count; r_status : count; r_other : count;
  r_allowed : option (list str);          (* None: allowed_methods is falsy -> every method is retryable *)
  r_forcelist : list Z;
  r_raise_on_redirect : bool; r_raise_on_status : bool; r_respect_retry_after : bool;
  r_backoff_factor : Q; r_backoff_max : Q;
  r_history : list bool;                  (* per entry: redirect_location is not None; newest last *)
  r_remove_headers : list str             (* lower-cased *)
}.

(* Retry.__init__: `if redirect is False or total is False: redirect = 0; raise_on_redirect = False` *)
Definition init (total connect read redirect status other : count) (allowed : option (list str)) (forcelist : list Z)
           (raise_on_redirect raise_on_status respect : bool) (bf bmax : Q) (history : list bool) (rm : list str) : retry :=
  let off := is_false redirect || is_false total in
  mkRetry total connect read (if off then CInt 0 else redirect) status other allowed forcelist
          (if off then false else raise_on_redirect) raise_on_status respect bf bmax history (map ascii_lower rm).

(* Retry.new(kw): goes through __init__ again *)
Definition renew (r : retry) (total connect read redirect status other : count) (history : list bool) : retry :=
  init total connect read redirect status other (r_allowed r) (r_forcelist r)
       (r_raise_on_redirect r) (r_raise_on_status r) (r_respect_retry_after r)
       (r_backoff_factor r) (r_backoff_max r) history (r_remove_headers r).

Definition counts (r : retry) : list count :=
  [r_total r; r_connect r; r_read r; r_redirect r; r_status r; r_other r].

(* min(truthy counts) < 0 *)
Definition is_exhausted (r : retry) : bool := existsb (fun c => truthy c && negative c) (counts r).

Definition upper (s : str) : str := ascii_upper s.
Definition method_retryable (r : retry) (method : str) : bool :=
  match r_allowed r with
  | Some ((_ :: _) as l) => mem_str (upper method) l
  | _ => true
  end.

Section WithLattice.
Variable L : lattice.
Variable conn_err_classes : list str.     (* Gen_Urlopen.retry_connection_error *)
Variable read_err_classes : list str.     (* Gen_Urlopen.retry_read_error *)
Variable retry_after_codes : list Z.      (* Gen_Retry.retry_after_status_codes *)

Definition PROXY_ERROR : str := S!"ProxyError".

(* Retry._is_connection_error: a ProxyError is judged by its original error *)
Definition is_connection_error (e : exn) : bool :=
  let cls := if isinstance L (e_cls e) [PROXY_ERROR]
             then match e_inner e with Some c => c | None => e_cls e end
             else e_cls e in
  isinstance L cls conn_err_classes.
Definition is_read_error (e : exn) : bool := isinstance L (e_cls e) read_err_classes.

Definition is_retry (r : retry) (method : str) (status : Z) (has_retry_after : bool) : bool :=
  if negb (method_retryable r method) then false
  else if existsb (Z.eqb status) (r_forcelist r) then true
  else truthy (r_total r) && r_respect_retry_after r && has_retry_after && existsb (Z.eqb status) retry_after_codes.

Inductive inc_input :=
| IError (e : exn)
| IResponse (status : Z) (has_location : bool).

Inductive inc_result :=
| IOk (r : retry)
| IReraise                              (* the error passed in is re-raised *)
| IMaxRetry (cause_is_error : bool).    (* MaxRetryError(reason = the error, or a ResponseError) *)

Definition decn (c : count) : count := match c with CNone => CNone | x => dec x end.

(* the tail of increment: build the new Retry, raise MaxRetryError when it is exhausted *)
Definition finish (r : retry) (total connect read redirect status other : count) (loc is_err : bool) : inc_result :=
  let nr := renew r total connect read redirect status other (r_history r ++ [loc]) in
  if is_exhausted nr then IMaxRetry is_err else IOk nr.

Definition increment (r : retry) (method : str) (i : inc_input) : inc_result :=
  match i, r_total r with
  | IError _, CFalse => IReraise
  | _, _ =>
      let total := dec (r_total r) in
      match i with
      | IError e =>
          if is_connection_error e then
            match r_connect r with
            | CFalse => IReraise
            | c => finish r total (decn c) (r_read r) (r_redirect r) (r_status r) (r_other r) false true
            end
          else if is_read_error e then
            if is_false (r_read r) || negb (method_retryable r method) then IReraise
            else finish r total (r_connect r) (decn (r_read r)) (r_redirect r) (r_status r) (r_other r) false true
          else
            finish r total (r_connect r) (r_read r) (r_redirect r) (r_status r) (decn (r_other r)) false true
      | IResponse status has_loc =>
          if has_loc then
            finish r total (r_connect r) (r_read r) (decn (r_redirect r)) (r_status r) (r_other r) true false
          else
            finish r total (r_connect r) (r_read r) (r_redirect r)
                   (if status =? 0 then r_status r else decn (r_status r)) (r_other r) false false
      end
  end.
End WithLattice.

(* ---------- back-off ---------- *)
Fixpoint trailing_errors (h_rev : list bool) : nat :=
  match h_rev with
  | false :: r => S (trailing_errors r)
  | _ => O
  end.

Fixpoint pow2 (n : nat) : Q := match n with O => 1%Q | S k => (2 * pow2 k)%Q end.

(* get_backoff_time with a jitter contribution j (= random.random() * backoff_jitter, 0 when jitter is 0) *)
Definition backoff_time (r : retry) (j : Q) : Q :=
  let n := trailing_errors (rev (r_history r)) in
  match n with
  | O | S O => 0%Q
  | S k => Qmax 0 (Qmin (r_backoff_max r) (r_backoff_factor r * pow2 k + j))
  end.

(* Retry.from_int *)
Inductive retries_arg := RNone | RFalse | RInt (z : Z) | RObj (r : retry).

Definition default_retry (total : Z) (bmax : Q) (allowed : list str) (rm : list str) : retry :=
  init (CInt total) CNone CNone CNone CNone CNone (Some allowed) [] true true true 0%Q bmax [] rm.

Definition from_int (arg : retries_arg) (redirect : bool) (dflt : option retry)
           (lib_default : retry) (bmax : Q) (allowed : list str) (rm : list str) : retry :=
  let mk (t : count) := init t CNone CNone (if redirect then CNone else CFalse) CNone CNone (Some allowed) [] true true true 0%Q bmax [] rm in
  match arg with
  | RNone => match dflt with Some d => d | None => lib_default end
  | RObj r => r
  | RFalse => mk CFalse
  | RInt z => mk (CInt z)
  end.
