(* Model of urllib3._collections.HTTPHeaderDict (src/urllib3/_collections.py)
   and of the MutableMapping mixins it inherits (CPython 3.12
   Lib/_collections_abc.py).  Definitions only; proofs live in proofs/.

   _container : dict  lower(name) -> [name, v1, v2, ...]   is the insertion
   ordered association list  list (key * (name * vals)). *)
From Coq Require Import String List NArith Bool.
From V Require Import lib.PyStr.
Import ListNotations.


Section HD.
Variable lower : str -> str.

Record entry := mkE { e_key : str; e_name : str; e_vals : list str }.
Definition hd := list entry.

(* ---- dict primitives on the container ---- *)
Fixpoint find (k : str) (d : hd) : option entry :=
  match d with
  | [] => None
  | e :: r => if str_eqb k (e_key e) then Some e else find k r
  end.

(* d[k] = [name, *vals] : existing key keeps its position *)
Fixpoint set_entry (k name : str) (vals : list str) (d : hd) : hd :=
  match d with
  | [] => [mkE k name vals]
  | e :: r => if str_eqb k (e_key e) then mkE k name vals :: r
              else e :: set_entry k name vals r
  end.

Fixpoint remove (k : str) (d : hd) : hd :=
  match d with
  | [] => []
  | e :: r => if str_eqb k (e_key e) then r else e :: remove k r
  end.

Definition comma_sp : str := [44; 32]%N.

(* ---- HTTPHeaderDict methods ---- *)
Definition setitem (key val : str) (d : hd) : hd := set_entry (lower key) key [val] d.

Definition getitem (key : str) (d : hd) : option str :=
  match find (lower key) d with
  | Some e => Some (join comma_sp (e_vals e))
  | None => None
  end.

Definition delitem (key : str) (d : hd) : option hd :=
  match find (lower key) d with
  | Some _ => Some (remove (lower key) d)
  | None => None
  end.

Definition contains (key : str) (d : hd) : bool :=
  match find (lower key) d with Some _ => true | None => false end.

Definition discard (key : str) (d : hd) : hd :=
  match delitem key d with Some d' => d' | None => d end.

Fixpoint combine_last (vals : list str) (val : str) : list str :=
  match vals with
  | [] => []                       (* unreachable: assert len(vals) >= 2 *)
  | [x] => [x ++ comma_sp ++ val]
  | x :: r => x :: combine_last r val
  end.

Definition add (key val : str) (combine : bool) (d : hd) : hd :=
  match find (lower key) d with
  | None => d ++ [mkE (lower key) key [val]]
  | Some e =>
      set_entry (lower key) (e_name e)
        (if combine then combine_last (e_vals e) val else e_vals e ++ [val]) d
  end.

Definition getlist (key : str) (d : hd) : list str :=
  match find (lower key) d with Some e => e_vals e | None => [] end.

(* __iter__ : the stored names *)
Definition names (d : hd) : list str := map e_name d.

(* iteritems: for key in self: vals = self._container[key.lower()] ...
   (a KeyError here would be an internal error; the invariant excludes it) *)
Definition iteritems (d : hd) : option (list (str * str)) :=
  fold_right (fun n acc =>
    match acc, find (lower n) d with
    | Some acc', Some e => Some (map (fun v => (e_name e, v)) (e_vals e) ++ acc')
    | _, _ => None
    end) (Some []) (names d).

Definition itermerged (d : hd) : option (list (str * str)) :=
  fold_right (fun n acc =>
    match acc, find (lower n) d with
    | Some acc', Some e => Some ((e_name e, join comma_sp (e_vals e)) :: acc')
    | _, _ => None
    end) (Some []) (names d).

Definition add_all (l : list (str * str)) (d : hd) : hd :=
  fold_left (fun d kv => add (fst kv) (snd kv) false d) l d.

(* _copy_from(other): for key in other: self._container[key.lower()] = [key, *other.getlist(key)] *)
Definition copy_from (other : hd) (d : hd) : hd :=
  fold_left (fun d n => set_entry (lower n) n (getlist n other) d) (names other) d.

Definition copy (d : hd) : hd := copy_from d [].

(* a plain dict built from pairs: later duplicates overwrite, position kept *)
Fixpoint pd_set (k v : str) (d : list (str * str)) : list (str * str) :=
  match d with
  | [] => [(k, v)]
  | (k', v') :: r => if str_eqb k k' then (k, v) :: r else (k', v') :: pd_set k v r
  end.
Definition dict_of_pairs (l : list (str * str)) : list (str * str) :=
  fold_left (fun d kv => pd_set (fst kv) (snd kv) d) l [].
Fixpoint pd_get (k : str) (d : list (str * str)) : option str :=
  match d with
  | [] => None
  | (k', v) :: r => if str_eqb k k' then Some v else pd_get k r
  end.

(* __eq__: {k.lower(): v for k, v in self.itermerged()} == {... other ...} *)
Definition merged_dict (d : hd) : option (list (str * str)) :=
  match itermerged d with
  | Some l => Some (dict_of_pairs (map (fun kv => (lower (fst kv), snd kv)) l))
  | None => None
  end.
Definition pd_sub (a b : list (str * str)) : bool :=
  forallb (fun kv => match pd_get (fst kv) b with
                     | Some v => str_eqb v (snd kv) | None => false end) a.
Definition hd_eq (a b : hd) : option bool :=
  match merged_dict a, merged_dict b with
  | Some x, Some y => Some (pd_sub x y && pd_sub y x)
  | _, _ => None
  end.

(* ---- sources accepted by extend / update / | ---- *)
Inductive src :=
| SrcPairs (l : list (str * str))       (* iterable of pairs *)
| SrcDict (l : list (str * str))        (* dict(l) : a Mapping *)
| SrcHD (o : nat).                      (* another HTTPHeaderDict in the store *)

Definition store := list hd.
Definition get_obj (st : store) (o : nat) : hd := nth o st [].
Fixpoint set_obj (st : store) (o : nat) (d : hd) : store :=
  match st, o with
  | [], _ => []
  | _ :: r, O => d :: r
  | x :: r, S o' => x :: set_obj r o' d
  end.

(* extend(other): add every line; for an HTTPHeaderDict the lines of iteritems *)
Definition extend (st : store) (s : src) (d : hd) : option hd :=
  match s with
  | SrcPairs l => Some (add_all l d)
  | SrcDict l => Some (add_all (dict_of_pairs l) d)
  | SrcHD o => match iteritems (get_obj st o) with
               | Some l => Some (add_all l d)
               | None => None
               end
  end.

(* HTTPHeaderDict(source) *)
Definition construct (st : store) (s : src) : option hd :=
  match s with
  | SrcHD o => Some (copy_from (get_obj st o) [])
  | _ => extend st s []
  end.

(* MutableMapping.update(other): Mapping -> for key in other: self[key] = other[key];
   otherwise for key, value in other: self[key] = value *)
Definition set_all (l : list (str * str)) (d : hd) : hd :=
  fold_left (fun d kv => setitem (fst kv) (snd kv) d) l d.
Definition update (st : store) (s : src) (d : hd) : option hd :=
  match s with
  | SrcPairs l => Some (set_all l d)
  | SrcDict l => Some (set_all (dict_of_pairs l) d)
  | SrcHD o =>
      let other := get_obj st o in
      fold_left (fun acc n =>
        match acc, getitem n other with
        | Some d', Some v => Some (setitem n v d')
        | _, _ => None
        end) (names other) (Some d)
  end.

(* MutableMapping.popitem: key = next(iter(self)); value = self[key]; del self[key] *)
Definition popitem (d : hd) : option (str * str * hd) :=
  match names d with
  | [] => None                                  (* KeyError *)
  | n :: _ =>
      match getitem n d, delitem n d with
      | Some v, Some d' => Some (n, v, d')
      | _, _ => None
      end
  end.

(* MutableMapping.clear: popitem until KeyError.  Fuel = number of entries,
   each popitem removes one. *)
Fixpoint clear_go (fuel : nat) (d : hd) : hd :=
  match fuel with
  | O => d
  | S f => match popitem d with
           | Some (_, _, d') => clear_go f d'
           | None => d
           end
  end.
Definition clear (d : hd) : hd := clear_go (length d) d.

Definition content_specific_headers : list str :=
  [ S!"Content-Encoding"; S!"Content-Language"; S!"Content-Location";
    S!"Content-Type"; S!"Content-Length"; S!"Transfer-Encoding"; S!"Digest"; S!"Last-Modified" ].
Definition prepare_for_method_change (d : hd) : hd :=
  fold_left (fun d h => discard h d) content_specific_headers d.

(* ---- operations on a store of objects ---- *)
Inductive op :=
| OSet (o : nat) (k v : str)
| ODel (o : nat) (k : str)
| OAdd (o : nat) (k v : str) (combine : bool)
| OExtend (o : nat) (s : src)
| OUpdate (o : nat) (s : src)
| OSetDefault (o : nat) (k v : str)
| OPop (o : nat) (k : str) (default : option str)
| OPopItem (o : nat)
| ODiscard (o : nat) (k : str)
| OClear (o : nat)
| OCopy (o : nat)
| ONew (s : src)
| OOr (o : nat) (s : src)
| OIor (o : nat) (s : src)
| ORor (o : nat) (s : src)
| OPrepare (o : nat).

Inductive res :=
| RNone | RStr (s : str) | RPair (k v : str) | RKeyError | RNew (id : nat) | RInternal.

Definition step (st : store) (p : op) : store * res :=
  match p with
  | OSet o k v => (set_obj st o (setitem k v (get_obj st o)), RNone)
  | ODel o k =>
      match delitem k (get_obj st o) with
      | Some d' => (set_obj st o d', RNone)
      | None => (st, RKeyError)
      end
  | OAdd o k v c => (set_obj st o (add k v c (get_obj st o)), RNone)
  | OExtend o s | OIor o s =>
      match extend st s (get_obj st o) with
      | Some d' => (set_obj st o d', RNone)
      | None => (st, RInternal)
      end
  | OUpdate o s =>
      match update st s (get_obj st o) with
      | Some d' => (set_obj st o d', RNone)
      | None => (st, RInternal)
      end
  | OSetDefault o k v =>
      match getitem k (get_obj st o) with
      | Some x => (st, RStr x)
      | None => (set_obj st o (setitem k v (get_obj st o)), RStr v)
      end
  | OPop o k dflt =>
      match getitem k (get_obj st o) with
      | Some x => (set_obj st o (discard k (get_obj st o)), RStr x)
      | None => match dflt with Some x => (st, RStr x) | None => (st, RKeyError) end
      end
  | OPopItem o =>
      match names (get_obj st o) with
      | [] => (st, RKeyError)
      | _ => match popitem (get_obj st o) with
             | Some (n, v, d') => (set_obj st o d', RPair n v)
             | None => (st, RInternal)
             end
      end
  | ODiscard o k => (set_obj st o (discard k (get_obj st o)), RNone)
  | OClear o => (set_obj st o (clear (get_obj st o)), RNone)
  | OCopy o => (st ++ [copy (get_obj st o)], RNew (length st))
  | ONew s =>
      match construct st s with
      | Some d => (st ++ [d], RNew (length st))
      | None => (st, RInternal)
      end
  | OOr o s =>
      match extend st s (copy (get_obj st o)) with
      | Some d => (st ++ [d], RNew (length st))
      | None => (st, RInternal)
      end
  | ORor o s =>
      match construct st s with
      | Some d0 => match extend st (SrcHD o) d0 with
                   | Some d => (st ++ [d], RNew (length st))
                   | None => (st, RInternal)
                   end
      | None => (st, RInternal)
      end
  | OPrepare o => (set_obj st o (prepare_for_method_change (get_obj st o)), RNone)
  end.

Definition run_ops (ops : list op) (st : store) : store :=
  fold_left (fun st p => fst (step st p)) ops st.

(* final store and the result of every operation *)
Fixpoint run_trace (ops : list op) (st : store) : store * list res :=
  match ops with
  | [] => (st, [])
  | p :: r => let '(st', x) := step st p in
              let '(st'', xs) := run_trace r st' in (st'', x :: xs)
  end.

(* the object an operation may modify (None: it only creates a new object) *)
Definition target (p : op) : option nat :=
  match p with
  | OSet o _ _ | ODel o _ | OAdd o _ _ _ | OExtend o _ | OUpdate o _ | OSetDefault o _ _
  | OPop o _ _ | OPopItem o | ODiscard o _ | OClear o | OIor o _ | OPrepare o => Some o
  | OCopy _ | ONew _ | OOr _ _ | ORor _ _ => None
  end.

End HD.
