(* C12: the ways of reading a response body.

   Modelled code (response.py): HTTPResponse.read, read1, readinto, stream, read_chunked, __iter__, _raw_read, _decode,
   _flush_decoder and BytesQueueBuffer.  Below them sit two things the model takes as given:
     - the raw source (http.client over the socket): fp.read(n) hands out min(n, rest) transfer-decoded bytes, fp.read1(n)
       hands out some number of bytes - the numbers are replayed from a tape, any tape is allowed;
     - the content decoder, as the function it computes on prefixes: after k raw bytes it has produced the first
       tbl(k) bytes of its complete output `full` (flush produces the rest).  Identity: tbl(k) = k, full = raw. *)
From Coq Require Import List NArith Arith Bool.
Import ListNotations.

Record dec := mkDec { d_tbl : list nat; d_full : list N }.
Definition avail (d : dec) (k : nat) : nat := Nat.min (nth k (d_tbl d) (length (d_full d))) (length (d_full d)).

Record st := mkSt {
  s_raw : list N;          (* the transfer-decoded body *)
  s_pos : nat;             (* bytes taken from the raw source so far *)
  s_dpos : nat;            (* bytes the decoder has produced so far *)
  s_buf : list N;          (* _decoded_buffer *)
  s_has_decoded : bool;    (* _has_decoded_content *)
  s_tape : list nat;       (* what the coming fp.read1 calls return *)
  s_chunk_left : option nat;   (* read_chunked's position inside the current chunk *)
  s_chunks : list nat          (* sizes of the chunks not yet started (chunked framing, read_chunked only) *)
}.

Definition set_pos_dpos_buf (s : st) (p dp : nat) (b : list N) (hd : bool) (tp : list nat) : st :=
  mkSt (s_raw s) p dp b hd tp (s_chunk_left s) (s_chunks s).

(* io.DEFAULT_BUFFER_SIZE-like constants of the code, kept out of unary numerals *)
Definition n8192 : nat := N.to_nat 8192%N.
Definition n65536 : nat := N.to_nat 65536%N.

Section Reading.
Variable D : dec.
Variable has_decoder : bool.     (* a Content-Encoding the library decodes *)
Variable decode : bool.          (* decode_content, the same for every call *)
Variable read_all_drains_buffer : bool.   (* read() returns the buffered bytes first (source fact) *)
Variable stream_checks_progress : bool.   (* stream() uses read_chunked only when nothing was read yet (source fact) *)
Variable read_flushes_at_end : bool.      (* read(amt): the loop recomputes the flush flag, the early return at the end flushes (source fact) *)

Definition rest (s : st) : nat := length (s_raw s) - s_pos s.

(* fp.read(n) / fp.read(): the bytes and the new position *)
Definition fp_read (s : st) (amt : option nat) : list N * nat :=
  let n := match amt with Some n => Nat.min n (rest s) | None => rest s end in
  (firstn n (skipn (s_pos s) (s_raw s)), s_pos s + n).

(* fp.read1(n): as many bytes as the tape says (never more than asked for or than are left) *)
Definition fp_read1 (s : st) (amt : option nat) : list N * nat * list nat :=
  let lim := match amt with Some n => Nat.min n (rest s) | None => rest s end in
  let '(k, tp) := match s_tape s with k :: tp => (Nat.min k lim, tp) | [] => (lim, []) end in
  (firstn k (skipn (s_pos s) (s_raw s)), s_pos s + k, tp).

(* _decode(data, decode_content, flush): the decoder has now seen `p` raw bytes *)
Definition decode_step (s : st) (data : list N) (p : nat) (flush : bool) : list N * nat * bool :=
  if negb decode then (data, s_dpos s, s_has_decoded s)
  else if negb has_decoder then (data, s_dpos s, s_has_decoded s)
  else
    let upto := if flush then length (d_full D) else Nat.max (s_dpos s) (avail D p) in
    (firstn (upto - s_dpos s) (skipn (s_dpos s) (d_full D)), upto, true).

(* the loop of read(amt): keep reading amt raw bytes until amt decoded bytes are buffered or the source is dry *)
Fixpoint read_loop (fuel : nat) (amt : nat) (pos dpos : nat) (buf : list N) (hd : bool) (s : st) (last_empty flush0 : bool)
  : nat * nat * list N * bool :=
  match fuel with
  | O => (pos, dpos, buf, hd)
  | S f =>
      if Nat.leb amt (length buf) || last_empty then (pos, dpos, buf, hd)
      else
        let s1 := set_pos_dpos_buf s pos dpos buf hd (s_tape s) in
        let '(data, pos1) := fp_read s1 (Some amt) in
        (* the flush flag: recomputed from this read, or the one computed before the loop *)
        let fl := if read_flushes_at_end then (match data with [] => true | _ => false end) else flush0 in
        let '(out, dpos1, hd1) := decode_step s1 data pos1 fl in
        read_loop f amt pos1 dpos1 (buf ++ out) hd1 s (match data with [] => true | _ => false end) flush0
  end.

(* HTTPResponse.read(amt) *)
Definition read (s : st) (amt : option nat) : list N * st :=
  match amt with
  | None =>
      let '(data, pos1) := fp_read s None in
      match data, s_buf s with
      | [], [] =>
          if read_flushes_at_end && decode then
            let '(out, dpos1, hd1) := decode_step s [] (s_pos s) true in
            (out, set_pos_dpos_buf s (s_pos s) dpos1 [] hd1 (s_tape s))
          else ([], s)
      | _, _ =>
          let '(out, dpos1, hd1) := decode_step s data pos1 true in
          if read_all_drains_buffer then (s_buf s ++ out, set_pos_dpos_buf s pos1 dpos1 [] hd1 (s_tape s))
          else (out, set_pos_dpos_buf s pos1 dpos1 (s_buf s) hd1 (s_tape s))
      end
  | Some n =>
      if Nat.leb n (length (s_buf s)) then
        (firstn n (s_buf s), set_pos_dpos_buf s (s_pos s) (s_dpos s) (skipn n (s_buf s)) (s_has_decoded s) (s_tape s))
      else
        let '(data, pos1) := fp_read s (Some n) in
        let flush := match data with [] => negb (Nat.eqb n 0) | _ => false end in
        match data, s_buf s with
        | [], [] =>
            if read_flushes_at_end && decode && flush then
              let '(out, dpos1, hd1) := decode_step s [] (s_pos s) true in
              (firstn n out, set_pos_dpos_buf s (s_pos s) dpos1 (skipn n out) hd1 (s_tape s))
            else ([], s)
        | _, _ =>
            if negb decode then (data, set_pos_dpos_buf s pos1 (s_dpos s) (s_buf s) (s_has_decoded s) (s_tape s))
            else
              let '(out, dpos1, hd1) := decode_step s data pos1 flush in
              let '(pos2, dpos2, buf2, hd2) :=
                read_loop (S (rest s)) n pos1 dpos1 (s_buf s ++ out) hd1 s (match data with [] => true | _ => false end) flush in
              (firstn n buf2, set_pos_dpos_buf s pos2 dpos2 (skipn n buf2) hd2 (s_tape s))
        end
  end.

(* the loop of read1: read1(8192) again while the decoder produced nothing *)
Fixpoint read1_loop (fuel : nat) (pos dpos : nat) (buf : list N) (hd : bool) (tp : list nat) (s : st) (data : list N)
  : nat * nat * list N * bool * list nat :=
  let s1 := set_pos_dpos_buf s pos dpos buf hd tp in
  let flush := match data with [] => true | _ => false end in
  let '(out, dpos1, hd1) := decode_step s1 data pos flush in
  match fuel with
  | O => (pos, dpos1, buf ++ out, hd1, tp)
  | S f =>
      match out with
      | [] => if flush then (pos, dpos1, buf ++ out, hd1, tp)
              else let '(data2, pos2, tp2) := fp_read1 (set_pos_dpos_buf s pos dpos1 buf hd1 tp) (Some n8192) in
                   read1_loop f pos2 dpos1 buf hd1 tp2 s data2
      | _ => (pos, dpos1, buf ++ out, hd1, tp)
      end
  end.

(* HTTPResponse.read1(amt) *)
Definition read1 (s : st) (amt : option nat) : list N * st :=
  let from_buf :=
    match amt with
    | None => (s_buf s, set_pos_dpos_buf s (s_pos s) (s_dpos s) [] (s_has_decoded s) (s_tape s))
    | Some n => (firstn n (s_buf s), set_pos_dpos_buf s (s_pos s) (s_dpos s) (skipn n (s_buf s)) (s_has_decoded s) (s_tape s))
    end in
  if s_has_decoded s && negb (match s_buf s with [] => true | _ => false end) then from_buf
  else match amt with
  | Some 0 => ([], s)
  | _ =>
      let '(data, pos1, tp1) := fp_read1 s amt in
      if negb decode then (data, set_pos_dpos_buf s pos1 (s_dpos s) (s_buf s) (s_has_decoded s) tp1)
      else
        let '(pos2, dpos2, buf2, hd2, tp2) := read1_loop (S (rest s)) pos1 (s_dpos s) (s_buf s) (s_has_decoded s) tp1 s data in
        match amt with
        | None => (buf2, set_pos_dpos_buf s pos2 dpos2 [] hd2 tp2)
        | Some n => (firstn n buf2, set_pos_dpos_buf s pos2 dpos2 (skipn n buf2) hd2 tp2)
        end
  end.

(* stream(amt) through read(): until the source is dry and nothing is buffered; empty pieces are not yielded *)
Fixpoint stream_loop (fuel : nat) (s : st) (amt : option nat) : list (list N) * st :=
  match fuel with
  | O => ([], s)
  | S f =>
      let '(piece, s1) := read s amt in
      match piece with
      | [] => if Nat.eqb (rest s1) 0 && (match s_buf s1 with [] => true | _ => false end) then ([], s1)
              else let '(more, s2) := stream_loop f s1 amt in (more, s2)
      | _ => let '(more, s2) := stream_loop f s1 amt in (piece :: more, s2)
      end
  end.

(* read_chunked(amt): the chunks as framed, cut at amt, each piece decoded on its own; then the decoder is flushed *)
Fixpoint split_chunk (fuel : nat) (amt : option nat) (left : nat) : list nat :=
  match fuel with
  | O => []
  | S f =>
      match left with
      | O => []
      | _ => match amt with
             | None => [left]
             | Some a => if Nat.ltb a left then Nat.max a 1 :: split_chunk f amt (left - Nat.max a 1) else [left]
             end
      end
  end.

Fixpoint chunk_pieces (s : st) (sizes : list nat) : list (list N) * st :=
  match sizes with
  | [] => ([], s)
  | k :: more =>
      let '(data, pos1) := fp_read s (Some k) in
      let '(out, dpos1, hd1) := decode_step s data pos1 false in
      let s1 := set_pos_dpos_buf s pos1 dpos1 (s_buf s) hd1 (s_tape s) in
      let '(ps, s2) := chunk_pieces s1 more in
      (match out with [] => ps | _ => out :: ps end, s2)
  end.

Definition read_chunked (s : st) (amt : option nat) : list (list N) * st :=
  let sizes := flat_map (fun c => split_chunk (S c) amt c) (s_chunks s) in
  let '(ps, s1) := chunk_pieces s sizes in
  if decode && has_decoder then
    let tail := skipn (s_dpos s1) (d_full D) in
    (ps ++ (match tail with [] => [] | _ => [tail] end),
     set_pos_dpos_buf s1 (s_pos s1) (length (d_full D)) (s_buf s1) (s_has_decoded s1) (s_tape s1))
  else (ps, s1).

Definition stream (chunked : bool) (s : st) (amt : option nat) : list (list N) * st :=
  if chunked && (negb stream_checks_progress || Nat.eqb (s_pos s) 0 && (match s_buf s with [] => true | _ => false end))
  then read_chunked s amt
  else stream_loop (S (S (rest s + length (d_full D) + length (s_buf s)))) s amt.
End Reading.

(* __iter__: the pieces of stream(2**16, decode_content=True) cut into lines *)
Fixpoint split_nl (cur : list N) (l : list N) : list (list N) * list N :=
  match l with
  | [] => ([], cur)
  | c :: r => if N.eqb c 10 then let '(ls, last) := split_nl [] r in ((cur ++ [c]) :: ls, last)
              else split_nl (cur ++ [c]) r
  end.
Fixpoint lines_of (pending : list N) (pieces : list (list N)) : list (list N) :=
  match pieces with
  | [] => match pending with [] => [] | _ => [pending] end
  | p :: more => let '(ls, last) := split_nl pending p in ls ++ lines_of last more
  end.

(* ---------- a whole run ---------- *)
Inductive call := CRead (amt : option nat) | CRead1 (amt : option nat) | CReadinto (k : nat).
Inductive finish := FNone | FRead | FStream (amt : option nat) | FReadChunked (amt : option nat) | FIter | FData.

Fixpoint run_calls (D : dec) (hdc dc rb sg fe : bool) (s : st) (cs : list call) : list (list N) * st :=
  match cs with
  | [] => ([], s)
  | c :: more =>
      let '(p, s1) := match c with
                      | CRead a => read D hdc dc rb fe s a
                      | CRead1 a => read1 D hdc dc s a
                      | CReadinto k => read D hdc dc rb fe s (Some k)
                      end in
      let '(ps, s2) := run_calls D hdc dc rb sg fe s1 more in
      (p :: ps, s2)
  end.

Definition run_finish (D : dec) (hdc dc rb sg fe chunked : bool) (s : st) (f : finish) : list (list N) * st :=
  match f with
  | FNone => ([], s)
  | FRead | FData => let '(p, s1) := read D hdc dc rb fe s None in ([p], s1)
  | FStream a => stream D hdc dc rb sg fe chunked s a
  | FReadChunked a => read_chunked D hdc dc s a
  | FIter => let '(ps, s1) := stream D hdc true rb sg fe chunked s (Some n65536) in (lines_of [] ps, s1)
  end.

Definition run (D : dec) (hdc dc rb sg fe chunked : bool) (raw : list N) (chunks tape : list nat) (cs : list call) (f : finish)
  : list (list N) * list (list N) :=
  let s0 := mkSt raw 0 0 [] false tape None chunks in
  let '(ps, s1) := run_calls D hdc dc rb sg fe s0 cs in
  let '(fs, _) := run_finish D hdc dc rb sg fe chunked s1 f in
  (ps, fs).
