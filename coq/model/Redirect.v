(* Model of redirect handling: PoolManager.urlopen (and ProxyManager through it)
   and the redirect branch of HTTPConnectionPool.urlopen for a bare pool.
   The world is a script of responses, one per request sent; Location values are
   given already resolved (urljoin is an oracle). *)
From Coq Require Import String List NArith ZArith QArith Bool.
From V Require Import lib.PyStr model.Retry.
Import ListNotations.
Local Open Scope Z_scope.

Record origin := mkO { o_scheme : str; o_host : str; o_port : option Z }.
Record target := mkT { t_origin : origin; t_path : str }.

Definition default_port (scheme : str) : option Z :=
  if str_eqb scheme (S!"http") then Some 80 else if str_eqb scheme (S!"https") then Some 443 else None.

Definition oz_eqb (a b : option Z) : bool :=
  match a, b with Some x, Some y => x =? y | None, None => true | _, _ => false end.

(* HTTPConnectionPool.is_same_host(url) for a pool created for `pool` (host already normalised) *)
Definition is_same_host (pool : origin) (u : origin) : bool :=
  let port :=
    match o_port pool, o_port u with
    | Some _, None => default_port (o_scheme u)
    | None, Some p => if oz_eqb (Some p) (default_port (o_scheme u)) then None else Some p
    | _, p => p
    end in
  str_eqb (o_scheme u) (o_scheme pool) && str_eqb (ascii_lower (o_host u)) (o_host pool) && oz_eqb port (o_port pool).

(* the pool a PoolManager uses for a URL: default port filled in, host lower-cased *)
Definition pool_of (u : origin) : origin :=
  mkO (o_scheme u) (ascii_lower (o_host u))
      (match o_port u with Some p => Some p | None => match default_port (o_scheme u) with Some d => Some d | None => Some 80 end end).

Inductive hop := Hop (status : Z) (location : option target).

Definition redirect_statuses_default : list Z := [301; 302; 303; 307; 308].

Record request := mkRq { q_method : str; q_body : bool; q_headers : list (str * str) }.
Record logent := mkLog { l_origin : origin; l_path : str; l_req : request }.

Inductive outcome :=
| OResponse (status : Z)
| OMaxRetry
| OHostChanged
| OScriptEnd.

Section R.
Variable L : lattice.
Variable ce re : list str.
Variable redirect_statuses : list Z.
Variable content_headers : list str.          (* removed by _prepare_for_method_change *)
Variable retries_fallback : N.                (* PoolManager.urlopen without a request-level policy: 0 = library default,
                                                 1 = response.retries, 2 = the pool's configured retries *)
Variable mkdefault : bool -> retries_arg -> option retry -> retry.   (* Retry.from_int(arg, redirect, default) *)

Definition redirect_location (h : hop) : option target :=
  match h with Hop st loc => if existsb (Z.eqb st) redirect_statuses then loc else None end.
Definition status_of (h : hop) : Z := match h with Hop st _ => st end.

Definition drop_headers (names_lower : list str) (hs : list (str * str)) : list (str * str) :=
  filter (fun kv => negb (mem_str (ascii_lower (fst kv)) names_lower)) hs.

(* 303: GET without body and without content headers *)
Definition see_other (rq : request) : request :=
  mkRq (S!"GET") false (drop_headers (map ascii_lower content_headers) (q_headers rq)).

Definition GET303 : Z := 303.

(* ---- PoolManager.urlopen ---- *)
(* kw_retries: the value under kw["retries"] (None when the caller gave none); pool_retries: the
   manager/pool-level policy (what pools are created with) *)
Fixpoint manager_loop (script : list hop) (redirect : bool) (cur : target) (rq : request)
         (kw_retries : retries_arg) (pool_retries : retries_arg) (via_proxy : option origin)
         (log : list logent) : list logent * outcome :=
  match script with
  | [] => (log, OScriptEnd)
  | h :: rest =>
      let log := log ++ [mkLog (t_origin cur) (t_path cur) rq] in
      match (if redirect then redirect_location h else None) with
      | None => (log, OResponse (status_of h))
      | Some loc =>
          let rq1 := if status_of h =? GET303 then see_other rq else rq in
          (* the Retry object the pool used for this request = response.retries *)
          let pool_default := match pool_retries with RNone => None | a => Some (mkdefault false a None) end in
          let response_retries := mkdefault false kw_retries pool_default in
          let r :=
            match kw_retries with
            | RObj x => x
            | RNone => match retries_fallback with
                       | 1%N => response_retries
                       | 2%N => match pool_retries with RObj x => x | a => mkdefault redirect a None end
                       | _ => mkdefault redirect RNone None
                       end
            | a => mkdefault redirect a None
            end in
          let conn := match via_proxy with Some p => p | None => pool_of (t_origin cur) end in
          let rq2 := if negb (Nat.eqb (length (r_remove_headers r)) 0) && negb (is_same_host conn (t_origin loc))
                     then mkRq (q_method rq1) (q_body rq1) (drop_headers (r_remove_headers r) (q_headers rq1))
                     else rq1 in
          match increment L ce re r (q_method rq2) (IResponse (status_of h) true) with
          | IOk r' => manager_loop rest redirect loc rq2 (RObj r') pool_retries via_proxy log
          | _ => if r_raise_on_redirect r then (log, OMaxRetry) else (log, OResponse (status_of h))
          end
      end
  end.

(* ---- a bare HTTPConnectionPool.urlopen (assert_same_host as given) ---- *)
Fixpoint pool_loop (script : list hop) (redirect assert_same : bool) (pool : origin) (cur : target) (rq : request)
         (arg : retries_arg) (pool_retries : retries_arg) (log : list logent) : list logent * outcome :=
  match script with
  | [] => (log, OScriptEnd)
  | h :: rest =>
      if assert_same && negb (is_same_host pool (t_origin cur)) then (log, OHostChanged)
      else
        let pool_default := match pool_retries with RNone => None | a => Some (mkdefault redirect a None) end in
        let r := match arg with RObj x => x | a => mkdefault redirect a pool_default end in
        let log := log ++ [mkLog pool (t_path cur) rq] in
        match (if redirect then redirect_location h else None) with
        | None => (log, OResponse (status_of h))
        | Some loc =>
            let rq1 := if status_of h =? GET303 then see_other rq else rq in
            match increment L ce re r (q_method rq1) (IResponse (status_of h) true) with
            | IOk r' => pool_loop rest redirect assert_same pool loc rq1 (RObj r') pool_retries log
            | _ => if r_raise_on_redirect r then (log, OMaxRetry) else (log, OResponse (status_of h))
            end
        end
  end.
End R.
