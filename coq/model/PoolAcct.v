(* Model of connection-slot accounting in HTTPConnectionPool (urlopen with
   _get_conn / _put_conn / _new_conn, the error paths of _make_request) and of
   the connection-relevant part of HTTPResponse (auto release at end of body,
   release_conn, drain_conn, close, _error_catcher), over a scripted world:
   one outcome record per attempt, one disposal per returned response. *)
From Coq Require Import String List NArith ZArith QArith Bool Arith.
From V Require Import lib.PyStr model.Retry.
Import ListNotations.

(* ---------- pool state ---------- *)
Record conn := mkConn {
  c_id : nat;
  c_sock : option nat;          (* the open socket it owns *)
  c_dirty : bool;               (* http.client still has an unread response on it *)
  c_pending : bool              (* unsolicited bytes / EOF / an error are pending on the socket *)
}.

Record pstate := mkP {
  p_q : list (option conn);     (* LifoQueue: head = next to be handed out *)
  p_leases : list conn;         (* connections owned by responses not yet released *)
  p_open : list nat;            (* open sockets *)
  p_next_cid : nat;
  p_next_sid : nat;
  p_connects : nat              (* sockets ever opened *)
}.

Definition init_pool (maxsize : nat) : pstate :=
  mkP (repeat None maxsize) [] [] 0 0 0.

Section Params.
Variable M : nat.      (* maxsize *)
Variable B : bool.     (* block *)

Definition set_q (st : pstate) (q : list (option conn)) : pstate :=
  mkP q (p_leases st) (p_open st) (p_next_cid st) (p_next_sid st) (p_connects st).
Definition set_leases (st : pstate) (l : list conn) : pstate :=
  mkP (p_q st) l (p_open st) (p_next_cid st) (p_next_sid st) (p_connects st).
Definition set_open (st : pstate) (o : list nat) : pstate :=
  mkP (p_q st) (p_leases st) o (p_next_cid st) (p_next_sid st) (p_connects st).

Definition remove_nat (x : nat) (l : list nat) : list nat := filter (fun y => negb (Nat.eqb x y)) l.

(* conn.close(): the socket is closed, http.client state is reset *)
Definition close_conn (st : pstate) (c : conn) : pstate * conn :=
  (match c_sock c with Some s => set_open st (remove_nat s (p_open st)) | None => st end,
   mkConn (c_id c) None false false).

(* a new TCP connection for c *)
Definition open_sock (st : pstate) (c : conn) : pstate * conn :=
  let s := p_next_sid st in
  (mkP (p_q st) (p_leases st) (p_open st ++ [s]) (p_next_cid st) (S s) (S (p_connects st)),
   mkConn (c_id c) (Some s) false false).

(* _get_conn: None = EmptyPoolError (block=True and nothing available) *)
Definition checkout (st : pstate) : option (pstate * conn) :=
  match p_q st with
  | [] =>
      if B then None
      else Some (mkP [] (p_leases st) (p_open st) (S (p_next_cid st)) (p_next_sid st) (p_connects st),
                 mkConn (p_next_cid st) None false false)
  | None :: r =>
      Some (mkP r (p_leases st) (p_open st) (S (p_next_cid st)) (p_next_sid st) (p_connects st),
            mkConn (p_next_cid st) None false false)
  | Some c :: r =>
      (* is_connection_dropped: a readable idle socket means the peer closed or sent something *)
      match c_sock c with
      | Some _ => if c_pending c then Some (close_conn (set_q st r) c) else Some (set_q st r, c)
      | None => Some (set_q st r, c)
      end
  end.

(* _put_conn: a full queue closes and discards the connection *)
Definition put (st : pstate) (oc : option conn) : pstate :=
  if Nat.ltb (length (p_q st)) (M) then set_q st (oc :: p_q st)
  else match oc with Some c => fst (close_conn st c) | None => st end.

Definition conn_eqb (a b : conn) : bool := Nat.eqb (c_id a) (c_id b).
Definition unlease (st : pstate) (c : conn) : pstate :=
  set_leases st (filter (fun x => negb (conn_eqb x c)) (p_leases st)).
Definition lease (st : pstate) (c : conn) : pstate := set_leases st (c :: p_leases st).

(* ---------- scripted outcomes ---------- *)
Inductive conn_out := KOk | KRefused | KTimeout | KInterrupt.
Inductive send_out := TOk | TEpipe | TReset | TOther | TTimeout | TInterrupt.
Inductive body_out := BOk | BShort | BInterrupt.     (* what reading the body to its end meets *)
Inductive recv_out :=
| VResp (status : Z) (retry_after : option Z) (keepalive : bool) (body : body_out) (redirects : bool)
| VTimeout | VReset | VEof | VGarbage | VInterrupt.
Record attempt := mkAt { at_connect : conn_out; at_send : send_out; at_recv : recv_out }.

Inductive disposal := DReadAll | DRelease | DDrain | DClose | DCloseRelease.

Record request := mkReq {
  rq_method : str;
  rq_preload : bool;
  rq_retries : retries_arg;
  rq_disposal : disposal;
  rq_redirect : bool            (* urlopen(redirect=...) *)
}.

Inductive result :=
| ResResponse (status : Z)
| ResRaise (e : exn)
| ResMaxRetry (reason : option exn)
| ResInterrupt                     (* a non-Exception BaseException propagated unchanged *)
| ResEmptyPool
| ResScriptEnd.

(* a response still owned by the caller *)
Record held := mkHeld { h_conn : conn; h_keepalive : bool; h_body : body_out }.

(* getresponse(): for a response that will close the connection http.client detaches the socket
   from the connection object at once (conn.sock = None); the socket itself lives on in the
   response until its body has been read to the end, or the response is closed or dropped *)
Definition detach (c : conn) (keepalive : bool) : conn * option nat :=
  if keepalive then (c, None) else (mkConn (c_id c) None false false, c_sock c).
Definition close_sock (st : pstate) (s : option nat) : pstate :=
  match s with Some x => set_open st (remove_nat x (p_open st)) | None => st end.

Section Run.
Variable L : lattice.
Variable to_ssl to_proxy to_protocol ce re : list str.
Variable rac : list Z.
Variable mkdefault : retries_arg -> retry.
Variable rc : bool.    (* release_conn() closes a connection whose response was not read to its end (a fact of the source) *)

Definition C (s : string) : str := str_of_string s.

Inductive raised := RaisedCls (cls : str) | RaisedInterrupt.

(* the exception one attempt raises inside urlopen's try block (None: a response arrived) *)
Definition attempt_raises (need_connect : bool) (dirty : bool) (a : attempt) : option raised :=
  match (if need_connect then at_connect a else KOk) with
  | KRefused => Some (RaisedCls (C "NewConnectionError"))
  | KTimeout => Some (RaisedCls (C "ConnectTimeoutError"))
  | KInterrupt => Some RaisedInterrupt
  | KOk =>
      match at_send a with
      | TOther => Some (RaisedCls (C "OSError"))
      | TTimeout => Some (RaisedCls (C "builtins.TimeoutError"))
      | TInterrupt => Some RaisedInterrupt
      | TOk | TEpipe | TReset =>
          if dirty then Some (RaisedCls (C "http.client.ResponseNotReady"))
          else
          match at_recv a with
          | VResp _ _ _ _ _ => None
          | VTimeout => Some (RaisedCls (C "ReadTimeoutError"))
          | VReset => Some (RaisedCls (C "ConnectionResetError"))
          | VEof => Some (RaisedCls (C "http.client.RemoteDisconnected"))
          | VGarbage => Some (RaisedCls (C "http.client.BadStatusLine"))
          | VInterrupt => Some RaisedInterrupt
          end
      end
  end.

Definition wrap_direct (cls : str) : exn :=
  let e1 := if isinstance L cls to_ssl then mkExn (C "SSLError") (Some cls) else mkExn cls None in
  if isinstance L (e_cls e1) to_protocol then mkExn (C "ProtocolError") (Some (e_cls e1)) else e1.

(* the connection after its response body was read to the end (or the attempt to do so failed):
   what is handed back to the pool *)
Definition after_body (st : pstate) (c : conn) (keepalive : bool) (body : body_out) : pstate * conn :=
  match body with
  | BOk => if keepalive then (st, mkConn (c_id c) (c_sock c) false false) else close_conn st c
  | BShort | BInterrupt => close_conn st c        (* _error_catcher closes the connection *)
  end.
(* (for a connection-closing response `c` still names the socket here; closing c closes it) *)

(* urlopen: returns the state, the result, the response still held by the caller, the rest of the script *)
Fixpoint urlopen (script : list attempt) (st : pstate) (rq : request) (r : retry)
  : pstate * result * option held * list attempt :=
  match script with
  | [] => (st, ResScriptEnd, None, [])
  | a :: rest =>
      match checkout st with
      | None => (st, ResEmptyPool, None, script)
      | Some (st1, c) =>
          let need_connect := match c_sock c with None => true | Some _ => false end in
          (* the connect step *)
          let '(st2, c2) :=
            if need_connect then match at_connect a with KOk => open_sock st1 c | _ => (st1, c) end else (st1, c) in
          match attempt_raises need_connect (c_dirty c) a with
          | Some RaisedInterrupt =>
              let '(st3, _) := close_conn st2 c2 in (put st3 None, ResInterrupt, None, rest)
          | Some (RaisedCls cls) =>
              let '(st3, _) := close_conn st2 c2 in
              let st4 := put st3 None in
              let e := wrap_direct cls in
              match increment L ce re r (rq_method rq) (IError e) with
              | IReraise => (st4, ResRaise e, None, rest)
              | IMaxRetry _ => (st4, ResMaxRetry (Some e), None, rest)
              | IOk r' => urlopen rest st4 rq r'
              end
          | None =>
              match at_recv a with
              | VResp status ra keepalive body redirects0 =>
                  let redirects := redirects0 && rq_redirect rq in
                  if rq_preload rq then
                    (* the body is read inside _make_request *)
                    match body with
                    | BInterrupt =>
                        let '(st3, _) := close_conn st2 c2 in (put st3 None, ResInterrupt, None, rest)
                    | BShort =>
                        let '(st3, _) := close_conn st2 c2 in
                        let st4 := put st3 None in
                        let e := mkExn (C "ProtocolError") (Some (C "http.client.IncompleteRead")) in
                        match increment L ce re r (rq_method rq) (IError e) with
                        | IReraise => (st4, ResRaise e, None, rest)
                        | IMaxRetry _ => (st4, ResMaxRetry (Some e), None, rest)
                        | IOk r' => urlopen rest st4 rq r'
                        end
                    | BOk =>
                        let '(st3, c3) := after_body st2 c2 keepalive BOk in
                        let st4 := put st3 (Some c3) in
                        let has_ra := match ra with Some _ => true | None => false end in
                        if redirects then
                          match increment L ce re r (rq_method rq) (IResponse status true) with
                          | IOk r' => urlopen rest st4 rq r'
                          | _ => if r_raise_on_redirect r then (st4, ResMaxRetry None, None, rest)
                                 else (st4, ResResponse status, None, rest)
                          end
                        else
                        if is_retry rac r (rq_method rq) status has_ra then
                          match increment L ce re r (rq_method rq) (IResponse status false) with
                          | IOk r' => urlopen rest st4 rq r'
                          | _ => if r_raise_on_status r then (st4, ResMaxRetry None, None, rest)
                                 else (st4, ResResponse status, None, rest)
                          end
                        else (st4, ResResponse status, None, rest)
                    end
                  else
                    (* the response owns the connection *)
                    let has_ra := match ra with Some _ => true | None => false end in
                    if redirects || is_retry rac r (rq_method rq) status has_ra then
                      (* increment first; drain_conn() (read to the end, errors swallowed, which releases the
                         connection) only when the request goes on or MaxRetryError is raised; an interrupt while
                         draining propagates after the connection was closed and released *)
                      let drained := let '(st3, c3) := after_body st2 c2 keepalive body in put st3 (Some c3) in
                      match increment L ce re r (rq_method rq) (IResponse status redirects) with
                      | IOk r' =>
                          match body with
                          | BInterrupt => (drained, ResInterrupt, None, rest)
                          | _ => urlopen rest drained rq r'
                          end
                      | _ =>
                          if (if redirects then r_raise_on_redirect r else r_raise_on_status r) then
                            match body with
                            | BInterrupt => (drained, ResInterrupt, None, rest)
                            | _ => (drained, ResMaxRetry None, None, rest)
                            end
                          else (lease st2 c2, ResResponse status, Some (mkHeld c2 keepalive body), rest)
                      end
                    else (lease st2 c2, ResResponse status, Some (mkHeld c2 keepalive body), rest)
              | _ => let '(st3, _) := close_conn st2 c2 in (put st3 None, ResScriptEnd, None, rest)   (* unreachable *)
              end
          end
      end
  end.

(* what the caller does with a response it still holds *)
Definition dispose (st : pstate) (h : held) (d : disposal) : pstate :=
  let c := h_conn h in
  match d with
  | DReadAll | DDrain =>
      let '(st1, c1) := after_body (unlease st c) c (h_keepalive h) (h_body h) in put st1 (Some c1)
  | DRelease =>
      (* release_conn() with the body unread: the connection goes back as it is; the caller then drops
         the response, which closes a socket only the response still owned *)
      if rc then
        (* the bodies of this world are never empty: the connection is closed before it goes back *)
        let '(st1, c1) := close_conn (unlease st c) c in put st1 (Some c1)
      else if h_keepalive h then
        (* dropping the released response closes http.client's response object: the connection is clean again *)
        put (unlease st c) (Some (mkConn (c_id c) (c_sock c) false (match h_body h with BOk => false | _ => true end)))
      else put (close_sock (unlease st c) (c_sock c)) (Some (mkConn (c_id c) None false false))
  | DClose =>
      (* close(): the connection is closed but nobody returns it: the response keeps owning the
         (now closed) connection object (known finding C01-F1) *)
      let '(st1, c1) := close_conn (unlease st c) c in lease st1 c1
  | DCloseRelease =>
      let '(st1, c1) := close_conn (unlease st c) c in put st1 (Some c1)
  end.

(* a history: requests one after the other, each response disposed before the next request *)
Fixpoint run_history (reqs : list request) (script : list attempt) (st : pstate)
  : pstate * list result :=
  match reqs with
  | [] => (st, [])
  | rq :: more =>
      let '(st1, res, h, script1) := urlopen script st rq (mkdefault (rq_retries rq)) in
      let st2 := match h with Some hd => dispose st1 hd (rq_disposal rq) | None => st1 end in
      let '(st3, rs) := run_history more script1 st2 in
      (st3, res :: rs)
  end.
End Run.
End Params.
