(* Interleaving model for RecentlyUsedContainer: an operation's critical
   section (the `with self.lock:` block) is one atomic step — mutual exclusion
   of RLock is trusted runtime behaviour — and each dispose_func call is a
   separate later step of the same thread, taken while no lock is held. *)
From Coq Require Import List NArith Bool Arith.
From V Require Import model.Lru.
Import ListNotations.

Record thread := mkT { pending : list val; todo : list op }.
Record cstate := mkC {
  c_cont : cont;
  c_threads : list thread;
  c_disposed : list val;            (* dispose_func calls so far, in order *)
  c_done : list op;                 (* critical sections executed so far, in order *)
  c_results : list (nat * res)      (* (thread, result) in the same order *)
}.

Fixpoint set_thread (l : list thread) (t : nat) (th : thread) : list thread :=
  match l, t with
  | [], _ => []
  | _ :: r, O => th :: r
  | x :: r, S t' => x :: set_thread r t' th
  end.

(* thread t takes its next step; a finished or unknown thread stutters *)
Definition cstep (m : nat) (s : cstate) (t : nat) : cstate :=
  match nth_error (c_threads s) t with
  | None => s
  | Some th =>
      match pending th with
      | v :: r =>
          mkC (c_cont s) (set_thread (c_threads s) t (mkT r (todo th)))
              (c_disposed s ++ [v]) (c_done s) (c_results s)
      | [] =>
          match todo th with
          | [] => s
          | p :: r =>
              let '(c', x, d) := step m (c_cont s) p in
              mkC c' (set_thread (c_threads s) t (mkT d r))
                  (c_disposed s) (c_done s ++ [p]) (c_results s ++ [(t, x)])
          end
      end
  end.

Definition crun (m : nat) (sched : list nat) (s : cstate) : cstate :=
  fold_left (cstep m) sched s.

Definition cinit (c : cont) (progs : list (list op)) : cstate :=
  mkC c (map (mkT []) progs) [] [] [].

Definition all_pending (s : cstate) : list val := flat_map pending (c_threads s).
