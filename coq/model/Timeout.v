(* Model of urllib3.util.timeout.Timeout and of the timeout handling of
   HTTPConnectionPool._get_timeout / _make_request (plain-HTTP pool), over
   exact rationals.  IEEE rounding is not modelled (DESIGN §5.19). *)
From Coq Require Import List QArith Qminmax Bool.
Import ListNotations.
Local Open Scope Q_scope.

(* a validated timeout attribute *)
Inductive tv := TDefault | TNone | TNum (q : Q).
(* what a caller may pass *)
Inductive raw := RDefault | RNone | RBool | RNum (q : Q) | RBad.

(* Timeout._validate_timeout: None = ValueError *)
Definition validate (r : raw) : option tv :=
  match r with
  | RDefault => Some TDefault
  | RNone => Some TNone
  | RBool | RBad => None
  | RNum q => if Qle_bool q 0 then None else Some (TNum q)
  end.

(* `total` is modelled as None-or-number: passing the _DEFAULT_TIMEOUT sentinel
   as total is outside the property's domain and is never generated *)
Record timeout := mkT { t_connect : tv; t_read : tv; t_total : option Q; t_start : option Q }.

Definition mk (total connect read : raw) : option timeout :=
  match validate connect, validate read, validate total with
  | Some c, Some r, Some TNone => Some (mkT c r None None)
  | Some c, Some r, Some (TNum t) => Some (mkT c r (Some t) None)
  | _, _, _ => None
  end.

Definition from_float (r : raw) : option timeout := mk RNone r r.
Definition clone (t : timeout) : timeout := mkT (t_connect t) (t_read t) (t_total t) None.
Definition start_connect (t : timeout) (now : Q) : timeout :=
  mkT (t_connect t) (t_read t) (t_total t) (Some now).

Definition connect_timeout (t : timeout) : tv :=
  match t_total t with
  | None => t_connect t
  | Some tot =>
      match t_connect t with
      | TNum c => TNum (Qmin c tot)
      | _ => TNum tot
      end
  end.

(* resolve_default_timeout: the sentinel becomes socket.getdefaulttimeout() *)
Definition resolve (sysdefault : option Q) (v : tv) : option Q :=
  match v with TDefault => sysdefault | TNone => None | TNum q => Some q end.

Inductive rt_result := RtVal (v : option Q) | RtStateError.

Definition read_timeout (sysdefault : option Q) (t : timeout) (now : Q) : rt_result :=
  match t_total t, t_read t with
  | Some tot, TNum r =>
      match t_start t with
      | None => RtVal (Some r)
      | Some s => RtVal (Some (Qmax 0 (Qmin (tot - (now - s)) r)))
      end
  | Some tot, _ =>
      match t_start t with
      | None => RtStateError
      | Some s => RtVal (Some (Qmax 0 (tot - (now - s))))
      end
  | None, r => RtVal (resolve sysdefault r)
  end.

(* what a request may pass as `timeout=` *)
Inductive reqt := ReqDefault | ReqTimeout (t : timeout) | ReqRaw (r : raw).

(* HTTPConnectionPool._get_timeout *)
Definition get_timeout (pool : timeout) (r : reqt) : option timeout :=
  match r with
  | ReqDefault => Some (clone pool)
  | ReqTimeout t => Some (clone t)
  | ReqRaw RDefault => Some (clone pool)      (* `timeout is _DEFAULT_TIMEOUT` *)
  | ReqRaw x => from_float x
  end.

Inductive event :=
| EConnect (applied : option Q)       (* socket timeout in force while connecting *)
| ESetTimeout (v : option Q).         (* sock.settimeout on the established socket *)
Inductive outcome := OOk | OReadTimeout | OValueError | OStateError.

(* one _make_request on a plain-HTTP pool; `fresh`: a new connection must be
   opened (it then takes `d` seconds); returns events, outcome, clock afterwards *)
Definition make_request (sysdefault : option Q) (pool : timeout) (r : reqt)
           (fresh : bool) (d : Q) (now : Q) : list event * outcome * Q :=
  match get_timeout pool r with
  | None => ([], OValueError, now)
  | Some t0 =>
      let t := start_connect t0 now in
      let ct := resolve sysdefault (connect_timeout t) in
      let ev1 := if fresh then [EConnect ct] else [ESetTimeout ct] in
      let now' := if fresh then now + d else now in
      match read_timeout sysdefault t now' with
      | RtStateError => (ev1, OStateError, now')
      | RtVal v =>
          match v with
          | Some q => if Qeq_bool q 0 then (ev1, OReadTimeout, now')
                      else (ev1 ++ [ESetTimeout v], OOk, now')
          | None => (ev1 ++ [ESetTimeout v], OOk, now')
          end
      end
  end.

(* the same request to an https origin through a CONNECT tunnel: for a new connection urlopen connects to the proxy and sets the
   tunnel up (conn.connect() in _prepare_proxy) under the connect timeout of its own, never started, copy of the Timeout - before
   _make_request copies the Timeout again and starts that copy's clock on a connection that is already there *)
Definition tunnelled_request (sysdefault : option Q) (pool : timeout) (r : reqt)
           (fresh : bool) (d : Q) (now : Q) : list event * outcome * Q :=
  if fresh then
    match get_timeout pool r with
    | None => ([], OValueError, now)
    | Some t0 =>
        let '(evs, out, now') := make_request sysdefault pool r false 0 (now + d) in
        (EConnect (resolve sysdefault (connect_timeout t0)) :: evs, out, now')
    end
  else make_request sysdefault pool r false 0 now.
