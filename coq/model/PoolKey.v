(* Model of pool identity in urllib3.poolmanager: _merge_pool_kwargs,
   connection_from_host, connection_from_context, _default_key_normalizer and
   the lookup of the pool by key.  Lists of names (PoolKey fields, the
   dictionary-valued / lower-cased / tuple-ised keys) are parameters: they are
   instantiated with the lists regenerated from the source (gen/Gen_Key.v). *)
From Coq Require Import String List NArith ZArith Bool.
From V Require Import lib.PyStr.
Import ListNotations.

Inductive pv :=
| VNone
| VStr (s : str)
| VInt (z : Z)
| VBool (b : bool)
| VObj (id : N)                       (* compared by identity (Retry, Timeout, SSLContext ...) or by a value class *)
| VDict (d : list (str * str))        (* a dict of strings *)
| VFrozen (d : list (str * str))      (* frozenset(dict.items()), kept sorted *)
| VList (l : list (list Z))           (* e.g. socket_options *)
| VTuple (l : list (list Z)).

Fixpoint lz_eqb (a b : list Z) : bool :=
  match a, b with [], [] => true | x :: a', y :: b' => Z.eqb x y && lz_eqb a' b' | _, _ => false end.
Fixpoint llz_eqb (a b : list (list Z)) : bool :=
  match a, b with [], [] => true | x :: a', y :: b' => lz_eqb x y && llz_eqb a' b' | _, _ => false end.
Fixpoint items_eqb (a b : list (str * str)) : bool :=
  match a, b with
  | [], [] => true
  | (k, v) :: a', (k', v') :: b' => str_eqb k k' && str_eqb v v' && items_eqb a' b'
  | _, _ => false
  end.
Definition pv_eqb (a b : pv) : bool :=
  match a, b with
  | VNone, VNone => true
  | VStr x, VStr y => str_eqb x y
  | VInt x, VInt y => Z.eqb x y
  | VBool x, VBool y => Bool.eqb x y
  | VBool x, VInt y | VInt y, VBool x => Z.eqb y (if x then 1 else 0)%Z   (* Python: True == 1, False == 0 *)
  | VObj x, VObj y => N.eqb x y
  | VDict x, VDict y => items_eqb x y
  | VFrozen x, VFrozen y => items_eqb x y
  | VList x, VList y => llz_eqb x y
  | VTuple x, VTuple y => llz_eqb x y
  | _, _ => false
  end.

(* lexicographic order on strings, to keep frozensets canonical *)
Fixpoint str_leb (a b : str) : bool :=
  match a, b with
  | [], _ => true
  | _ :: _, [] => false
  | x :: a', y :: b' => if N.ltb x y then true else if N.eqb x y then str_leb a' b' else false
  end.
Fixpoint ins_item (x : str * str) (l : list (str * str)) : list (str * str) :=
  match l with
  | [] => [x]
  | y :: r => if str_leb (fst x) (fst y) then x :: l else y :: ins_item x r
  end.
Definition sort_items (l : list (str * str)) : list (str * str) := fold_right ins_item [] l.

Definition ctx := list (str * pv).
Fixpoint c_get (k : str) (c : ctx) : option pv :=
  match c with [] => None | (k', v) :: r => if str_eqb k k' then Some v else c_get k r end.
Fixpoint c_set (k : str) (v : pv) (c : ctx) : ctx :=
  match c with
  | [] => [(k, v)]
  | (k', v') :: r => if str_eqb k k' then (k, v) :: r else (k', v') :: c_set k v r
  end.
Fixpoint c_del (k : str) (c : ctx) : ctx :=
  match c with [] => [] | (k', v') :: r => if str_eqb k k' then r else (k', v') :: c_del k r end.

(* PoolManager._merge_pool_kwargs: a NEW context; the base is not touched *)
Definition merge_pool_kwargs (base : ctx) (override : option ctx) : ctx :=
  match override with
  | None => base
  | Some o => fold_left (fun b kv => match snd kv with VNone => c_del (fst kv) b | v => c_set (fst kv) v b end) o base
  end.

Section Normalizer.
Variable fields : list str.            (* PoolKey._fields *)
Variable dict_keys : list str.         (* headers, _proxy_headers, _socks_options *)
Variable lowered : list str.           (* scheme, host *)
Variable tuple_key : str.              (* socket_options *)
Variable default_blocksize : Z.

Definition KEY_ : str := S!"key_".
Definition BLOCKSIZE_FIELD : str := S!"key_blocksize".

Inductive nres := NOk (k : list pv) | NTypeError | NError.

Definition lower_pv (v : pv) : option pv := match v with VStr s => Some (VStr (ascii_lower s)) | _ => None end.

(* per-keyword normalisation of a value (None: the code would raise) *)
Definition norm_value (kw : str) (v : pv) : option pv :=
  if mem_str kw lowered then lower_pv v
  else if mem_str kw dict_keys then
    match v with VNone => Some VNone | VDict d => Some (VFrozen (sort_items d)) | _ => None end
  else if str_eqb kw tuple_key then
    match v with VNone => Some VNone | VList l => Some (VTuple l) | VTuple l => Some (VTuple l) | _ => None end
  else Some v.

Fixpoint norm_all (c : ctx) : option ctx :=
  match c with
  | [] => Some []
  | (k, v) :: r =>
      match norm_value k v, norm_all r with
      | Some v', Some r' => Some ((KEY_ ++ k, v') :: r')
      | _, _ => None
      end
  end.

Definition field_value (renamed : ctx) (f : str) : pv :=
  match c_get f renamed with
  | Some VNone | None => if str_eqb f BLOCKSIZE_FIELD then VInt default_blocksize else VNone
  | Some v => v
  end.

(* the renaming loop is modelled as a map; contexts in which "key_"+k collides with another
   keyword are outside the model (NError) and never generated *)
Definition collides (c : ctx) : bool :=
  existsb (fun kv => match c_get (KEY_ ++ fst kv) c with Some _ => true | None => false end) c.

Definition normalizer (c : ctx) : nres :=
  if collides c then NError
  else if negb (forallb (fun k => match c_get k c with Some _ => true | None => false end) lowered) then NError
  else
    match norm_all c with
    | None => NError
    | Some renamed =>
        if forallb (fun kv => mem_str (fst kv) fields) renamed
        then NOk (map (field_value renamed) fields)
        else NTypeError
    end.
End Normalizer.

(* connection_from_host: builds the request context *)
Definition SCHEME : str := S!"scheme".
Definition HOST : str := S!"host".
Definition PORT : str := S!"port".

Definition port_by_scheme (scheme : str) : Z :=
  if str_eqb (ascii_lower scheme) (S!"https") then 443%Z else 80%Z.

Inductive hres := HCtx (c : ctx) | HNoHost.
Definition connection_from_host (defaults : ctx) (host : str) (port : option Z) (scheme : option str)
           (pool_kwargs : option ctx) : hres :=
  match host with
  | [] => HNoHost
  | _ =>
      let c := merge_pool_kwargs defaults pool_kwargs in
      let sch := match scheme with Some s => (match s with [] => S!"http" | _ => s end) | None => S!"http" end in
      let c := c_set SCHEME (VStr sch) c in
      let p := match port with Some 0%Z | None => port_by_scheme sch | Some p => p end in
      let c := c_set PORT (VInt p) c in
      HCtx (c_set HOST (VStr host) c)
  end.
