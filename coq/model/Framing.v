(* C11: how a request body is framed on the wire and what is sent when the request is sent again.

   Modelled code: util/request.py body_to_chunks, set_file_position, rewind_body; connection.py HTTPConnection.request
   (framing decision and the send loop); the body / body_pos plumbing of HTTPConnectionPool.urlopen (retry and redirect
   recursion) and PoolManager.urlopen (redirect recursion).  Bytes and code points are N; lengths are nat. *)
From Coq Require Import String List NArith Arith Bool.
From V Require Import lib.PyStr lib.Utf8.
Import ListNotations.
Local Open Scope N_scope.

(* ---------- bodies ---------- *)
Inductive chunk :=
| CB (b : list N)                        (* bytes *)
| CS (s : str)                           (* str: encoded as UTF-8 when sent *)
| CBuf (itemsize : nat) (b : list N).    (* another buffer object (bytearray, memoryview, array.array) *)

Record file := mkFile {
  f_text : bool;               (* a text file: read() returns str, encoded as UTF-8 block by block *)
  f_data : list N;             (* bytes, or code points for a text file *)
  f_pos : nat;
  f_has_tell : bool; f_tell_ok : bool;      (* tell() exists / works (OSError otherwise) *)
  f_has_seek : bool; f_seek_ok : bool
}.

Inductive body :=
| BNone
| BBytes (b : list N)
| BStr (s : str)
| BBuffer (itemsize : nat) (b : list N)
| BFile (f : file)
| BIter (one_shot : bool) (chunks : list chunk).   (* one_shot: a generator / iterator; otherwise a list or tuple *)

Definition chunk_bytes (c : chunk) : option (list N) :=
  match c with CB b => Some b | CS s => utf8 s | CBuf _ b => Some b end.

Fixpoint concat_opt (l : list (option (list N))) : option (list N) :=
  match l with
  | [] => Some []
  | Some x :: r => match concat_opt r with Some y => Some (x ++ y) | None => None end
  | None :: _ => None
  end.

(* the bytes a body stands for *)
Definition body_bytes (b : body) : option (list N) :=
  match b with
  | BNone => Some []
  | BBytes x => Some x
  | BStr s => utf8 s
  | BBuffer _ x => Some x
  | BFile f => let rest := skipn (f_pos f) (f_data f) in if f_text f then utf8 rest else Some rest
  | BIter _ cs => concat_opt (map chunk_bytes cs)
  end.

(* ---------- body_to_chunks ---------- *)
Definition methods_not_expecting_body : list str :=
  map str_of_string ["GET"; "HEAD"; "DELETE"; "TRACE"; "OPTIONS"; "CONNECT"]%string.

Fixpoint blocks (fuel : nat) (bs : nat) (l : list N) : list (list N) :=
  match fuel with
  | O => []
  | S f => match l with [] => [] | _ => firstn bs l :: blocks f bs (skipn bs l) end
  end.

(* chunks (None: no body at all), the Content-Length recommendation, the body object afterwards *)
Definition body_to_chunks (no_body_methods : list str) (b : body) (method : str) (blocksize : nat)
  : option (list chunk) * option nat * body :=
  match b with
  | BNone => (None, if mem_str (ascii_upper method) no_body_methods then None else Some O, b)
  | BBytes x => (Some [CB x], Some (length x), b)
  | BStr s => (Some [CS s], option_map (@length N) (utf8 s), b)
  | BBuffer k x => (Some [CBuf k x], Some (length x), b)          (* memoryview(body).nbytes *)
  | BFile f =>
      let rest := skipn (f_pos f) (f_data f) in
      let bl := blocks (S (length rest)) (Nat.max blocksize 1) rest in
      (Some (map (fun x => if f_text f then CS x else CB x) bl), None,
       BFile (mkFile (f_text f) (f_data f) (Nat.max (f_pos f) (length (f_data f))) (f_has_tell f) (f_tell_ok f) (f_has_seek f) (f_seek_ok f)))
  | BIter one cs => (Some cs, None, if one then BIter true [] else b)
  end.

(* ---------- HTTPConnection.request: the framing headers and the payload ---------- *)
Inductive framing := FrNone | FrCL (n : nat) | FrTE.

Definition hexchar (d : N) : N := if d <? 10 then 48 + d else 87 + d.
Fixpoint hexp (fuel : nat) (n : N) : list N :=       (* digit values, most significant first *)
  match fuel with
  | O => []
  | S f => if n <? 16 then [n] else hexp f (n / 16) ++ [n mod 16]
  end.
Definition to_hex (n : N) : list N := map hexchar (hexp (S (N.to_nat (N.size n))) n).

Definition CRLF : list N := [13; 10].

(* `nbytes`: how the length of a buffer chunk is taken (true: its size in bytes; false: len(), its item count) *)
Definition chunk_len (nbytes : bool) (c : chunk) (enc : list N) : nat :=
  match c with
  | CBuf k _ => if nbytes then length enc else Nat.div (length enc) (Nat.max k 1)
  | _ => length enc
  end.

Definition falsy (c : chunk) : bool :=
  match c with CB [] => true | CS [] => true | CBuf _ [] => true | _ => false end.

Fixpoint send_chunks (nbytes chunked : bool) (cs : list chunk) : option (list N) :=
  match cs with
  | [] => Some []
  | c :: r =>
      match chunk_bytes c, send_chunks nbytes chunked r with
      | Some enc, Some rest =>
          if falsy c then Some rest
          else if chunked then Some (to_hex (N.of_nat (chunk_len nbytes c enc)) ++ CRLF ++ enc ++ CRLF ++ rest)
          else Some (enc ++ rest)
      | _, _ => None
      end
  end.

Definition last_chunk : list N := [48; 13; 10; 13; 10].

(* request(method, body, chunked=flag) with no framing header given by the caller *)
Definition request_frame (nbm : list str) (nbytes : bool) (method : str) (b : body) (flag : bool) (blocksize : nat)
  : option (framing * list N * body) :=
  let '(chunks, cl, b') := body_to_chunks nbm b method blocksize in
  let '(fr, chunked) :=
    if flag then (FrTE, true)
    else match cl with
         | Some n => (FrCL n, false)
         | None => match chunks with Some _ => (FrTE, true) | None => (FrNone, false) end
         end in
  match send_chunks nbytes chunked (match chunks with Some cs => cs | None => [] end) with
  | Some payload => Some (fr, payload ++ (if chunked then last_chunk else []), b')
  | None => None
  end.

(* ---------- reading the framed payload back (the receiver's view, strict) ---------- *)
Definition hexval1 (c : N) : option N :=
  if (48 <=? c) && (c <=? 57) then Some (c - 48)
  else if (97 <=? c) && (c <=? 102) then Some (c - 87)
  else None.

Definition strip_crlf (w : list N) : option (list N) :=
  match w with a :: b :: r => if (a =? 13) && (b =? 10) then Some r else None | _ => None end.

(* the size line: hex digits up to CRLF *)
Fixpoint size_line (w : list N) (acc : N) (seen : bool) : option (N * list N) :=
  match w with
  | [] => None
  | c :: r =>
      if c =? 13 then (if seen then match strip_crlf w with Some r' => Some (acc, r') | None => None end else None)
      else match hexval1 c with Some d => size_line r (16 * acc + d) true | None => None end
  end.

Fixpoint decode_chunked (fuel : nat) (w : list N) : option (list N) :=
  match fuel with
  | O => None
  | S f =>
      match size_line w 0 false with
      | Some (n, r) =>
          if n =? 0 then match strip_crlf r with Some [] => Some [] | _ => None end
          else
          let k := N.to_nat n in
          if Nat.ltb (length r) (k + 2) then None else
          match strip_crlf (skipn k r) with
          | Some r' => match decode_chunked f r' with Some rest => Some (firstn k r ++ rest) | None => None end
          | None => None
          end
      | None => None
      end
  end.

Definition unframe (fr : framing) (w : list N) : option (list N) :=
  match fr with
  | FrNone => match w with [] => Some [] | _ => None end
  | FrCL n => if Nat.eqb (length w) n then Some w else None
  | FrTE => decode_chunked (S (length w)) w
  end.

(* ---------- sending the request again ---------- *)
Inductive pos := PNone | PInt (n : nat) | PFailed.
Inductive err := EUnrewindable | EValueError.

Definition rewind_body (b : body) (p : pos) : body + err :=
  match b, p with
  | BFile f, PInt n =>
      if f_has_seek f then
        if f_seek_ok f then inl (BFile (mkFile (f_text f) (f_data f) n (f_has_tell f) (f_tell_ok f) (f_has_seek f) (f_seek_ok f)))
        else inr EUnrewindable
      else inr EUnrewindable          (* a recorded position but no seek() *)
  | _, PFailed => inr EUnrewindable
  | _, _ => inr EValueError
  end.

Definition set_file_position (b : body) (p : pos) : (body * pos) + err :=
  match p with
  | PNone =>
      match b with
      | BFile f => if f_has_tell f then inl (b, if f_tell_ok f then PInt (f_pos f) else PFailed) else inl (b, PNone)
      | _ => inl (b, PNone)
      end
  | _ => match rewind_body b p with inl b' => inl (b', p) | inr e => inr e end
  end.

(* what happens to one attempt *)
Inductive outcome :=
| AOk                     (* a final response *)
| AErrBefore              (* fails before anything of the request is written (connect error): retried *)
| AErrAfter               (* fails after the request was written (read error): retried *)
| ARetryStatus            (* a status the policy retries (503) *)
| ARedirect (see_other : bool).   (* 303, or 301/302/307/308 (method and body kept) *)

Record sent := mkSent { t_method : str; t_framing : framing; t_wire : list N }.
Inductive final := ROk | RErr (e : err) | REncode | RScriptEnd.

Record params := mkParams {
  nbm : list str;             (* _METHODS_NOT_EXPECTING_BODY *)
  nbytes : bool;              (* chunk sizes are byte lengths *)
  pool_keeps_pos : bool;      (* the pool hands body_pos on to the retry / redirect it makes itself *)
  see_other_clears_pos : bool;   (* the pool's 303 branch forgets body_pos together with the body *)
  manager_keeps_pos : bool;   (* PoolManager.urlopen hands the recorded position on when it follows a redirect *)
  see_other_unchunks : bool   (* after a 303 the chunked flag is dropped with the body *)
}.

Definition GET : str := str_of_string "GET".

(* via_manager: redirects are followed by PoolManager.urlopen (the pool is called with redirect=False) *)
Fixpoint urlopen (P : params) (via_manager : bool) (hist : list outcome) (method : str) (b : body) (p : pos)
         (flag : bool) (blocksize : nat) : list sent * final :=
  match set_file_position b p with
  | inr e => ([], RErr e)
  | inl (b1, p1) =>
      match hist with
      | [] => ([], RScriptEnd)
      | AErrBefore :: rest => urlopen P via_manager rest method b1 (if pool_keeps_pos P then p1 else PNone) flag blocksize
      | o :: rest =>
          match request_frame (nbm P) (nbytes P) method b1 flag blocksize with
          | None => ([], REncode)
          | Some (fr, wire, b2) =>
              let s := mkSent method fr wire in
              let '(more, fin) :=
                match o with
                | AOk => ([], ROk)
                | ARedirect true =>
                    urlopen P via_manager rest GET BNone
                            (if via_manager then PNone else if see_other_clears_pos P then PNone else if pool_keeps_pos P then p1 else PNone)
                            (if see_other_unchunks P then false else flag) blocksize
                | ARedirect false =>
                    urlopen P via_manager rest method b2
                            (if via_manager then (if manager_keeps_pos P then p1 else PNone) else if pool_keeps_pos P then p1 else PNone)
                            flag blocksize
                | _ => urlopen P via_manager rest method b2 (if pool_keeps_pos P then p1 else PNone) flag blocksize
                end in
              (s :: more, fin)
          end
      end
  end.
