(* Executable wrapper for the C16 correspondence: case text -> observation text. *)
From Coq Require Import List NArith Bool.
From V Require Import lib.Sexp lib.PyStr model.HeaderDict.
Import ListNotations.
Local Open Scope N_scope.

Definition lower := ascii_lower.

Definition as_pair (s : sexp) : option (str * str) :=
  match s with
  | SL [a; b] => match as_str a, as_str b with Some x, Some y => Some (x, y) | _, _ => None end
  | _ => None
  end.

Definition as_src (s : sexp) : option src :=
  match s with
  | SL [SN 0; l] => option_map SrcPairs (as_list_of as_pair l)
  | SL [SN 1; l] => option_map SrcDict (as_list_of as_pair l)
  | SL [SN 2; SN o] => Some (SrcHD (N.to_nat o))
  | _ => None
  end.

Definition as_op (s : sexp) : option op :=
  match s with
  | SL [SN 0; SN o; k; v] =>
      match as_str k, as_str v with Some k, Some v => Some (OSet (N.to_nat o) k v) | _, _ => None end
  | SL [SN 1; SN o; k] => option_map (ODel (N.to_nat o)) (as_str k)
  | SL [SN 2; SN o; k; v; c] =>
      match as_str k, as_str v, as_bool c with
      | Some k, Some v, Some c => Some (OAdd (N.to_nat o) k v c) | _, _, _ => None end
  | SL [SN 3; SN o; s] => option_map (OExtend (N.to_nat o)) (as_src s)
  | SL [SN 4; SN o; s] => option_map (OUpdate (N.to_nat o)) (as_src s)
  | SL [SN 5; SN o; k; v] =>
      match as_str k, as_str v with Some k, Some v => Some (OSetDefault (N.to_nat o) k v) | _, _ => None end
  | SL [SN 6; SN o; k; d] =>
      match as_str k, as_opt as_str d with
      | Some k, Some d => Some (OPop (N.to_nat o) k d) | _, _ => None end
  | SL [SN 7; SN o] => Some (OPopItem (N.to_nat o))
  | SL [SN 8; SN o; k] => option_map (ODiscard (N.to_nat o)) (as_str k)
  | SL [SN 9; SN o] => Some (OClear (N.to_nat o))
  | SL [SN 10; SN o] => Some (OCopy (N.to_nat o))
  | SL [SN 11; s] => option_map ONew (as_src s)
  | SL [SN 12; SN o; s] => option_map (OOr (N.to_nat o)) (as_src s)
  | SL [SN 13; SN o; s] => option_map (OIor (N.to_nat o)) (as_src s)
  | SL [SN 14; SN o; s] => option_map (ORor (N.to_nat o)) (as_src s)
  | SL [SN 15; SN o] => Some (OPrepare (N.to_nat o))
  | _ => None
  end.

Definition s_pairs (l : list (str * str)) : sexp := s_list (s_pair s_str s_str) l.

Definition s_res (r : res) : sexp :=
  match r with
  | RNone => SL [SN 0]
  | RStr s => SL [SN 1; s_str s]
  | RPair k v => SL [SN 2; s_str k; s_str v]
  | RKeyError => SL [SN 3]
  | RNew id => SL [SN 4; s_nat id]
  | RInternal => SL [SN 5]
  end.

Definition observe_obj (probes : list str) (d : hd) : sexp :=
  SL [ s_opt s_pairs (iteritems lower d);
       s_opt s_pairs (itermerged lower d);
       s_list s_str (names d);
       s_nat (length d);
       s_list (fun k => SL [ s_opt s_str (getitem lower k d);
                             s_bool (contains lower k d);
                             s_list s_str (getlist lower k d) ]) probes ].

Definition observe_store (probes : list str) (st : store) : sexp :=
  SL [ s_list (observe_obj probes) st;
       s_list (fun a => s_list (fun b => s_opt s_bool (hd_eq lower a b)) st) st ].

Fixpoint run_obs (probes : list str) (ops : list op) (st : store) : list sexp :=
  match ops with
  | [] => []
  | p :: r =>
      let '(st', x) := step lower st p in
      SL [s_res x; observe_store probes st'] :: run_obs probes r st'
  end.

Definition run (c : sexp) : sexp :=
  match c with
  | SL [probes; ops] =>
      match as_list_of as_str probes, as_list_of as_op ops with
      | Some probes, Some ops => SL (run_obs probes ops [[]])
      | _, _ => s_bad_case
      end
  | _ => s_bad_case
  end.
