(* Executable wrapper for the C10 correspondence. *)
From Coq Require Import String List NArith Bool.
From V Require Import lib.Sexp lib.PyStr model.Url model.ReqHead model.Tunnel corr.Run_C14 gen.Gen_Body gen.Gen_Inject.
Import ListNotations.
Local Open Scope N_scope.

(* _encode_target with _TARGET_RE: path up to the first '?' or '#', query up to '#', the fragment dropped; no DOTALL, so a
   line feed in the fragment is only tolerated as its very last character *)
Definition encode_target (t : str) : option str :=
  let '(p, r1) := span (fun c => negb ((c =? QMARK) || (c =? HASH))) t in
  let '(q, r2) := match r1 with
                  | c :: r => if c =? QMARK then let '(q, r2) := span (fun c => negb (c =? HASH)) r in (Some q, r2) else (None, r1)
                  | [] => (None, [])
                  end in
  let frag_ok := match r2 with
                 | [] => true
                 | _ :: f => match rev f with
                             | [] => true
                             | l :: before => forallb (fun c => negb (c =? NL)) before
                             end
                 end in
  if frag_ok then
    Some (encode_invalid_chars path_char p ++ match q with Some q => QMARK :: encode_invalid_chars query_char q | None => [] end)
  else None.

Definition as_pair (s : sexp) : option (str * str) :=
  match s with SL [a; b] => match as_str a, as_str b with Some a, Some b => Some (a, b) | _, _ => None end | _ => None end.

Definition s_result (r : list N + err) : sexp :=
  match r with
  | inl w => SL [SN 0; s_str w]
  | inr EUrl => SL [SN 1; SN 2]
  | inr EAscii => SL [SN 1; SN 3]
  | inr _ => SL [SN 1; SN 1]
  end.

Definition HOSTV : list N := str_of_string "h.example".
Definition NBM : list str := match Gen_Body.methods_not_expecting_body with Some l => l | None => [] end.

Definition or_nil {A} (o : option (list A)) : list A := match o with Some l => l | None => [] end.
Definition or_false (o : option bool) : bool := match o with Some b => b | None => false end.

(* level 5: ProxyManager("http://proxy.example:3128", proxy_headers=hs).request("GET", url) for an https URL: what the proxy reads.
   The pool's _tunnel_host is the parsed host (already lower-case); the port defaults to 443. *)
Definition run_tunnel (u : str) (hs : list (str * str)) : sexp :=
  match parse_url (fun _ => None) u with
  | Some pu =>
      match Url.host pu with
      | Some [] => SL [SN 1; SN 1]            (* connection_from_host: LocationValueError("No host specified.") *)
      | Some h =>
          s_result (connect_head (or_false Gen_Inject.tunnel_validates) (or_nil Gen_Inject.tunnel_host_illegal_chars)
                                 (or_nil Gen_Inject.method_allowed_chars) (or_nil Gen_Inject.tunnel_value_illegal_chars)
                                 h (match Url.port pu with Some p => p | None => 443 end) hs)
      | None => SL [SN 1; SN 1]
      end
  | None => SL [SN 1; SN 4]
  end.

(* level 4: HTTP2Connection.putheader(name, value): the name that is kept, or ValueError *)
Definition run_h2 (n v : str) : sexp :=
  if or_false Gen_Inject.h2_putheader_checks then
    match h2_putheader (or_false Gen_Inject.h2_name_anchored) (or_nil Gen_Inject.h2_name_chars) n v with
    | Some l => SL [SN 0; s_str l]
    | None => SL [SN 1; SN 1]
    end
  else SL [SN 0; s_str (ascii_lower n)].

(* str.upper() as RequestMethods.request applies it to the method: ASCII letters, and the ten non-ASCII code points whose upper-case
   form is pure ASCII (the harness checks this table against the running interpreter); any other non-ASCII code point stays non-ASCII *)
Definition py_upper_cp (c : N) : str :=
  match c with
  | 223 => [83; 83] | 305 => [73] | 383 => [83]
  | 64256 => [70; 70] | 64257 => [70; 73] | 64258 => [70; 76] | 64259 => [70; 70; 73] | 64260 => [70; 70; 76] | 64261 => [83; 84] | 64262 => [83; 84]
  | _ => [upper_cp c]
  end.
Definition py_upper (s : str) : str := flat_map py_upper_cp s.

(* case: (level method url headers ua) *)
Definition run (c : sexp) : sexp :=
  match c with
  | SL [SN level; m; u; hs; ua] =>
      match as_str m, as_str u, as_list_of as_pair hs, as_str ua with
      | Some m, Some u, Some hs, Some ua =>
          match level with
          | 1 => s_result (request_head NBM HOSTV ua m u hs)
          | 4 => run_h2 m u
          | 5 => run_tunnel u hs
          | 2 => match encode_target u with
                 | Some t => s_result (request_head NBM HOSTV ua m t hs)
                 | None => SL [SN 1; SN 4]
                 end
          | _ =>
              match parse_url (fun _ => None) (str_of_string "http://h.example" ++ u) with
              | Some pu =>
                  match encode_target (request_uri pu) with
                  | Some t => s_result (request_head NBM HOSTV ua (py_upper m) t hs)
                  | None => SL [SN 1; SN 4]
                  end
              | None => SL [SN 1; SN 4]
              end
          end
      | _, _, _, _ => s_bad_case
      end
  | _ => s_bad_case
  end.
