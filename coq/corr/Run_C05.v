(* Executable wrapper for the C05 / C06 correspondence (redirect handling). *)
From Coq Require Import String List NArith ZArith QArith Bool.
From V Require Import lib.Sexp lib.PyStr model.Retry model.Redirect corr.Run_C04
  gen.Gen_Exc gen.Gen_Urlopen gen.Gen_Retry gen.Gen_Resp gen.Gen_Pm gen.Gen_Coll.
Import ListNotations.
Local Open Scope N_scope.

Definition as_origin (s : sexp) : option origin :=
  match s with
  | SL [sc; h; p] => match as_str sc, as_str h, as_opt as_Z p with
                     | Some sc, Some h, Some p => Some (mkO sc h p) | _, _, _ => None end
  | _ => None
  end.
Definition as_target (s : sexp) : option target :=
  match s with
  | SL [o; p] => match as_origin o, as_str p with Some o, Some p => Some (mkT o p) | _, _ => None end
  | _ => None
  end.
Definition as_hop (s : sexp) : option hop :=
  match s with
  | SL [st; loc] => match as_Z st, as_opt as_target loc with Some st, Some loc => Some (Hop st loc) | _, _ => None end
  | _ => None
  end.
Definition as_hdr (s : sexp) : option (str * str) :=
  match s with
  | SL [k; v] => match as_str k, as_str v with Some k, Some v => Some (k, v) | _, _ => None end
  | _ => None
  end.

(* a custom remove_headers_on_redirect list is part of the Retry encoding of this wrapper *)
Definition as_retry_rm (s : sexp) : option retry :=
  match s with
  | SL [r; rm] =>
      match as_retry r, as_opt (as_list_of as_str) rm with
      | Some r, Some None => Some r
      | Some r, Some (Some l) =>
          Some (init (r_total r) (r_connect r) (r_read r) (r_redirect r) (r_status r) (r_other r) (r_allowed r) (r_forcelist r)
                     (r_raise_on_redirect r) (r_raise_on_status r) (r_respect_retry_after r) (r_backoff_factor r) (r_backoff_max r) [] l)
      | _, _ => None
      end
  | _ => None
  end.
Definition as_arg_rm (s : sexp) : option retries_arg :=
  match s with
  | SL [SN 0] => Some RNone
  | SL [SN 1] => Some RFalse
  | SL [SN 2; z] => option_map RInt (as_Z z)
  | SL [SN 3; r] => option_map RObj (as_retry_rm r)
  | _ => None
  end.

Definition mkdefault (redirect : bool) (a : retries_arg) (d : option retry) : retry :=
  from_int a redirect d lib_default dflt_bmax dflt_allowed dflt_rm.

(* origins are printed with lower-cased host and without an explicit default port *)
Definition s_origin (o : origin) : sexp :=
  SL [s_str (o_scheme o); s_str (ascii_lower (o_host o));
      s_opt s_Z (if oz_eqb (o_port o) (default_port (o_scheme o)) then None else o_port o)].

(* headers are compared as a sorted multiset of (lower-cased name, value) *)
Fixpoint str_leb (a b : str) : bool :=
  match a, b with
  | [], _ => true
  | _ :: _, [] => false
  | x :: a', y :: b' => if N.ltb x y then true else if N.eqb x y then str_leb a' b' else false
  end.
Fixpoint ins_h (x : str * str) (l : list (str * str)) : list (str * str) :=
  match l with
  | [] => [x]
  | y :: r => if str_leb (fst x ++ [0] ++ snd x) (fst y ++ [0] ++ snd y) then x :: l else y :: ins_h x r
  end.
Definition sort_h (l : list (str * str)) : list (str * str) := fold_right ins_h [] l.

(* repeated fields are merged (values joined with ", " in order of appearance): a header list sent as
   several lines and the same list folded into one line are the same observation *)
Fixpoint merge_in (k v : str) (l : list (str * str)) : list (str * str) :=
  match l with
  | [] => [(k, v)]
  | (k', v') :: r => if str_eqb k k' then (k', v' ++ [44; 32] ++ v) :: r else (k', v') :: merge_in k v r
  end.
Definition merge_fields (l : list (str * str)) : list (str * str) :=
  fold_left (fun acc kv => merge_in (fst kv) (snd kv) acc) l [].

Definition s_log (l : logent) : sexp :=
  SL [s_origin (l_origin l); s_str (l_path l); s_str (q_method (l_req l)); s_bool (q_body (l_req l));
      s_list (fun kv => SL [s_str (fst kv); s_str (snd kv)])
             (sort_h (merge_fields (map (fun kv => (ascii_lower (fst kv), snd kv)) (q_headers (l_req l)))))].
Definition s_outcome (o : outcome) : sexp :=
  match o with
  | OResponse st => SL [SN 0; s_Z st]
  | OMaxRetry => SL [SN 1]
  | OHostChanged => SL [SN 2]
  | OScriptEnd => SL [SN 9]
  end.

Definition getb (o : option bool) : bool := match o with Some b => b | None => false end.

(* case: (kind redirect assert_same start method body headers kw_retries pool_retries proxy script)
   kind 0 = PoolManager, 1 = bare pool *)
Definition run (c : sexp) : sexp :=
  match c with
  | SL [SN kind; rd; asame; start; meth; body; hdrs; kwr; pr; proxy; script] =>
      match as_bool rd, as_bool asame, as_target start, as_str meth, as_bool body, as_list_of as_hdr hdrs,
            as_arg_rm kwr, as_arg_rm pr, as_opt as_origin proxy, as_list_of as_hop script with
      | Some rd, Some asame, Some start, Some meth, Some body, Some hdrs, Some kwr, Some pr, Some proxy, Some script =>
          let rq := mkRq meth body hdrs in
          let '(log, out) :=
            match kind with
            | 0 => manager_loop LAT (getl Gen_Urlopen.retry_connection_error) (getl Gen_Urlopen.retry_read_error)
                     (getl Gen_Resp.redirect_statuses) (getl Gen_Coll.content_specific_headers)
                     (match Gen_Pm.manager_retries_fallback with Some n => n | None => 0 end) mkdefault
                     script rd start rq kwr pr proxy []
            | _ => pool_loop LAT (getl Gen_Urlopen.retry_connection_error) (getl Gen_Urlopen.retry_read_error)
                     (getl Gen_Resp.redirect_statuses) (getl Gen_Coll.content_specific_headers) mkdefault
                     script rd asame (pool_of (t_origin start)) start rq kwr pr []
            end in
          SL [s_list s_log log; s_outcome out]
      | _, _, _, _, _, _, _, _, _, _ => s_bad_case
      end
  | _ => s_bad_case
  end.
