(* Executable wrapper for the C03 correspondence. *)
From Coq Require Import String List NArith Bool.
From V Require Import lib.Sexp model.Wire gen.Gen_Read.
Import ListNotations.
Local Open Scope N_scope.

Definition as_reply (s : sexp) : option reply :=
  match s with
  | SL [SN 1] => Some (mkReply 1 0 FLen 0 0 0 true SNone false)
  | SL [SN 2] => Some (mkReply 2 0 FLen 0 0 0 true SNone false)
  | SL [SN 0; SN st; SN fr; SN n; SN f; SN sent; keep; SN sy; ea] =>
      let fo := match fr with 0 => Some FLen | 1 => Some FEof | 2 => Some FChunked | _ => None end in
      let so := match sy with 0 => Some SNone | 1 => Some SSame | 2 => Some SSepResp | 3 => Some SSepJunk | 4 => Some SLate | _ => None end in
      match fo, so, as_bool keep, as_bool ea with
      | Some fr, Some sy, Some keep, Some ea =>
          Some (mkReply 0 (N.to_nat st) fr (N.to_nat n) (N.to_nat f) (N.to_nat sent) keep sy ea)
      | _, _, _, _ => None
      end
  | _ => None
  end.

Definition as_caller (s : sexp) : option caller :=
  match s with
  | SL [SN 0; _] => Some CReadAll
  | SL [SN 1; SN k] => Some (CReadK (N.to_nat k))
  | SL [SN 2; _] => Some CRelease
  | SL [SN 3; _] => Some CKeep
  | SL [SN 4; _] => Some CDrain
  | SL [SN 5; _] => Some CClose
  | SL [SN 6; SN a] => Some (CStream (N.to_nat a))
  | SL [SN 7; SN k] => Some (CRead1 (N.to_nat k))
  | _ => None
  end.

Definition as_req (s : sexp) : option request :=
  match s with
  | SL [h; p; c] =>
      match as_bool h, as_bool p, as_caller c with
      | Some h, Some p, Some c => Some (mkReq h p c) | _, _, _ => None end
  | _ => None
  end.

(* runs of equal markers, empty runs dropped; tag i prints as the marker byte the harness uses *)
Fixpoint merge (ch : list (nat * nat)) : list (nat * nat) :=
  match ch with
  | [] => []
  | (t, c) :: r =>
      match c, merge r with
      | O, m => m
      | _, (t', c') :: m => if Nat.eqb t t' then (t, c + c')%nat :: m else (t, c) :: (t', c') :: m
      | _, [] => [(t, c)]
      end
  end.
Definition marker (t : nat) : nat := if Nat.leb 100 t then (97 + (t - 100))%nat else (65 + t)%nat.

Definition s_result (r : result) : sexp :=
  match r_outcome r with
  | OScriptEnd => SL [SN 3; SN 0; SL []; SN 0; SL []; SN 0]
  | o =>
      SL [SN (match o with OResp => 0 | _ => 1 end); s_nat (r_status r);
          s_list (fun tc => SL [s_nat (marker (fst tc)); s_nat (snd tc)]) (merge (r_delivered r));
          s_bool (r_read_err r); s_opt s_nat (r_sock r); s_nat (r_connects r)]
  end.

(* case: (maxsize reqs replies) *)
(* release_conn() as the source has it *)
Definition rc : bool := match Gen_Read.release_closes_unread with Some b => b | None => false end.

Definition run (c : sexp) : sexp :=
  match c with
  | SL [SN m; reqs; replies] =>
      match as_list_of as_req reqs, as_list_of as_reply replies with
      | Some reqs, Some replies =>
          SL (map s_result (run_history rc 3 (N.to_nat m) (init (N.to_nat m) replies) 0 reqs))
      | _, _ => s_bad_case
      end
  | _ => s_bad_case
  end.
