(* Executable wrapper for the C18 correspondence. *)
From Coq Require Import String List NArith ZArith Bool.
From V Require Import lib.Sexp lib.PyStr model.PoolKey gen.Gen_Key.
Import ListNotations.
Local Open Scope N_scope.

Definition as_item (s : sexp) : option (str * str) :=
  match s with
  | SL [a; b] => match as_str a, as_str b with Some x, Some y => Some (x, y) | _, _ => None end
  | _ => None
  end.
Definition as_pv (s : sexp) : option pv :=
  match s with
  | SL [SN 0] => Some VNone
  | SL [SN 1; x] => option_map VStr (as_str x)
  | SL [SN 2; x] => option_map VInt (as_Z x)
  | SL [SN 3; x] => option_map VBool (as_bool x)
  | SL [SN 4; SN i] => Some (VObj i)
  | SL [SN 5; x] => option_map VDict (as_list_of as_item x)
  | SL [SN 7; x] => option_map VList (as_list_of (as_list_of as_Z) x)
  | SL [SN 8; x] => option_map VTuple (as_list_of (as_list_of as_Z) x)
  | _ => None
  end.
Definition as_kv (s : sexp) : option (str * pv) :=
  match s with
  | SL [k; v] => match as_str k, as_pv v with Some k, Some v => Some (k, v) | _, _ => None end
  | _ => None
  end.
Definition as_ctx (s : sexp) : option ctx := as_list_of as_kv s.

Record req := { r_host : str; r_port : option Z; r_scheme : option str; r_kw : option ctx }.
Definition as_req (s : sexp) : option req :=
  match s with
  | SL [h; p; sc; kw] =>
      match as_str h, as_opt as_Z p, as_opt as_str sc, as_opt as_ctx kw with
      | Some h, Some p, Some sc, Some kw => Some {| r_host := h; r_port := p; r_scheme := sc; r_kw := kw |}
      | _, _, _, _ => None
      end
  | _ => None
  end.

Definition gen_ok : option (list str * list str * list str * str * Z * list str) :=
  match Gen_Key.poolkey_fields, Gen_Key.norm_dict_keys, Gen_Key.norm_lowered, Gen_Key.norm_tuple_key,
        Gen_Key.default_blocksize, Gen_Key.popped_before_key with
  | Some f, Some d, Some l, Some t, Some b, Some p => Some (f, d, l, t, b, p)
  | _, _, _, _, _, _ => None
  end.

Fixpoint keys_eqb (a b : list pv) : bool :=
  match a, b with [], [] => true | x :: a', y :: b' => pv_eqb x y && keys_eqb a' b' | _, _ => false end.

Fixpoint find_pool (k : list pv) (pools : list (list pv * N)) : option N :=
  match pools with [] => None | (k', i) :: r => if keys_eqb k k' then Some i else find_pool k r end.

Fixpoint run_reqs (g : list str * list str * list str * str * Z * list str)
         (defaults : ctx) (reqs : list req) (pools : list (list pv * N)) : list sexp :=
  let '(f, d, l, t, b, popped) := g in
  match reqs with
  | [] => []
  | r :: rest =>
      match connection_from_host defaults (r_host r) (r_port r) (r_scheme r) (r_kw r) with
      | HNoHost => SL [SN 2] :: run_reqs g defaults rest pools
      | HCtx c =>
          let c := fold_left (fun c k => c_del k c) popped c in
          let sch := match c_get SCHEME c with Some (VStr s) => ascii_lower s | _ => [] end in
          if negb (str_eqb sch (S!"http") || str_eqb sch (S!"https")) then SL [SN 3] :: run_reqs g defaults rest pools
          else
            match normalizer f d l t b c with
            | NTypeError => SL [SN 1] :: run_reqs g defaults rest pools
            | NError => SL [SN 4] :: run_reqs g defaults rest pools
            | NOk k =>
                match find_pool k pools with
                | Some i => SL [SN 0; SN i] :: run_reqs g defaults rest pools
                | None =>
                    (* _new_pool: pool_classes_by_scheme[scheme] with the scheme as given (KeyError unless exactly http/https) *)
                    let raw := match c_get SCHEME c with Some (VStr s) => s | _ => [] end in
                    if negb (str_eqb raw (S!"http") || str_eqb raw (S!"https")) then SL [SN 4] :: run_reqs g defaults rest pools
                    else
                    let i := N.of_nat (length pools) in
                    SL [SN 0; SN i] :: run_reqs g defaults rest (pools ++ [(k, i)])
                end
            end
      end
  end.

Definition run (c : sexp) : sexp :=
  match c with
  | SL [defaults; reqs] =>
      match as_ctx defaults, as_list_of as_req reqs, gen_ok with
      | Some d, Some rs, Some g => SL (run_reqs g d rs [])
      | _, _, _ => s_bad_case
      end
  | _ => s_bad_case
  end.
