(* Executable wrapper for the C19 correspondence. *)
From Coq Require Import List NArith ZArith QArith Bool.
From V Require Import lib.Sexp model.Timeout.
Import ListNotations.

Definition s_Q (q : Q) : sexp :=
  let r := Qred q in SL [s_Z (Qnum r); SN (Npos (Qden r))].
Definition as_Q (s : sexp) : option Q :=
  match s with
  | SL [z; SN (Npos d)] => match as_Z z with Some n => Some (n # d) | None => None end
  | _ => None
  end.

Definition as_raw (s : sexp) : option raw :=
  match s with
  | SL [SN 0] => Some RDefault
  | SL [SN 1] => Some RNone
  | SL [SN 2] => Some RBool
  | SL [SN 3; q] => option_map RNum (as_Q q)
  | SL [SN 4] => Some RBad
  | _ => None
  end.

(* (total connect read) *)
Definition as_triple (s : sexp) : option (raw * raw * raw) :=
  match s with
  | SL [a; b; c] =>
      match as_raw a, as_raw b, as_raw c with
      | Some a, Some b, Some c => Some (a, b, c)
      | _, _, _ => None
      end
  | _ => None
  end.

(* request: (kind arg d server_closes) ; kind 0 default, 1 = Timeout object #arg, 2 = raw *)
Record reqspec := { rq_kind : N; rq_arg : sexp; rq_d : Q; rq_close : bool }.
Definition as_req (s : sexp) : option reqspec :=
  match s with
  | SL [SN k; a; d; c] =>
      match as_Q d, as_bool c with
      | Some d, Some c => Some {| rq_kind := k; rq_arg := a; rq_d := d; rq_close := c |}
      | _, _ => None
      end
  | _ => None
  end.

Definition s_oq (o : option Q) : sexp := s_opt s_Q o.
Definition s_event (e : event) : sexp :=
  match e with EConnect v => SL [SN 0; s_oq v] | ESetTimeout v => SL [SN 1; s_oq v] end.
Definition s_outcome (o : outcome) : sexp :=
  SN (match o with OOk => 0 | OReadTimeout => 1 | OValueError => 2 | OStateError => 3 end)%N.

Fixpoint run_reqs (tunnel : bool) (pool : timeout) (objs : list (option timeout)) (reqs : list reqspec)
         (have_conn : bool) (now : Q) : list sexp :=
  match reqs with
  | [] => []
  | r :: rest =>
      let rq : option reqt :=
        match rq_kind r with
        | 0%N => Some ReqDefault
        | 1%N => match rq_arg r with
                 | SN i => match nth (N.to_nat i) objs None with Some t => Some (ReqTimeout t) | None => None end
                 | _ => None
                 end
        | _ => option_map ReqRaw (as_raw (rq_arg r))
        end in
      match rq with
      | None => [s_bad_case]
      | Some rq =>
          let fresh := negb have_conn in
          let '(evs, out, now') := (if tunnel then tunnelled_request else make_request) None pool rq fresh (rq_d r) now in
          let have' := match out with OOk => negb (rq_close r) | OValueError => have_conn | _ => false end in
          SL [s_list s_event evs; s_outcome out] :: run_reqs tunnel pool objs rest have' now'
      end
  end.

(* case: (poolkind poolarg objs reqs): poolkind 0 = Timeout(total,connect,read), 1 = raw number/None/default *)
Definition run_with (tunnel : bool) (pk : N) (parg objs reqs : sexp) : sexp :=
      let pool : option (option timeout) :=
        match pk with
        | 0%N => option_map (fun '(a, b, c) => mk a b c) (as_triple parg)
        | _ => option_map from_float (as_raw parg)
        end in
      match pool, as_list_of as_triple objs, as_list_of as_req reqs with
      | Some pool, Some objs, Some reqs =>
          let built := map (fun '(a, b, c) => mk a b c) objs in
          let built_ok := s_list (fun o => s_bool (match o with Some _ => true | None => false end)) built in
          match pool with
          | None => SL [SN 0; built_ok]                          (* ValueError building the pool's Timeout *)
          | Some p => SL [SN 1; built_ok; SL (run_reqs tunnel p built reqs false 1000)]
          end
      | _, _, _ => s_bad_case
      end.

(* case: (poolkind poolarg objs reqs) for a plain-HTTP pool, (poolkind poolarg objs reqs 1) through a CONNECT tunnel *)
Definition run (c : sexp) : sexp :=
  match c with
  | SL [SN pk; parg; objs; reqs] => run_with false pk parg objs reqs
  | SL [SN pk; parg; objs; reqs; SN 1] => run_with true pk parg objs reqs
  | _ => s_bad_case
  end.
