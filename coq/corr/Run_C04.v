(* Executable wrapper for the C04 correspondence. *)
From Coq Require Import String List NArith ZArith QArith Bool.
From V Require Import lib.Sexp lib.PyStr model.Retry model.RetryLoop gen.Gen_Exc gen.Gen_Urlopen gen.Gen_Retry.
Import ListNotations.
Local Open Scope N_scope.

Definition getl {A} (o : option (list A)) : list A := match o with Some l => l | None => [] end.
Definition LAT : lattice := getl Gen_Exc.ancestors.

Definition s_Q (q : Q) : sexp := let r := Qred q in SL [s_Z (Qnum r); SN (Npos (Qden r))].
Definition as_Q (s : sexp) : option Q :=
  match s with
  | SL [z; SN (Npos d)] => match as_Z z with Some n => Some (n # d) | None => None end
  | _ => None
  end.

Definition as_count (s : sexp) : option count :=
  match s with
  | SL [SN 0] => Some CFalse
  | SL [SN 1] => Some CNone
  | SL [SN 2; z] => option_map CInt (as_Z z)
  | _ => None
  end.

Definition dflt_allowed : list str := getl Gen_Retry.default_allowed_methods.
Definition dflt_rm : list str := getl Gen_Retry.default_remove_headers_on_redirect.
Definition dflt_bmax : Q := match Gen_Retry.default_backoff_max with Some z => inject_Z z | None => 0%Q end.
Definition lib_default : retry :=
  default_retry (match Gen_Retry.default_total with Some z => z | None => 0%Z end) dflt_bmax dflt_allowed dflt_rm.

Definition as_allowed (s : sexp) : option (option (list str)) :=
  match s with
  | SL [SN 0] => Some (Some dflt_allowed)
  | SL [SN 1] => Some None
  | SL [SN 2; l] => option_map Some (as_list_of as_str l)
  | _ => None
  end.

(* (total connect read redirect status other allowed forcelist raise_on_redirect raise_on_status respect bf bmax) *)
Definition as_retry (s : sexp) : option retry :=
  match s with
  | SL [t; c; r; rd; st; o; al; fl; rr; rs; ra; bf; bm] =>
      match as_count t, as_count c, as_count r, as_count rd, as_count st, as_count o, as_allowed al,
            as_list_of as_Z fl, as_bool rr, as_bool rs, as_bool ra, as_Q bf, as_Q bm with
      | Some t, Some c, Some r, Some rd, Some st, Some o, Some al, Some fl, Some rr, Some rs, Some ra, Some bf, Some bm =>
          Some (init t c r rd st o al fl rr rs ra bf bm [] dflt_rm)
      | _, _, _, _, _, _, _, _, _, _, _, _, _ => None
      end
  | _ => None
  end.

Definition as_arg (s : sexp) : option retries_arg :=
  match s with
  | SL [SN 0] => Some RNone
  | SL [SN 1] => Some RFalse
  | SL [SN 2; z] => option_map RInt (as_Z z)
  | SL [SN 3; r] => option_map RObj (as_retry r)
  | _ => None
  end.

Definition as_attempt (s : sexp) : option attempt :=
  match s with
  | SL [SN c; SN sd; rv] =>
      let co := match c with 0 => Some COk | 1 => Some CRefused | 2 => Some CTimeout | _ => None end in
      let so := match sd with 0 => Some SOk | 1 => Some SEpipe | 2 => Some SReset | 3 => Some SOther | 4 => Some STimeout | _ => None end in
      let ro := match rv with
                | SL [SN 0; st; ra; ka] =>
                    match as_Z st, as_opt as_Z ra, as_bool ka with
                    | Some st, Some ra, Some ka => Some (RResp st ra ka) | _, _, _ => None end
                | SL [SN 1] => Some RTimeout | SL [SN 2] => Some RReset | SL [SN 3] => Some REof | SL [SN 4] => Some RGarbage
                | _ => None
                end in
      match co, so, ro with Some a, Some b, Some c => Some (mkA a b c) | _, _, _ => None end
  | _ => None
  end.

Definition s_exn (e : exn) : sexp := SL [s_str (e_cls e); s_opt s_str (e_inner e)].
Definition s_final (f : final) : sexp :=
  match f with
  | FResponse st => SL [SN 0; s_Z st]
  | FRaise e => SL [SN 1; s_exn e]
  | FMaxRetry r => SL [SN 2; s_opt s_exn r]
  | FScriptEnd => SL [SN 9]
  end.
Definition s_wire (w : wire) : sexp := SL [s_bool (w_connected w); s_bool (w_sent w)].

(* case: (mode method retries-arg script) *)
(* urlopen as the source has it *)
Definition tunnel_up : bool := match Gen_Urlopen.tunnel_errors_are_not_proxy_errors with Some b => b | None => false end.

Definition run (c : sexp) : sexp :=
  match c with
  | SL [SN m; meth; arg; script] =>
      match as_str meth, as_arg arg, as_list_of as_attempt script with
      | Some meth, Some arg, Some script =>
          let r := from_int arg false None lib_default dflt_bmax dflt_allowed dflt_rm in
          let tr := run_loop LAT (getl Gen_Urlopen.urlopen_to_sslerror) (getl Gen_Urlopen.urlopen_to_proxyerror)
                             (getl Gen_Urlopen.urlopen_to_protocolerror) (getl Gen_Urlopen.retry_connection_error)
                             (getl Gen_Urlopen.retry_read_error) (getl Gen_Retry.retry_after_status_codes)
                             script (match m with 0 => Direct | 1 => Forwarding | _ => Tunnelling tunnel_up end) meth r in
          SL [s_list s_wire (t_wire tr); s_list s_Q (t_sleeps tr); s_final (t_final tr)]
      | _, _, _ => s_bad_case
      end
  | _ => s_bad_case
  end.
