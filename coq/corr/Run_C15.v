(* Executable wrapper for the C15 correspondence. *)
From Coq Require Import String List NArith Bool.
From V Require Import lib.Sexp lib.PyStr model.Url model.WireUrl gen.Gen_Wire corr.Run_C14.
Import ListNotations.
Local Open Scope N_scope.

Definition clean : bool := match Gen_Wire.absolute_target_clean with Some b => b | None => false end.

Definition wire_for (t : list (str * option str)) (via : bool) (s : str) : option (url * wire) :=
  match parse_url (fun l => lookup l t) s with
  | Some u => match wire_of (fun l => lookup l t) clean via u with Some w => Some (u, w) | None => None end
  | None => None
  end.

Definition HOSTP : str := str_of_string "Host: ".

Definition run (c : sexp) : sexp :=
  match c with
  | SL [u; t; v; t2; via] =>
      match as_str u, as_list_of as_idna t, as_opt as_str v, as_list_of as_idna t2, as_bool via with
      | Some u, Some t, Some v, Some t2, Some via =>
          match wire_for t via u with
          | None => SL [SN 0]
          | Some (pu, w) =>
              let var :=
                match v with
                | None => SL []
                | Some vs =>
                    match wire_for t2 via vs with
                    | None => SL [SN 0]
                    | Some (pv, w2) =>
                        let http_via_proxy := via && str_eqb (match scheme pu with Some s => s | None => [] end) HTTP
                                                  && str_eqb (match scheme pv with Some s => s | None => [] end) HTTP in
                        let same_pool := match pool_key pu, pool_key pv with
                                         | Some (a, b, c), Some (a', b', c') => str_eqb a a' && str_eqb b b' && (c =? c')
                                         | _, _ => false
                                         end in
                        SL [SN 1; s_bool (http_via_proxy || same_pool);
                            s_bool (str_eqb (w_line w) (w_line w2) && str_eqb (w_host w) (w_host w2));
                            s_str (if http_via_proxy || same_pool then [] else w_dns w2)]
                    end
                end in
              SL [SN 1; s_str (w_dns w); SN (w_port w); s_opt s_str (w_sni w); s_str (w_line w);
                  SL [s_str (HOSTP ++ w_host w)]; s_opt s_str (w_connect w); var]
          end
      | _, _, _, _, _ => s_bad_case
      end
  | _ => s_bad_case
  end.
