(* Executable wrapper for the C02 correspondence. *)
From Coq Require Import String List NArith Bool.
From V Require Import lib.Sexp model.PoolConc gen.Gen_Conc.
Import ListNotations.
Local Open Scope N_scope.

Definition warn_safe : bool := match Gen_Conc.warning_reads_pool_safely with Some b => b | None => false end.

Definition as_op (s : sexp) : option op :=
  match s with SN 0 => Some Request | SN 1 => Some RequestFail | SN 2 => Some Close | SN 3 => Some RequestRetry | _ => None end.

Fixpoint hung_threads (ths : list thread) (i : nat) : list nat :=
  match ths with
  | [] => []
  | th :: r => (match t_pc th with PIdle => [] | _ => [i] end) ++ hung_threads r (S i)
  end.

(* case: (maxsize block progs schedule) *)
Definition run (c : sexp) : sexp :=
  match c with
  | SL [SN m; b; progs; sched] =>
      match as_bool b, as_list_of (as_list_of as_op) progs, as_list_of as_nat sched with
      | Some b, Some progs, Some sched =>
          let st0 := init (N.to_nat m) progs in
          let fuel := (length sched + 40 * (List.length progs) * 3 + 50)%nat in
          let st := PoolConc.run warn_safe fuel (N.to_nat m) b st0 sched in
          SL [s_list (fun th => s_list s_nat (t_outs th)) (s_threads st); s_list s_nat (hung_threads (s_threads st) 0);
              s_bool (s_closed st); s_nat (length (s_q st)); s_nat (length (s_open st)); s_nat (s_max_open st); s_nat (s_next st)]
      | _, _, _ => s_bad_case
      end
  | _ => s_bad_case
  end.
