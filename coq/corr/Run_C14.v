(* Executable wrapper for the C14 correspondence. *)
From Coq Require Import String List NArith Bool.
From V Require Import lib.Sexp lib.PyStr model.Url.
Import ListNotations.
Local Open Scope N_scope.

Definition as_idna (s : sexp) : option (str * option str) :=
  match s with
  | SL [k; v] => match as_str k, as_opt as_str v with Some k, Some v => Some (k, v) | _, _ => None end
  | _ => None
  end.

Fixpoint lookup (k : str) (t : list (str * option str)) : option str :=
  match t with
  | [] => Some [0; 0; 7]        (* unrecorded query: poison *)
  | (k', v) :: r => if str_eqb k k' then v else lookup k r
  end.

Definition s_ostr (o : option str) : sexp := s_opt s_str o.

Definition s_url (u : url) : sexp :=
  SL [SN 1; s_ostr (scheme u); s_ostr (auth u); s_ostr (host u); s_opt SN (port u);
      s_ostr (path u); s_ostr (query u); s_ostr (fragment u); s_str (url_string u); s_str (request_uri u)].

Definition run (c : sexp) : sexp :=
  match c with
  | SL [u; t] =>
      match as_str u, as_list_of as_idna t with
      | Some u, Some t =>
          match parse_url (fun l => lookup l t) u with
          | Some r => s_url r
          | None => SL [SN 0]
          end
      | _, _ => s_bad_case
      end
  | _ => s_bad_case
  end.
