(* Executable wrapper for the C11 correspondence. *)
From Coq Require Import String List NArith Bool.
From V Require Import lib.Sexp lib.PyStr model.Framing gen.Gen_Body.
Import ListNotations.
Local Open Scope N_scope.

Definition getb (o : option bool) : bool := match o with Some b => b | None => false end.
Definition the_params : params :=
  mkParams (match Gen_Body.methods_not_expecting_body with Some l => l | None => [] end)
           (getb Gen_Body.chunk_size_is_nbytes) (getb Gen_Body.pool_passes_body_pos)
           (getb Gen_Body.pool_see_other_clears_body_pos) (getb Gen_Body.manager_keeps_body_pos) (getb Gen_Body.see_other_unchunks).

Definition as_chunk (s : sexp) : option chunk :=
  match s with
  | SL [SN 0; b] => option_map CB (as_str b)
  | SL [SN 1; b] => option_map CS (as_str b)
  | SL [SN 2; SN k; b] => option_map (CBuf (N.to_nat k)) (as_str b)
  | _ => None
  end.

Definition as_body (s : sexp) : option body :=
  match s with
  | SL [SN 0] => Some BNone
  | SL [SN 1; b] => option_map BBytes (as_str b)
  | SL [SN 2; b] => option_map BStr (as_str b)
  | SL [SN 3; SN k; b] => option_map (BBuffer (N.to_nat k)) (as_str b)
  | SL [SN 4; tx; d; SN p; ht; tok; hs; sok] =>
      match as_bool tx, as_str d, as_bool ht, as_bool tok, as_bool hs, as_bool sok with
      | Some tx, Some d, Some ht, Some tok, Some hs, Some sok => Some (BFile (mkFile tx d (N.to_nat p) ht tok hs sok))
      | _, _, _, _, _, _ => None
      end
  | SL [SN 5; one; cs] =>
      match as_bool one, as_list_of as_chunk cs with Some one, Some cs => Some (BIter one cs) | _, _ => None end
  | _ => None
  end.

Definition as_outcome (s : sexp) : option outcome :=
  match s with
  | SN 0 => Some AOk | SN 1 => Some AErrBefore | SN 2 => Some AErrAfter | SN 3 => Some ARetryStatus
  | SN 4 => Some (ARedirect true) | SN 5 => Some (ARedirect false) | _ => None
  end.

Definition s_framing (f : framing) : sexp :=
  match f with FrNone => SL [SN 0] | FrCL n => SL [SN 1; s_nat n] | FrTE => SL [SN 2] end.
Definition s_sent (t : sent) : sexp := SL [s_str (t_method t); s_framing (t_framing t); s_str (t_wire t)].
Definition s_final (f : final) : sexp :=
  match f with ROk => SN 0 | RErr EUnrewindable => SN 1 | RErr EValueError => SN 2 | REncode => SN 3 | RScriptEnd => SN 9 end.

(* case: (via_manager method body chunked blocksize history) *)
Definition run (c : sexp) : sexp :=
  match c with
  | SL [vm; m; b; fl; SN bs; h] =>
      match as_bool vm, as_str m, as_body b, as_bool fl, as_list_of as_outcome h with
      | Some vm, Some m, Some b, Some fl, Some h =>
          let '(sends, fin) := urlopen the_params vm h m b PNone fl (N.to_nat bs) in
          SL [s_list s_sent sends; s_final fin]
      | _, _, _, _, _ => s_bad_case
      end
  | _ => s_bad_case
  end.
