(* Executable wrapper for the C12 correspondence. *)
From Coq Require Import String List NArith Bool.
From V Require Import lib.Sexp model.ReadBody gen.Gen_Read.
Import ListNotations.
Local Open Scope N_scope.

Definition getb (o : option bool) : bool := match o with Some b => b | None => false end.
Definition rb : bool := getb Gen_Read.read_all_drains_buffer.
Definition sg : bool := getb Gen_Read.stream_checks_progress.
Definition fe : bool := getb Gen_Read.read_flushes_at_end.

Definition as_call (s : sexp) : option call :=
  match s with
  | SL [SN 0; a] => option_map CRead (as_opt as_nat a)
  | SL [SN 1; a] => option_map CRead1 (as_opt as_nat a)
  | SL [SN 2; a] => match as_opt as_nat a with Some (Some k) => Some (CReadinto k) | _ => None end
  | _ => None
  end.

Definition as_finish (s : sexp) : option finish :=
  match s with
  | SL [SN 0; _] => Some FNone
  | SL [SN 1; _] => Some FRead
  | SL [SN 2; a] => option_map FStream (as_opt as_nat a)
  | SL [SN 3; a] => option_map FReadChunked (as_opt as_nat a)
  | SL [SN 4; _] => Some FIter
  | SL [SN 5; _] => Some FData
  | _ => None
  end.

Definition s_pieces (ps : list (list N)) : sexp := SL (map s_str ps).

(* case: (raw tbl full has_decoder decode chunked chunks calls finish tape) *)
Definition run (c : sexp) : sexp :=
  match c with
  | SL [raw; tbl; full; hd; dc; ch; chunks; calls; fin; tape] =>
      match as_str raw, as_list_of as_nat tbl, as_str full, as_bool hd, as_bool dc, as_bool ch, as_list_of as_nat chunks,
            as_list_of as_call calls, as_finish fin, as_list_of as_nat tape with
      | Some raw, Some tbl, Some full, Some hd, Some dc, Some ch, Some chunks, Some calls, Some fin, Some tape =>
          let '(ps, fs) := ReadBody.run (mkDec tbl full) hd dc rb sg fe ch raw chunks tape calls fin in
          SL [s_pieces ps; s_pieces fs; s_list s_nat tape]
      | _, _, _, _, _, _, _, _, _, _ => s_bad_case
      end
  | _ => s_bad_case
  end.
