(* Executable wrapper for the C20 correspondence. *)
From Coq Require Import String List NArith Bool.
From V Require Import lib.Sexp lib.PyStr lib.Utf8 model.Multipart.
Import ListNotations.
Local Open Scope N_scope.

Definition as_data (s : sexp) : option data :=
  match s with
  | SL [SN 0; x] => option_map DStr (as_str x)
  | SL [SN 1; x] => option_map DBytes (as_str x)
  | _ => None
  end.

Definition as_field (s : sexp) : option field :=
  match s with
  | SL [n; fn; ct; d] =>
      match as_str n, as_opt as_str fn, as_opt as_str ct, as_data d with
      | Some n, Some fn, Some ct, Some d => Some (mkF n fn ct d)
      | _, _, _, _ => None
      end
  | _ => None
  end.

Definition run (c : sexp) : sexp :=
  match c with
  | SL [b; fs] =>
      match as_str b, as_list_of as_field fs with
      | Some b, Some fs =>
          match encode b fs with
          | Some body => SL [SN 1; s_str body; s_str (content_type_header b)]
          | None => SL [SN 0]
          end
      | _, _ => s_bad_case
      end
  | _ => s_bad_case
  end.
