(* Executable wrapper for the C17 correspondence. *)
From Coq Require Import List NArith Bool Arith.
From V Require Import lib.Sexp model.Lru model.LruConc.
Import ListNotations.
Local Open Scope N_scope.

Definition as_op (s : sexp) : option op :=
  match s with
  | SL [SN 0; SN k] => Some (Get k)
  | SL [SN 1; SN k; SN v] => Some (Set_ k v)
  | SL [SN 2; SN k] => Some (Del k)
  | SL [SN 3] => Some Len
  | SL [SN 4] => Some Clear
  | SL [SN 5] => Some Keys
  | SL [SN 6; SN k] => Some (MGet k)
  | SL [SN 7; SN k] => Some (Contains k)
  | SL [SN 8; SN k] => Some (Pop k)
  | SL [SN 9; SN k; SN v] => Some (SetDefault k v)
  | SL [SN 10; SN k; SN v] => Some (GetOrCreate k v)
  | _ => None
  end.

(* sets are printed sorted: insertion sort on N *)
Fixpoint ins (x : N) (l : list N) : list N :=
  match l with
  | [] => [x]
  | y :: r => if x <=? y then x :: l else y :: ins x r
  end.
Definition sort (l : list N) : list N := fold_right ins [] l.

Definition s_res (r : res) : sexp :=
  match r with
  | RNone => SL [SN 0]
  | RVal v => SL [SN 1; SN v]
  | RKeyError => SL [SN 2]
  | RLen n => SL [SN 3; s_nat n]
  | RKeys ks => SL [SN 4; s_list SN (sort ks)]
  | RBool b => SL [SN 5; s_bool b]
  end.

(* sequential: after every op: result, disposed values (call order), sorted keys, len *)
Fixpoint run_seq (m : nat) (ops : list op) (c : cont) : list sexp :=
  match ops with
  | [] => []
  | p :: r =>
      let '(c', x, d) := step m c p in
      SL [s_res x; s_list SN d; s_list SN (sort (map fst c')); s_nat (length c')] :: run_seq m r c'
  end.

(* PoolManager: connection_from_* = GetOrCreate k tag (tag names the pool this
   call would create); clear.  Observation: result, number of cached pools. *)
Fixpoint run_pm (m : nat) (ops : list op) (c : cont) : list sexp :=
  match ops with
  | [] => []
  | p :: r =>
      let '(c', x, d) := step m c p in
      SL [s_res x; s_nat (length c')] :: run_pm m r c'
  end.

(* concurrent: threads' programs and the observed order of critical sections *)
Definition flush (m : nat) (s : cstate) (t : nat) : cstate :=
  match nth_error (c_threads s) t with
  | Some th => Nat.iter (length (pending th)) (fun s => cstep m s t) s
  | None => s
  end.
Definition run_order (m : nat) (order : list nat) (s : cstate) : cstate :=
  fold_left (fun s t => cstep m (flush m s t) t) order s.
Definition flush_all (m : nat) (s : cstate) : cstate :=
  fold_left (fun s t => flush m s t) (seq 0 (length (c_threads s))) s.

Definition results_of (t : nat) (l : list (nat * res)) : list sexp :=
  map (fun p => s_res (snd p)) (filter (fun p => Nat.eqb (fst p) t) l).

Definition run_conc (m : nat) (progs : list (list op)) (order : list nat) : sexp :=
  let s := flush_all m (run_order m order (cinit [] progs)) in
  SL [ s_list s_nat order;
       SL (map (fun t => SL (results_of t (c_results s))) (seq 0 (length progs)));
       s_list SN (sort (map fst (c_cont s)));
       s_list SN (sort (c_disposed s));
       s_nat (length (flat_map todo (c_threads s))) ].

Definition run (c : sexp) : sexp :=
  match c with
  | SL [SN 0; SN m; ops] =>
      match as_list_of as_op ops with
      | Some ops => SL (run_seq (N.to_nat m) ops [])
      | None => s_bad_case
      end
  | SL [SN 1; SN m; progs; order] =>
      match as_list_of (as_list_of as_op) progs, as_list_of as_nat order with
      | Some progs, Some order => run_conc (N.to_nat m) progs order
      | _, _ => s_bad_case
      end
  | SL [SN 2; SN m; ops] =>
      match as_list_of as_op ops with
      | Some ops => SL (run_pm (N.to_nat m) ops [])
      | None => s_bad_case
      end
  | _ => s_bad_case
  end.
