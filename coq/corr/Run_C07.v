(* Executable wrapper for the C07 correspondence. *)
From Coq Require Import String List NArith Bool.
From V Require Import lib.Sexp model.TlsVerify.
Import ListNotations.
Local Open Scope N_scope.

Definition d_cr (n : N) := match n with 0 => Some CRDefault | 1 => Some CRRequired | 2 => Some CROptional | 3 => Some CRNone | _ => None end.
Definition d_ah (n : N) := match n with 0 => Some AHUnset | 1 => Some AHFalse | 2 => Some AHName | _ => None end.
Definition d_fp (n : N) := match n with 0 => Some FPUnset | 1 => Some FPRight | 2 => Some FPWrong | 3 => Some FPBadLength | _ => None end.
Definition d_cx (n : N) := match n with 0 => Some CtxNone | 1 => Some CtxChecking | 2 => Some CtxNotChecking | 3 => Some CtxPyOpenSSL | _ => None end.
Definition d_tr (n : N) := match n with 0 => Some TFile | 1 => Some TDir | 2 => Some TData | 3 => Some TNothing | _ => None end.
Definition d_is (n : N) := match n with 0 => Some IConfigured | 1 => Some ISystem | 2 => Some IUnknown | _ => None end.
Definition d_be (n : N) := match n with 0 => Some BStd | 1 => Some BPyOpenSSL | _ => None end.

Definition d_route (n : N) (x : sexp) : option route :=
  match n, x with
  | 0, SL [] => Some Direct
  | 1, SL [] => Some TunnelHttp
  | 2, SL [SN ah; SN fp; SN cx; SN iss; sni; asn] =>
      match d_ah ah, d_fp fp, d_cx cx, d_is iss, as_bool sni, as_bool asn with
      | Some ah, Some fp, Some cx, Some iss, Some sni, Some asn => Some (TunnelHttps (mkProxy ah fp cx) (mkPeer iss sni asn))
      | _, _, _, _, _, _ => None
      end
  | _, _ => None
  end.

(* observation: [request seen; how the call ended (0 normally, 1 SSLError, 3 ValueError, 5 ProxyError around an SSLError);
   InsecureRequestWarning; [is_verified]; CONNECT seen] *)
Definition run (c : sexp) : sexp :=
  match c with
  | SL [SN cr; SN ah; SN fp; SN cx; SN tr; SN iss; sni; asn; SN be; SN rt; x] =>
      match d_cr cr, d_ah ah, d_fp fp, d_cx cx, d_tr tr, d_is iss, as_bool sni, as_bool asn with
      | Some cr, Some ah, Some fp, Some cx, Some tr, Some iss, Some sni, Some asn =>
          match d_be be, d_route rt x with
          | Some b, Some r =>
              let tunnelled := match r with Direct => false | _ => true end in
              match connect b (mkSettings cr ah fp cx tr) (mkPeer iss sni asn) r with
              | Sent v w => SL [SN 1; SN 0; s_bool w; SL [s_bool v]; s_bool tunnelled]
              | Refused t => SL [SN 0; SN (match r, t with TunnelHttps _ _, false => 5 | _, _ => 1 end); SN 0; SL [SN 0]; s_bool t]
              | Misconfigured t => SL [SN 0; SN 3; SN 0; SL [SN 0]; s_bool t]
              end
          | _, _ => s_bad_case
          end
      | _, _, _, _, _, _, _, _ => s_bad_case
      end
  | _ => s_bad_case
  end.
