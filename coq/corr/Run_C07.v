(* Executable wrapper for the C07 correspondence. *)
From Coq Require Import String List NArith Bool.
From V Require Import lib.Sexp model.TlsVerify.
Import ListNotations.
Local Open Scope N_scope.

Definition run (c : sexp) : sexp :=
  match c with
  | SL [SN cr; SN ah; SN fp; SN cx; SN tr; SN iss; sni; asn] =>
      let cro := match cr with 0 => Some CRDefault | 1 => Some CRRequired | 2 => Some CROptional | 3 => Some CRNone | _ => None end in
      let aho := match ah with 0 => Some AHUnset | 1 => Some AHFalse | 2 => Some AHName | _ => None end in
      let fpo := match fp with 0 => Some FPUnset | 1 => Some FPRight | 2 => Some FPWrong | 3 => Some FPBadLength | _ => None end in
      let cxo := match cx with 0 => Some CtxNone | 1 => Some CtxChecking | 2 => Some CtxNotChecking | _ => None end in
      let tro := match tr with 0 => Some TFile | 1 => Some TDir | 2 => Some TData | 3 => Some TNothing | _ => None end in
      let iso := match iss with 0 => Some IConfigured | 1 => Some ISystem | 2 => Some IUnknown | _ => None end in
      match cro, aho, fpo, cxo, tro, iso, as_bool sni, as_bool asn with
      | Some cr, Some ah, Some fp, Some cx, Some tr, Some iss, Some sni, Some asn =>
          match connect (mkSettings cr ah fp cx tr) (mkPeer iss sni asn) with
          | Sent v w => SL [SN 1; SN 0; s_bool w; SL [s_bool v]]
          | Refused => SL [SN 0; SN 1; SN 0; SL [SN 0]]
          | Misconfigured => SL [SN 0; SN 3; SN 0; SL [SN 0]]
          end
      | _, _, _, _, _, _, _, _ => s_bad_case
      end
  | _ => s_bad_case
  end.
