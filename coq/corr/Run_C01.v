(* Executable wrapper for the C01 correspondence. *)
From Coq Require Import String List NArith ZArith QArith Bool.
From V Require Import lib.Sexp lib.PyStr model.Retry model.PoolAcct corr.Run_C04 corr.Run_C05
  gen.Gen_Exc gen.Gen_Urlopen gen.Gen_Retry gen.Gen_Read.
Import ListNotations.
Local Open Scope N_scope.

(* release_conn() as the source has it *)
Definition rc : bool := match Gen_Read.release_closes_unread with Some b => b | None => false end.

Definition as_body (s : sexp) : option body_out :=
  match s with SN 0 => Some BOk | SN 1 => Some BShort | SN 2 => Some BInterrupt | _ => None end.

Definition as_attempt1 (s : sexp) : option PoolAcct.attempt :=
  match s with
  | SL [SN c; SN sd; rv] =>
      let co := match c with 0 => Some KOk | 1 => Some KRefused | 2 => Some KTimeout | 3 => Some KInterrupt | _ => None end in
      let so := match sd with 0 => Some TOk | 1 => Some TEpipe | 2 => Some TReset | 3 => Some TOther | 4 => Some TTimeout | 5 => Some TInterrupt | _ => None end in
      let ro := match rv with
                | SL [SN 0; st; ra; ka; b; rd] =>
                    match as_Z st, as_opt as_Z ra, as_bool ka, as_body b, as_bool rd with
                    | Some st, Some ra, Some ka, Some b, Some rd => Some (VResp st ra ka b rd) | _, _, _, _, _ => None end
                | SL [SN 1] => Some VTimeout | SL [SN 2] => Some VReset | SL [SN 3] => Some VEof | SL [SN 4] => Some VGarbage
                | SL [SN 5] => Some VInterrupt
                | _ => None
                end in
      match co, so, ro with Some a, Some b, Some c => Some (mkAt a b c) | _, _, _ => None end
  | _ => None
  end.

Definition as_disposal (s : sexp) : option disposal :=
  match s with
  | SN 0 => Some DReadAll | SN 1 => Some DRelease | SN 2 => Some DDrain | SN 3 => Some DClose | SN 4 => Some DCloseRelease
  | _ => None
  end.

Definition as_request (s : sexp) : option request :=
  match s with
  | SL [m; pre; arg; d; rd] =>
      match as_str m, as_bool pre, as_arg arg, as_disposal d, as_bool rd with
      | Some m, Some pre, Some arg, Some d, Some rd => Some (mkReq m pre arg d rd)
      | _, _, _, _, _ => None
      end
  | _ => None
  end.

Definition s_result (r : result) : sexp :=
  match r with
  | ResResponse st => SL [SN 0; s_Z st]
  | ResRaise e => SL [SN 1; s_exn e]
  | ResMaxRetry r => SL [SN 2; s_opt s_exn r]
  | ResInterrupt => SL [SN 3]
  | ResEmptyPool => SL [SN 4]
  | ResScriptEnd => SL [SN 9]
  end.

Fixpoint ins_n (x : nat) (l : list nat) : list nat :=
  match l with [] => [x] | y :: r => if Nat.leb x y then x :: l else y :: ins_n x r end.
Definition sort_n (l : list nat) : list nat := fold_right ins_n [] l.

Definition s_conn (c : conn) : sexp := SL [s_nat (c_id c); s_opt s_nat (c_sock c)].
Definition s_state (st : pstate) : sexp :=
  SL [ s_list (s_opt s_conn) (rev (p_q st));                       (* bottom ... top *)
       s_list s_nat (sort_n (p_open st));
       s_nat (p_connects st) ].

Definition the_default (redirect : bool) (a : retries_arg) : retry := mkdefault redirect a None.

(* the history with a snapshot of the pool after every request (and its disposal) *)
Fixpoint run_hist (M : nat) (B : bool) (reqs : list request) (script : list PoolAcct.attempt) (st : pstate) : list sexp :=
  match reqs with
  | [] => []
  | rq :: more =>
      let '(st1, res, h, script1) :=
        urlopen M B LAT (getl Gen_Urlopen.urlopen_to_sslerror) (getl Gen_Urlopen.urlopen_to_protocolerror)
                (getl Gen_Urlopen.retry_connection_error) (getl Gen_Urlopen.retry_read_error)
                (getl Gen_Retry.retry_after_status_codes) script st rq (the_default (rq_redirect rq) (rq_retries rq)) in
      let st2 := match h with Some hd => dispose M rc st1 hd (rq_disposal rq) | None => st1 end in
      SL [s_result res; s_bool (match h with Some _ => true | None => false end); s_state st2] :: run_hist M B more script1 st2
  end.

(* case: (maxsize block reqs script) *)
Definition run (c : sexp) : sexp :=
  match c with
  | SL [SN m; b; reqs; script] =>
      match as_bool b, as_list_of as_request reqs, as_list_of as_attempt1 script with
      | Some b, Some reqs, Some script => SL (run_hist (N.to_nat m) b reqs script (init_pool (N.to_nat m)))
      | _, _, _ => s_bad_case
      end
  | _ => s_bad_case
  end.
