(* Executable wrapper for the C08 correspondence. *)
From Coq Require Import String List NArith Bool Arith.
From V Require Import lib.Sexp lib.PyStr model.HostMatch gen.Gen_Tls.
Import ListNotations.
Local Open Scope N_scope.

Definition as_san (s : sexp) : option san_entry :=
  match s with
  | SL [SN 0; v] => option_map SDns (as_str v)
  | SL [SN 1; v] => option_map SIp (as_str v)
  | SL [SN 2] => Some SOther
  | _ => None
  end.

Definition as_ipentry (s : sexp) : option (str * option (list N)) :=
  match s with
  | SL [k; v] => match as_str k, as_opt as_str v with Some k, Some v => Some (k, v) | _, _ => None end
  | _ => None
  end.

Fixpoint lookup {A} (k : str) (t : list (str * A)) : option A :=
  match t with
  | [] => None
  | (k', v) :: r => if str_eqb k k' then Some v else lookup k r
  end.

Definition table_ip (t : list (str * option (list N))) (s : str) : option (list N) :=
  match lookup s t with Some v => v | None => Some [999] (* unrecorded query: poison *) end.

Definition s_mres (r : mres) : sexp := SN (match r with Accept => 0 | RejectCert => 1 | RaiseValueError => 2 end).
Definition s_fres (r : fres) : sexp := SN (match r with FAccept => 0 | FRejectSSL => 1 | FRaiseOther => 2 end).

Definition fp_table (digests : list (str * list N)) : option (list (nat * option (list N))) :=
  match Gen_Tls.hashfunc_map with
  | Some m => Some (table_of m (fun name => lookup name digests))
  | None => None
  end.

Definition as_digest (s : sexp) : option (str * list N) :=
  match s with
  | SL [k; v] => match as_str k, as_str v with Some k, Some v => Some (k, v) | _, _ => None end
  | _ => None
  end.

Definition run (c : sexp) : sexp :=
  match c with
  | SL [SN 0; san; cns; host; cn; ipt; isip] =>
      match as_list_of as_san san, as_list_of as_str cns, as_str host, as_bool cn,
            as_list_of as_ipentry ipt, as_bool isip with
      | Some san, Some cns, Some host, Some cn, Some ipt, Some isip =>
          s_mres (conn_match_hostname (table_ip ipt) (fun _ => isip) san cns host cn)
      | _, _, _, _, _, _ => s_bad_case
      end
  | SL [SN 1; digests; fp] =>
      match as_list_of as_digest digests, as_str fp with
      | Some d, Some fp =>
          match fp_table d with
          | Some t => s_fres (assert_fingerprint t fp)
          | None => s_bad_case
          end
      | _, _ => s_bad_case
      end
  | _ => s_bad_case
  end.
