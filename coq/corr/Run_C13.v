(* Executable wrapper for the C13 correspondence. *)
From Coq Require Import String List NArith ZArith Bool.
From V Require Import lib.Sexp model.ChunkParse model.LenRead gen.Gen_Read.
Import ListNotations.
Local Open Scope N_scope.

Definition s_outcome (o : outcome) : N :=
  match o with Complete => 0 | InvalidChunk => 1 | Premature => 2 | Incomplete => 3 | Negative => 9 end.

Definition s_ending (e : ending) : N :=
  match e with Normal => 0 | EIncomplete => 3 | EProtocol => 3 | OutOfFuel => 99 end.

(* enforce_content_length as the source has it by default *)
Definition enforce : bool := match Gen_Read.enforce_content_length_default with Some b => b | None => false end.

(* case: (bytes after the headers, amt, eof follows) for a chunked body;
         (1, bytes after the headers, Content-Length, api, amt, decode_content, eof follows) for a body with a length *)
Definition run (c : sexp) : sexp :=
  match c with
  | SL [SN 1; w; cl; SN a; amt; dc; eof] =>
      match as_str w, as_nat cl, as_nat amt, as_bool dc, as_bool eof with
      | Some w, Some cl, Some amt, Some dc, Some eof =>
          let w := map N.to_nat w in
          let ap := match a with 0 => Some ARead | 1 => Some (AReadN amt) | 3 => Some (AStream amt) | _ => None end in
          match ap with
          | Some ap =>
              let '(ps, e) := run_api enforce dc w cl ap in
              SL [SN (s_ending e); s_str (map N.of_nat (List.concat ps)); s_bool (match e with Normal => negb eof | _ => false end);
                  s_bool (match e with Normal => true | _ => false end)]
          | None => s_bad_case
          end
      | _, _, _, _, _ => s_bad_case
      end
  | SL [w; amt; eof] =>
      match as_str w, as_opt as_nat amt, as_bool eof with
      | Some w, Some amt, Some eof =>
          let '(ps, o) := read_chunked (S (length w)) w amt in
          SL [SN (s_outcome o); s_str (concat ps); s_bool (match o with Complete => negb eof | _ => false end);
              s_bool (match o with Complete => true | _ => false end)]
      | _, _, _ => s_bad_case
      end
  | _ => s_bad_case
  end.
