(* Executable wrapper for the C13 correspondence. *)
From Coq Require Import String List NArith ZArith Bool.
From V Require Import lib.Sexp model.ChunkParse.
Import ListNotations.
Local Open Scope N_scope.

Definition s_outcome (o : outcome) : N :=
  match o with Complete => 0 | InvalidChunk => 1 | Premature => 2 | Incomplete => 3 | Negative => 9 end.

(* case: (bytes after the headers, amt, eof follows) *)
Definition run (c : sexp) : sexp :=
  match c with
  | SL [w; amt; eof] =>
      match as_str w, as_opt as_nat amt, as_bool eof with
      | Some w, Some amt, Some eof =>
          let '(ps, o) := read_chunked (S (length w)) w amt in
          SL [SN (s_outcome o); s_str (concat ps); s_bool (match o with Complete => negb eof | _ => false end);
              s_bool (match o with Complete => true | _ => false end)]
      | _, _, _ => s_bad_case
      end
  | _ => s_bad_case
  end.
