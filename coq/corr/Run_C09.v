(* Executable wrapper for the C09 correspondence. *)
From Coq Require Import String List NArith Bool.
From V Require Import lib.Sexp lib.PyStr model.Url model.ProxyRoute gen.Gen_Proxy.
Import ListNotations.
Local Open Scope N_scope.

Definition reached_after : bool := match Gen_Proxy.proxy_reached_after_tunnel with Some b => b | None => false end.

Definition S_ (s : string) : str := str_of_string s.

Definition run (c : sexp) : sexp :=
  match c with
  | SL [ps; ds; fw; pa; xp; xa; au; pok; ook; connects; v6; closes; SN n; SN rn; ron] =>
      match as_bool ps, as_bool ds, as_bool fw, as_bool pa, as_bool xp, as_bool xa, as_bool au, as_bool pok, as_bool ook,
            as_list_of as_nat connects, as_bool v6, as_list_of as_bool closes, as_bool ron with
      | Some ps, Some ds, Some fw, Some pa, Some xp, Some xa, Some au, Some pok, Some ook, Some connects, Some v6, Some closes, Some ron =>
          let cfg := mkCfg ps ds fw pok ook (if ron then Some (N.to_nat rn) else None) in
          let '(msgs, outs) := ProxyRoute.run cfg connects closes (N.to_nat n) in
          let hostb := if v6 then S_ "[2001:db8::7]" else S_ "dest.example" in
          let s_msg (m : msg) : sexp :=
            let '(line, hostv) :=
              match m_kind m with
              | KConnect => (S_ "CONNECT " ++ hostb ++ S_ ":443 HTTP/1.1", hostb ++ S_ ":443")
              | KOrigin i => (S_ "GET /res" ++ str_of_N (N.of_nat i) ++ S_ " HTTP/1.1", if v6 then S_ "[[2001:db8::7]]" else hostb)
              | KAbsolute i => (S_ "GET " ++ (if ds then S_ "https" else S_ "http") ++ S_ "://" ++ hostb ++ S_ "/res" ++ str_of_N (N.of_nat i) ++ S_ " HTTP/1.1", hostb)
              end in
            SL [s_nat (m_conn m); s_nat (m_layers m); s_str line; s_bool (m_proxy_headers m && pa); s_bool (m_proxy_headers m && xp);
                s_bool (m_request_headers m && xa); s_bool (m_request_headers m && au); SL [s_str hostv]; s_bool (m_tunnelled m)] in
          let s_out (o : outcome) : sexp :=
            match o with
            | Ok => SL [SN 0]
            | ProxyErr true _ => SL [SN 1; s_str (S_ "SSLError")]
            | ProxyErr false true => if reached_after then SL [SN 1; s_str (S_ "BadStatusLine")] else SL [SN 4; s_str (S_ "ProtocolError")]
            | ProxyErr false false => SL [SN 1; s_str (S_ "OSError")]
            | SslErr => SL [SN 2]
            | MaxRetry true => SL [SN 3; s_str (S_ "ProxyError")]
            | MaxRetry false => SL [SN 3; s_str (S_ "SSLError")]
            end in
          SL [s_list s_msg msgs; s_list s_out outs]
      | _, _, _, _, _, _, _, _, _, _, _, _, _ => s_bad_case
      end
  | _ => s_bad_case
  end.
