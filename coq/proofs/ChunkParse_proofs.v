(* Proofs for C13 (model/ChunkParse.v): a chunked body that stops early is never read as complete. *)
From Coq Require Import String List NArith ZArith Arith Bool Lia ZifyBool ZifyN ZifyNat.
Ltac Zify.zify_post_hook ::= Z.to_euclidean_division_equations.
From V Require Import lib.PyStr model.Framing proofs.Framing_proofs model.ChunkParse.
Import ListNotations.
Local Open Scope N_scope.
Arguments N.add : simpl never.
Arguments N.mul : simpl never.
Arguments N.div : simpl never.
Arguments N.modulo : simpl never.

(* ---------- hexadecimal digits as characters ---------- *)
Definition hexdigit_char (c : N) : Prop := exists d, d < 16 /\ c = hexchar d.

Lemma hexchar_facts d : d < 16 ->
  hexval (hexchar d) = Some d /\ (hexchar d =? 10) = false /\ (hexchar d =? 59) = false /\ (hexchar d =? 95) = false /\
  is_space (hexchar d) = false /\ (hexchar d =? 45) = false /\ (hexchar d =? 43) = false /\
  ((hexchar d =? 48) = true -> d = 0).
Proof.
  intros H. unfold hexval, hexchar, is_space. destruct (d <? 10) eqn:E.
  - apply N.ltb_lt in E.
    replace ((48 <=? 48 + d) && (48 + d <=? 57)) with true by lia.
    repeat split; try lia; try (f_equal; lia); intros He; lia.
  - apply N.ltb_ge in E.
    replace ((48 <=? 87 + d) && (87 + d <=? 57)) with false by lia.
    replace ((97 <=? 87 + d) && (87 + d <=? 102)) with true by lia.
    repeat split; try lia; try (f_equal; lia); intros He; lia.
Qed.

Lemma digits_hex ds : forall acc seen may, Forall (fun d => d < 16) ds -> ds <> [] ->
  digits (map hexchar ds) acc seen may = Some (fold_left hstep ds acc).
Proof.
  induction ds as [|d ds IH]; intros acc seen may Hall Hne; [contradiction|].
  apply Forall_cons_iff in Hall as [Hd Hall]. destruct (hexchar_facts d Hd) as (Hv & _ & _ & Hus & _).
  cbn [map digits fold_left]. rewrite Hus, Hv.
  destruct ds as [|d2 ds]; [reflexivity|]. apply IH; [exact Hall|discriminate].
Qed.

Lemma readline_nolf l : Forall (fun c => (c =? 10) = false) l -> forall rest,
  readline (l ++ 10 :: rest) = (l ++ [10], rest) /\ readline l = (l, []).
Proof.
  induction 1 as [|c l Hc Hl IH]; intros rest; cbn [app readline].
  - split; reflexivity.
  - rewrite Hc. destruct (IH rest) as [-> ->]. split; reflexivity.
Qed.

Lemma before_semi_none l : Forall (fun c => (c =? 59) = false) l -> before_semi l = l.
Proof. induction 1 as [|c l Hc Hl IH]; cbn [before_semi]; [reflexivity|]. rewrite Hc, IH. reflexivity. Qed.

Lemma lstrip_nospace c l : is_space c = false -> lstrip (c :: l) = c :: l.
Proof. intros H. cbn [lstrip]. rewrite H. reflexivity. Qed.

(* the size text: hexadecimal digits followed by nothing, CR or CRLF *)
Definition tail_ok (t : list N) : Prop := t = [] \/ t = [13] \/ t = [13; 10].

Lemma strip_hex ds t : Forall (fun d => d < 16) ds -> ds <> [] -> tail_ok t -> strip (map hexchar ds ++ t) = map hexchar ds.
Proof.
  intros Hall Hne Ht. unfold strip.
  destruct ds as [|d ds]; [contradiction|]. apply Forall_cons_iff in Hall as [Hd Hall].
  destruct (hexchar_facts d Hd) as (_ & _ & _ & _ & Hsp & _).
  cbn [map app]. rewrite (lstrip_nospace _ _ Hsp).
  change (hexchar d :: map hexchar ds ++ t) with ((hexchar d :: map hexchar ds) ++ t). rewrite rev_app_distr.
  assert (Hlast : exists x l, rev (hexchar d :: map hexchar ds) = x :: l /\ is_space x = false).
  { clear Hsp. assert (Hall2 : Forall (fun c => is_space c = false) (rev (hexchar d :: map hexchar ds))).
    { apply Forall_rev. constructor; [apply (hexchar_facts d Hd)|]. apply Forall_map. eapply Forall_impl; [|exact Hall].
      intros a Ha. apply (hexchar_facts a Ha). }
    destruct (rev (hexchar d :: map hexchar ds)) as [|x l] eqn:Hr.
    - apply (f_equal (@length N)) in Hr. rewrite rev_length in Hr. discriminate.
    - exists x, l. split; [reflexivity|]. apply Forall_cons_iff in Hall2 as [Hx _]. exact Hx. }
  destruct Hlast as (x & l & Hr & Hx). rewrite Hr.
  assert (Hl : lstrip (rev t ++ x :: l) = x :: l).
  { destruct Ht as [->|[->| ->]]; cbn [rev app].
    - apply lstrip_nospace; exact Hx.
    - cbn [lstrip]. replace (is_space 13) with true by reflexivity. apply lstrip_nospace; exact Hx.
    - cbn [lstrip]. replace (is_space 10) with true by reflexivity. replace (is_space 13) with true by reflexivity.
      apply lstrip_nospace; exact Hx. }
  rewrite Hl, <- Hr, rev_involutive. reflexivity.
Qed.

Lemma py_int16_hex ds t : Forall (fun d => d < 16) ds -> tail_ok t ->
  (forall d ds', ds = d :: ds' -> 1 <= d) -> ds <> [] ->
  py_int16 (map hexchar ds ++ t) = Some (Z.of_N (fold_left hstep ds 0)).
Proof.
  intros Hall Ht Hhead Hne. unfold py_int16. rewrite (strip_hex ds t Hall Hne Ht).
  destruct ds as [|d ds']; [contradiction|]. pose proof (Hhead d ds' eq_refl) as Hd1.
  pose proof Hall as Hall0. apply Forall_cons_iff in Hall as [Hd Hall].
  destruct (hexchar_facts d Hd) as (_ & _ & _ & _ & _ & H45 & H43 & H48).
  cbn [map]. rewrite H45, H43. cbn [orb].
  assert (Hnp : (match hexchar d :: map hexchar ds' with c :: x :: _ => (c =? 48) && ((x =? 120) || (x =? 88)) | _ => false end) = false).
  { destruct (map hexchar ds'); [reflexivity|]. destruct (hexchar d =? 48) eqn:E; [|reflexivity]. specialize (H48 eq_refl). lia. }
  rewrite Hnp. change (hexchar d :: map hexchar ds') with (map hexchar (d :: ds')).
  rewrite digits_hex by (assumption || discriminate). reflexivity.
Qed.

(* ---------- the digits of a positive number ---------- *)
Lemma hexp_head f : forall n, 1 <= n -> n < pow2 f -> exists d ds, hexp f n = d :: ds /\ 1 <= d.
Proof.
  induction f as [|f IH]; intros n H1 Hn.
  - unfold pow2 in Hn. cbn in Hn. lia.
  - cbn [hexp]. destruct (n <? 16) eqn:E.
    + exists n, []. split; [reflexivity|exact H1].
    + apply N.ltb_ge in E. rewrite pow2_S in Hn.
      assert (Hq : n / 16 < pow2 f) by (set (p := pow2 f) in *; lia).
      assert (Hq1 : 1 <= n / 16) by lia.
      destruct (IH _ Hq1 Hq) as (d & ds & -> & Hd). exists d, (ds ++ [n mod 16]). split; [reflexivity|exact Hd].
Qed.

Lemma fold_hstep_ge ds : forall acc, acc <= fold_left hstep ds acc.
Proof. induction ds as [|d ds IH]; intros acc; cbn [fold_left]; [lia|]. specialize (IH (hstep acc d)). unfold hstep in *. lia. Qed.

Definition hex_digits (n : N) : list N := hexp (S (N.to_nat (N.size n))) n.
Lemma to_hex_digits n : to_hex n = map hexchar (hex_digits n).
Proof. reflexivity. Qed.

Lemma hex_digits_spec n : 1 <= n ->
  Forall (fun d => d < 16) (hex_digits n) /\ fold_left hstep (hex_digits n) 0 = n /\
  exists d ds, hex_digits n = d :: ds /\ 1 <= d.
Proof.
  intros H1. unfold hex_digits.
  assert (Hn : n < pow2 (S (N.to_nat (N.size n)))).
  { unfold pow2. rewrite Nat2N.inj_succ, N2Nat.id, N.pow_succ_r'. pose proof (N.size_gt n). lia. }
  destruct (hexp_spec _ _ Hn) as [Hv Hall]. split; [exact Hall|]. split; [exact Hv|]. apply hexp_head; assumption.
Qed.

Lemma Forall_firstn' {A} (P : A -> Prop) (l : list A) : Forall P l -> forall n, Forall P (firstn n l).
Proof. induction 1 as [|x l Hx Hl IH]; intros [|n]; cbn [firstn]; constructor; auto. Qed.

(* a non-empty prefix of the digits still denotes a positive number *)
Lemma prefix_positive ds j : Forall (fun d => d < 16) ds -> (forall d ds', ds = d :: ds' -> 1 <= d) -> (1 <= j)%nat -> ds <> [] ->
  let p := firstn j ds in
  Forall (fun d => d < 16) p /\ p <> [] /\ (forall d ds', p = d :: ds' -> 1 <= d) /\ 1 <= fold_left hstep p 0.
Proof.
  intros Hall Hhead Hj Hne. destruct ds as [|d ds]; [contradiction|]. destruct j as [|j]; [lia|]. cbn [firstn].
  pose proof (Hhead d ds eq_refl) as Hd. split; [|split; [discriminate|split]].
  - apply Forall_cons_iff in Hall as [Hd16 Hall]. constructor; [exact Hd16|]. apply Forall_firstn'. exact Hall.
  - intros d' ds' Heq. inversion Heq; subst. exact Hd.
  - cbn [fold_left]. pose proof (fold_hstep_ge (firstn j ds) (hstep 0 d)). unfold hstep in *. lia.
Qed.

(* ---------- reading a chunk ---------- *)
Lemma chunk_data_short fuel amt : forall w left, (length w < left + 2)%nat -> snd (chunk_data fuel w left amt) = None.
Proof.
  induction fuel as [|f IH]; intros w left Hlen; cbn [chunk_data]; [reflexivity|].
  set (take := match amt with None => left | Some a => if Nat.ltb a left then Nat.max a 1 else left end).
  assert (Ht : (take <= left)%nat /\ (take = left \/ 1 <= take)%nat).
  { subst take. destruct amt as [a|]; [|lia]. destruct (Nat.ltb_spec a left); lia. }
  unfold safe_read. destruct (Nat.ltb_spec (length w) take); [reflexivity|].
  destruct (Nat.eqb_spec take left) as [He|Hne].
  - rewrite skipn_length. destruct (Nat.ltb_spec (length w - take) 2); [reflexivity|lia].
  - specialize (IH (skipn take w) (left - take)%nat). rewrite skipn_length in IH.
    destruct (chunk_data f (skipn take w) (left - take)%nat amt) as [ps r]. cbn [snd] in *. apply IH. lia.
Qed.

Lemma chunk_data_whole amt rest : forall fuel c, (length c < fuel)%nat -> (1 <= length c)%nat ->
  exists ps, chunk_data fuel (c ++ CRLF ++ rest) (length c) amt = (ps, Some rest) /\ concat ps = c /\ Forall (fun p => p <> []) ps.
Proof.
  induction fuel as [|f IH]; intros c Hf Hc; [lia|]. cbn [chunk_data].
  set (left := length c) in *.
  set (take := match amt with None => left | Some a => if Nat.ltb a left then Nat.max a 1 else left end).
  assert (Ht : (take <= left)%nat /\ (1 <= take)%nat).
  { subst take. destruct amt as [a|]; [|lia]. destruct (Nat.ltb_spec a left); lia. }
  unfold safe_read at 1. destruct (Nat.ltb_spec (length (c ++ CRLF ++ rest)) take) as [Hlt|_]; [rewrite app_length in Hlt; subst left; lia|].
  rewrite firstn_app, skipn_app.
  replace (take - length c)%nat with 0%nat by (subst left; lia). cbn [firstn skipn]. rewrite app_nil_r.
  destruct (Nat.eqb_spec take left) as [He|Hne].
  - rewrite He. subst left. rewrite firstn_all, skipn_all. cbn [app]. unfold safe_read, CRLF. cbn [app length Nat.ltb Nat.leb skipn].
    exists [c]. split; [reflexivity|]. split; [cbn; apply app_nil_r|]. constructor; [destruct c; [cbn in Hc; lia|discriminate]|constructor].
  - assert (Hl2 : length (skipn take c) = (left - take)%nat) by (rewrite skipn_length; reflexivity).
    destruct (IH (skipn take c)) as (ps & Hps & Hcat & Hne2); [rewrite Hl2; subst left; lia|rewrite Hl2; lia|].
    rewrite Hl2 in Hps. rewrite Hps. exists (firstn take c :: ps). split; [reflexivity|]. split.
    + cbn [concat]. rewrite Hcat. apply firstn_skipn.
    + constructor; [|exact Hne2]. intros Hnil. apply (f_equal (@length N)) in Hnil. rewrite firstn_length in Hnil. cbn in Hnil. subst left. lia.
Qed.

(* ---------- the size line of a chunk ---------- *)
Lemma hexchars_nolf ds : Forall (fun d => d < 16) ds -> Forall (fun c => (c =? 10) = false) (map hexchar ds).
Proof. intros H. apply Forall_map. eapply Forall_impl; [|exact H]. intros a Ha. apply (hexchar_facts a Ha). Qed.
Lemma hexchars_nosemi ds : Forall (fun d => d < 16) ds -> Forall (fun c => (c =? 59) = false) (map hexchar ds).
Proof. intros H. apply Forall_map. eapply Forall_impl; [|exact H]. intros a Ha. apply (hexchar_facts a Ha). Qed.

(* a size text made of digits and a tail: what read_chunked makes of the line *)
Lemma size_text ds t : Forall (fun d => d < 16) ds -> tail_ok t -> before_semi (map hexchar ds ++ t) = map hexchar ds ++ t.
Proof.
  intros Hall Ht. apply before_semi_none. apply Forall_app. split; [apply hexchars_nosemi; exact Hall|].
  destruct Ht as [->|[->| ->]]; repeat constructor.
Qed.

Definition size_of (c : list N) : N := N.of_nat (length c).

Lemma cap_left (n : N) (avail : nat) p : Z.of_N n = Zpos p ->
  N.to_nat (N.min (Npos p) (N.of_nat avail + 3)) = Nat.min (N.to_nat n) (avail + 3).
Proof. intros H. assert (n = Npos p) by (destruct n; [discriminate|inversion H; reflexivity]). subst n. lia. Qed.

(* a whole chunk at the head of the stream is read and the reader goes on with what follows *)
Lemma enc_chunk_shape c rest :
  enc_chunk [] c ++ rest = (map hexchar (hex_digits (size_of c)) ++ [13]) ++ 10 :: (c ++ CRLF ++ rest).
Proof. unfold enc_chunk, CRLF, size_of. rewrite to_hex_digits. cbn [app]. rewrite <- !app_assoc. cbn [app]. rewrite <- !app_assoc. reflexivity. Qed.

Lemma read_chunk_whole f c rest amt : (1 <= length c)%nat ->
  exists ps, concat ps = c /\ Forall (fun p => p <> []) ps /\
    read_chunked (S f) (enc_chunk [] c ++ rest) amt =
    (let '(more, o) := read_chunked f rest amt in (ps ++ more, o)).
Proof.
  intros Hc. rewrite enc_chunk_shape. remember (size_of c) as n eqn:En.
  assert (Hn1 : 1 <= n) by (subst n; unfold size_of; lia).
  destruct (hex_digits_spec n Hn1) as (Hall & Hval & d & ds & Hds & Hd).
  assert (Hne : hex_digits n <> []) by (rewrite Hds; discriminate).
  assert (Hhead : forall d0 ds0, hex_digits n = d0 :: ds0 -> 1 <= d0) by (intros d0 ds0 He; rewrite Hds in He; inversion He; subst; exact Hd).
  assert (Hnolf : Forall (fun x => (x =? 10) = false) (map hexchar (hex_digits n) ++ [13]))
    by (apply Forall_app; split; [apply hexchars_nolf; exact Hall|repeat constructor]).
  cbn [read_chunked].
  rewrite (proj1 (readline_nolf _ Hnolf _)).
  replace ((map hexchar (hex_digits n) ++ [13]) ++ [10]) with (map hexchar (hex_digits n) ++ [13; 10]) by (rewrite <- app_assoc; reflexivity).
  rewrite (size_text _ [13; 10] Hall (or_intror (or_intror eq_refl))).
  rewrite (py_int16_hex _ [13; 10] Hall (or_intror (or_intror eq_refl)) Hhead Hne), Hval.
  destruct (Z.of_N n) as [|p|p] eqn:Hz; [lia| |lia].
  rewrite (cap_left n _ p Hz).
  replace (Nat.min (N.to_nat n) (length (c ++ CRLF ++ rest) + 3)) with (length c)
    by (subst n; unfold size_of; rewrite Nat2N.id, app_length; lia).
  destruct (chunk_data_whole amt rest (S (length c)) c (Nat.lt_succ_diag_r _) Hc) as (ps & Hps & Hcat & Hnep).
  rewrite Hps. exists ps. split; [exact Hcat|]. split; [exact Hnep|]. reflexivity.
Qed.

Lemma read_last f amt : read_chunked (S f) last_chunk amt = ([], Complete).
Proof. reflexivity. Qed.

(* ---------- a complete body reads back ---------- *)
Theorem complete_body_reads_back cs amt : Forall (fun c => (1 <= length c)%nat) cs ->
  forall fuel, (length cs < fuel)%nat ->
  exists ps, read_chunked fuel (enc_chunked [] cs) amt = (ps, Complete) /\ concat ps = concat cs /\ Forall (fun p => p <> []) ps.
Proof.
  induction 1 as [|c cs Hc Hcs IH]; intros fuel Hf.
  - destruct fuel as [|f]; [cbn in Hf; lia|]. exists []. split; [apply read_last|split; [reflexivity|constructor]].
  - destruct fuel as [|f]; [cbn in Hf; lia|]. unfold enc_chunked. cbn [map concat]. rewrite <- app_assoc.
    destruct (read_chunk_whole f c (concat (map (enc_chunk []) cs) ++ last_chunk) amt Hc) as (ps & Hcat & Hne & ->).
    destruct (IH f) as (more & Hm & Hcm & Hnm); [cbn [length] in Hf; lia|]. unfold enc_chunked in Hm. rewrite Hm.
    exists (ps ++ more). split; [reflexivity|]. split; [rewrite concat_app, Hcat, Hcm; reflexivity|apply Forall_app; split; assumption].
Qed.

(* ---------- a body that stops early ---------- *)
(* the stream ends inside a size line, before its LF *)
Lemma cut_in_size_line f ds j t amt :
  Forall (fun d => d < 16) ds -> (forall d ds', ds = d :: ds' -> 1 <= d) -> ds <> [] ->
  (t = [] \/ t = [13]) -> (j = 0%nat -> t = []) ->
  snd (read_chunked (S f) (map hexchar (firstn j ds) ++ t) amt) <> Complete.
Proof.
  intros Hall Hhead Hne Ht Hj0.
  destruct j as [|j].
  - rewrite (Hj0 eq_refl). cbn. discriminate.
  - destruct (prefix_positive ds (S j) Hall Hhead (le_n_S _ _ (Nat.le_0_l j)) Hne) as (Hall' & Hne' & Hhead' & Hpos).
    set (p := firstn (S j) ds) in *.
    assert (Htok : tail_ok t) by (destruct Ht as [->| ->]; [left|right; left]; reflexivity).
    assert (Hnolf : Forall (fun x => (x =? 10) = false) (map hexchar p ++ t)).
    { apply Forall_app. split; [apply hexchars_nolf; exact Hall'|]. destruct Ht as [->| ->]; repeat constructor. }
    cbn [read_chunked]. rewrite (proj2 (readline_nolf _ Hnolf [])).
    rewrite (size_text p t Hall' Htok), (py_int16_hex p t Hall' Htok Hhead' Hne').
    destruct (Z.of_N (fold_left hstep p 0)) as [|q|q] eqn:Hz; [lia| |lia].
    pose proof (chunk_data_short (S (N.to_nat (N.min (N.pos q) (N.of_nat (length (@nil N)) + 3)))) amt []
                  (N.to_nat (N.min (N.pos q) (N.of_nat (length (@nil N)) + 3)))) as Hs.
    destruct (chunk_data _ [] _ amt) as [ps o]. cbn [snd] in Hs. rewrite Hs by (cbn [length]; lia). cbn [snd]. discriminate.
Qed.

(* the size line is complete, the data (or the CRLF after it) is not all there *)
Lemma cut_in_data f c w1 amt : (1 <= length c)%nat -> (length w1 < length c + 2)%nat ->
  snd (read_chunked (S f) ((map hexchar (hex_digits (size_of c)) ++ [13]) ++ 10 :: w1) amt) <> Complete.
Proof.
  intros Hc Hw. remember (size_of c) as n eqn:En.
  assert (Hn1 : 1 <= n) by (subst n; unfold size_of; lia).
  destruct (hex_digits_spec n Hn1) as (Hall & Hval & d & ds & Hds & Hd).
  assert (Hne : hex_digits n <> []) by (rewrite Hds; discriminate).
  assert (Hhead : forall d0 ds0, hex_digits n = d0 :: ds0 -> 1 <= d0) by (intros d0 ds0 He; rewrite Hds in He; inversion He; subst; exact Hd).
  assert (Hnolf : Forall (fun x => (x =? 10) = false) (map hexchar (hex_digits n) ++ [13]))
    by (apply Forall_app; split; [apply hexchars_nolf; exact Hall|repeat constructor]).
  cbn [read_chunked]. rewrite (proj1 (readline_nolf _ Hnolf _)).
  replace ((map hexchar (hex_digits n) ++ [13]) ++ [10]) with (map hexchar (hex_digits n) ++ [13; 10]) by (rewrite <- app_assoc; reflexivity).
  rewrite (size_text _ [13; 10] Hall (or_intror (or_intror eq_refl))).
  rewrite (py_int16_hex _ [13; 10] Hall (or_intror (or_intror eq_refl)) Hhead Hne), Hval.
  destruct (Z.of_N n) as [|p|p] eqn:Hz; [lia| |lia].
  rewrite (cap_left n _ p Hz).
  pose proof (chunk_data_short (S (Nat.min (N.to_nat n) (length w1 + 3))) amt w1 (Nat.min (N.to_nat n) (length w1 + 3))) as Hs.
  destruct (chunk_data _ w1 _ amt) as [ps o]. cbn [snd] in Hs.
  rewrite Hs by (subst n; unfold size_of; rewrite Nat2N.id; lia). cbn [snd]. discriminate.
Qed.

Lemma enc_chunk_length c : length (enc_chunk [] c) = (length (hex_digits (size_of c)) + 2 + length c + 2)%nat.
Proof. unfold enc_chunk, CRLF. rewrite to_hex_digits. cbn [app]. rewrite !app_length, map_length. cbn [length]. rewrite app_length. cbn [length]. unfold size_of. lia. Qed.

(* the stream ends inside the first chunk (its size line, its data or the CRLF after it) *)
Lemma cut_in_chunk f c k amt : (1 <= length c)%nat -> (k < length (enc_chunk [] c))%nat ->
  snd (read_chunked (S f) (firstn k (enc_chunk [] c)) amt) <> Complete.
Proof.
  intros Hc Hk. rewrite enc_chunk_length in Hk.
  assert (Hn1 : 1 <= size_of c) by (unfold size_of; lia).
  destruct (hex_digits_spec _ Hn1) as (Hall & Hval & d & ds & Hds & Hd).
  assert (Hne : hex_digits (size_of c) <> []) by (rewrite Hds; discriminate).
  assert (Hhead : forall d0 ds0, hex_digits (size_of c) = d0 :: ds0 -> 1 <= d0) by (intros d0 ds0 He; rewrite Hds in He; inversion He; subst; exact Hd).
  pose proof (enc_chunk_shape c []) as Hshape. rewrite app_nil_r in Hshape. rewrite Hshape.
  set (H := map hexchar (hex_digits (size_of c))) in *. set (h := length (hex_digits (size_of c))) in *.
  assert (HlenH : length H = h) by (unfold H; apply map_length).
  destruct (Nat.le_gt_cases k h) as [Hk1|Hk1].
  - (* inside the digits *)
    rewrite <- app_assoc, firstn_app. replace (k - length H)%nat with 0%nat by lia. cbn [firstn]. rewrite app_nil_r.
    unfold H. rewrite firstn_map. rewrite <- (app_nil_r (map hexchar (firstn k (hex_digits (size_of c))))).
    apply cut_in_size_line; auto.
  - destruct (Nat.eq_dec k (S h)) as [->|Hk2].
    + (* right after the CR *)
      rewrite firstn_app. replace (S h - length (H ++ [13%N]))%nat with 0%nat by (rewrite app_length; cbn [length]; lia).
      rewrite firstn_all2 by (rewrite app_length; cbn [length]; lia). rewrite firstn_O, app_nil_r.
      unfold H. rewrite <- (firstn_all (hex_digits (size_of c))) at 1. fold h.
      apply cut_in_size_line; auto. intros He. unfold h in He. destruct (hex_digits (size_of c)); [contradiction|discriminate].
    + (* after the size line *)
      rewrite firstn_app. rewrite firstn_all2 by (rewrite app_length; cbn [length]; lia).
      replace (k - length (H ++ [13%N]))%nat with (S (k - h - 2)) by (rewrite app_length; cbn [length]; lia).
      rewrite firstn_cons. apply cut_in_data; [exact Hc|]. rewrite firstn_length. rewrite app_nil_r, app_length. unfold CRLF. cbn [length]. lia.
Qed.

(* every proper prefix that ends before the zero of the last-chunk line: never a normal end of body *)
Theorem cut_never_complete cs amt : Forall (fun c => (1 <= length c)%nat) cs ->
  forall k fuel, (k < length (concat (map (enc_chunk []) cs)))%nat -> (length cs < fuel)%nat ->
  snd (read_chunked fuel (firstn k (enc_chunked [] cs)) amt) <> Complete.
Proof.
  induction 1 as [|c cs Hc Hcs IH]; intros k fuel Hk Hf.
  - cbn in Hk. lia.
  - destruct fuel as [|f]; [cbn in Hf; lia|]. unfold enc_chunked in *. cbn [map concat] in *. rewrite app_length in Hk.
    rewrite <- app_assoc.
    destruct (Nat.lt_ge_cases k (length (enc_chunk [] c))) as [Hin|Hout].
    + rewrite firstn_app. replace (k - length (enc_chunk [] c))%nat with 0%nat by lia. cbn [firstn]. rewrite app_nil_r.
      apply cut_in_chunk; assumption.
    + rewrite firstn_app, firstn_all2 by exact Hout.
      destruct (read_chunk_whole f c (firstn (k - length (enc_chunk [] c)) (concat (map (enc_chunk []) cs) ++ last_chunk)) amt Hc)
        as (ps & _ & _ & ->).
      specialize (IH (k - length (enc_chunk [] c))%nat f).
      destruct (read_chunked f _ amt) as [more o] eqn:Hr. cbn [snd] in *. apply IH; [lia|cbn [length] in Hf; lia].
Qed.

(* a size line that int(.., 16) does not accept ends the reading with InvalidChunkLength or "ended prematurely" *)
Theorem rejected_size_line_raises f w amt :
  py_int16 (before_semi (fst (readline w))) = None ->
  snd (read_chunked (S f) w amt) = InvalidChunk \/ snd (read_chunked (S f) w amt) = Premature.
Proof.
  intros H. cbn [read_chunked]. destruct (readline w) as [line w1]. cbn [fst] in H. rewrite H.
  destruct (before_semi line); cbn [snd]; [right|left]; reflexivity.
Qed.
