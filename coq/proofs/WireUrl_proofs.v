(* Proofs for C15 (model/WireUrl.v). *)
From Coq Require Import String List NArith Arith Bool Lia.
From V Require Import lib.PyStr model.Url model.WireUrl.
Import ListNotations.
Local Open Scope N_scope.

Definition with_auth_frag (u : url) (a f : option str) : url :=
  mkUrl (scheme u) a (host u) (Url.port u) (path u) (query u) f.

(* nothing on the wire depends on the userinfo or on the fragment of the URL *)
Theorem wire_ignores_userinfo_and_fragment idna via u a f :
  wire_of idna true via (with_auth_frag u a f) = wire_of idna true via u.
Proof.
  unfold wire_of, with_auth_frag, request_uri, netloc. cbn [scheme host Url.port path query auth fragment].
  reflexivity.
Qed.

Definition with_port (u : url) (p : option N) : url :=
  mkUrl (scheme u) (auth u) (host u) p (path u) (query u) (fragment u).

(* a default port spelled out changes nothing for direct and for tunnelled requests, nor the pool that serves them *)
Theorem explicit_default_port_is_the_same idna clean u sch via :
  scheme u = Some sch -> (via = false \/ str_eqb sch HTTPS = true) ->
  wire_of idna clean via (with_port u (Some (default_port sch))) = wire_of idna clean via (with_port u None) /\
  pool_key (with_port u (Some (default_port sch))) = pool_key (with_port u None).
Proof.
  intros Hs Hv. unfold wire_of, pool_key, with_port, request_uri. cbn [scheme host Url.port path query auth fragment]. rewrite Hs.
  assert (Hp : port_eff sch (Some (default_port sch)) = port_eff sch None).
  { unfold port_eff, default_port. destruct (str_eqb sch HTTPS); reflexivity. }
  rewrite Hp. split; [|reflexivity].
  destruct (host u) as [[|c h]|]; try reflexivity.
  destruct (negb (str_eqb sch HTTP || str_eqb sch HTTPS)); [reflexivity|].
  destruct (normalize_host idna (Some (c :: h)) (Some sch)) as [[nh|]|]; try reflexivity.
  all: destruct Hv as [-> | Hh]; [reflexivity|]; rewrite Hh; destruct via; reflexivity.
Qed.

(* the Host header carries the port exactly when it is not the default one *)
Theorem host_header_port_rule host p dp :
  (p = dp -> host_header host p dp = host_header host dp dp) /\
  (p <> dp -> host_header host p dp = host_header host dp dp ++ [COLON] ++ str_of_N p).
Proof.
  unfold host_header. rewrite N.eqb_refl. split; intros H.
  - subst. rewrite N.eqb_refl. reflexivity.
  - apply N.eqb_neq in H. rewrite H. reflexivity.
Qed.

(* the TLS server name never ends in a dot, unless it is an IP literal (which has none) *)
Lemma rstrip_dots_rev_head r : match rstrip_dots_rev r with c :: _ => (c =? DOT) = false | [] => True end.
Proof. induction r as [|c t IH]; cbn [rstrip_dots_rev]; [exact I|]. destruct (c =? DOT) eqn:E; [exact IH|exact E]. Qed.

Theorem server_name_shape h :
  (server_name h = rstrip_dots h /\ match rev (rstrip_dots h) with c :: _ => (c =? DOT) = false | [] => True end) \/
  is_ip (server_name h) = true.
Proof.
  unfold server_name.
  set (n1 := if existsb (fun c => c =? PCT) (strip_both_brackets (rstrip_dots h)) then _ else _).
  destruct (is_ip n1) eqn:E; [right; exact E|left]. split; [reflexivity|].
  unfold rstrip_dots. rewrite rev_involutive. apply rstrip_dots_rev_head.
Qed.

(* origin-form: '/' when the path is empty *)
Theorem empty_path_is_slash u : (path u = None \/ path u = Some []) -> exists q, request_uri u = SLASH :: q.
Proof. intros [H|H]; unfold request_uri; rewrite H; eexists; reflexivity. Qed.
