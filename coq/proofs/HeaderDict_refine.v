(* C16: the HTTPHeaderDict model refines the flat list-of-lines multimap
   specification (model/HeaderSpec.v), for every lower-casing function. *)
From Coq Require Import String List NArith Bool Lia.
From V Require Import lib.PyStr model.HeaderDict model.HeaderSpec proofs.HeaderDict_inv.
Import ListNotations.

Section Refine.
Variable lower : str -> str.

Notation Inv := (Inv lower).
Notation same := (same lower).
Notation find := (@HeaderDict.find).

Definition lines_of (e : entry) : lines := map (fun v => (e_name e, v)) (e_vals e).
Definition abs (d : hd) : lines := flat_map lines_of d.

Lemma abs_app a b : abs (a ++ b) = abs a ++ abs b.
Proof. apply flat_map_app. Qed.

Definition nomatch (k : str) (ls : lines) : Prop := forall l, In l ls -> same k l = false.
Definition allmatch (k : str) (ls : lines) : Prop := forall l, In l ls -> same k l = true.

Lemma same_lines_of k e l :
  entry_ok lower e -> In l (lines_of e) -> same k l = str_eqb (lower k) (e_key e).
Proof.
  intros [Hk _] Hin. unfold lines_of in Hin. apply in_map_iff in Hin as (v & <- & _).
  unfold HeaderSpec.same. simpl. rewrite Hk. reflexivity.
Qed.

Lemma nomatch_abs k d : Inv d -> ~ In (lower k) (keys d) -> nomatch k (abs d).
Proof.
  intros [_ Hf] Hni l Hin. unfold abs in Hin. apply in_flat_map in Hin as (e & He & Hl).
  rewrite Forall_forall in Hf. rewrite (same_lines_of k e l (Hf _ He) Hl).
  apply str_eqb_neq. intros E. apply Hni. rewrite E. apply in_map. assumption.
Qed.

Lemma allmatch_lines_of k e : entry_ok lower e -> e_key e = lower k -> allmatch k (lines_of e).
Proof.
  intros Hok Hk l Hin. rewrite (same_lines_of k e l Hok Hin), Hk. apply str_eqb_refl.
Qed.

Lemma lines_of_nonnil e : entry_ok lower e -> lines_of e <> [].
Proof. intros [_ Hv]. unfold lines_of. destruct (e_vals e); [congruence | discriminate]. Qed.

(* --- splitting the container at the entry found --- *)
Lemma find_split k d e :
  find k d = Some e -> exists l1 l2, d = l1 ++ e :: l2 /\ ~ In k (keys l1) /\ e_key e = k.
Proof.
  induction d as [|x d IH]; simpl; [discriminate|].
  destruct (str_eqb k (e_key x)) eqn:E.
  - intros [= ->]. apply str_eqb_eq in E. exists [], d. simpl. auto.
  - intros H. destruct (IH H) as (l1 & l2 & -> & Hni & Hk).
    exists (x :: l1), l2. simpl. repeat split; auto.
    apply str_eqb_neq in E. intros [H1|H1]; congruence.
Qed.

Lemma Inv_app_inv a b : Inv (a ++ b) -> Inv a /\ Inv b /\ (forall k, In k (keys a) -> ~ In k (keys b)).
Proof.
  induction a as [|x a IH]; simpl; intros H.
  - split; [apply Inv_nil|]. split; [assumption|]. intros k [].
  - apply Inv_cons in H as (Hni & Hok & H). destruct (IH H) as (Ha & Hb & Hd).
    unfold keys in Hni. rewrite map_app, in_app_iff in Hni.
    split; [|split].
    + apply Inv_cons. split; [tauto|]. split; assumption.
    + assumption.
    + intros k [<-|Hk]; [tauto | auto].
Qed.

Lemma set_entry_split k n vs l1 e l2 :
  ~ In k (keys l1) -> e_key e = k -> set_entry k n vs (l1 ++ e :: l2) = l1 ++ mkE k n vs :: l2.
Proof.
  unfold keys. intros Hni Hk. induction l1 as [|x l1 IH]; simpl.
  - rewrite <- Hk, str_eqb_refl. reflexivity.
  - simpl in Hni. destruct (str_eqb k (e_key x)) eqn:E.
    + apply str_eqb_eq in E. exfalso. apply Hni. left. congruence.
    + rewrite IH; [reflexivity | tauto].
Qed.

Lemma remove_split k l1 e l2 :
  ~ In k (keys l1) -> e_key e = k -> remove k (l1 ++ e :: l2) = l1 ++ l2.
Proof.
  unfold keys. intros Hni Hk. induction l1 as [|x l1 IH]; simpl.
  - rewrite <- Hk, str_eqb_refl. reflexivity.
  - simpl in Hni. destruct (str_eqb k (e_key x)) eqn:E.
    + apply str_eqb_eq in E. exfalso. apply Hni. left. congruence.
    + rewrite IH; [reflexivity | tauto].
Qed.

Lemma set_entry_new k n vs d : ~ In k (keys d) -> set_entry k n vs d = d ++ [mkE k n vs].
Proof.
  unfold keys. induction d as [|x d IH]; simpl; intros Hni; [reflexivity|].
  destruct (str_eqb k (e_key x)) eqn:E.
  - apply str_eqb_eq in E. exfalso. apply Hni. left. congruence.
  - rewrite IH; [reflexivity | tauto].
Qed.

(* --- the specification operations on  A ++ E ++ B  and on non-matching lists --- *)
Lemma existsb_nomatch k ls : nomatch k ls -> existsb (same k) ls = false.
Proof.
  induction ls as [|l ls IH]; simpl; intros H; [reflexivity|].
  rewrite (H l (or_introl eq_refl)). simpl. apply IH. intros x Hx. apply H. right. assumption.
Qed.

Lemma sp_has_nomatch k ls : nomatch k ls -> sp_has lower k ls = false.
Proof. apply existsb_nomatch. Qed.

Lemma filter_nomatch k ls : nomatch k ls -> filter (same k) ls = [].
Proof.
  induction ls as [|l ls IH]; simpl; intros H; [reflexivity|].
  rewrite (H l (or_introl eq_refl)). apply IH. intros x Hx. apply H. right. assumption.
Qed.

Lemma filter_allmatch k ls : allmatch k ls -> filter (same k) ls = ls.
Proof.
  induction ls as [|l ls IH]; simpl; intros H; [reflexivity|].
  rewrite (H l (or_introl eq_refl)). f_equal. apply IH. intros x Hx. apply H. right. assumption.
Qed.

Lemma sp_del_nomatch k ls : nomatch k ls -> sp_del lower k ls = ls.
Proof.
  unfold sp_del. induction ls as [|l ls IH]; simpl; intros H; [reflexivity|].
  rewrite (H l (or_introl eq_refl)). simpl. f_equal. apply IH. intros x Hx. apply H. right. assumption.
Qed.

Lemma sp_del_allmatch k ls : allmatch k ls -> sp_del lower k ls = [].
Proof.
  unfold sp_del. induction ls as [|l ls IH]; simpl; intros H; [reflexivity|].
  rewrite (H l (or_introl eq_refl)). simpl. apply IH. intros x Hx. apply H. right. assumption.
Qed.

Lemma sp_del_app k a b : sp_del lower k (a ++ b) = sp_del lower k a ++ sp_del lower k b.
Proof. apply filter_app. Qed.

Lemma nomatch_app k a b : nomatch k a -> nomatch k b -> nomatch k (a ++ b).
Proof. intros Ha Hb l Hl. apply in_app_iff in Hl as [H|H]; auto. Qed.

Lemma sp_has_mid k A E B : allmatch k E -> E <> [] -> sp_has lower k (A ++ E ++ B) = true.
Proof.
  intros HE Hn. unfold sp_has. rewrite !existsb_app.
  destruct E as [|l E]; [congruence|]. simpl. rewrite (HE l (or_introl eq_refl)).
  simpl. apply orb_true_r.
Qed.

Lemma sp_values_mid k A E B :
  nomatch k A -> allmatch k E -> nomatch k B -> sp_values lower k (A ++ E ++ B) = map snd E.
Proof.
  intros HA HE HB. unfold sp_values. rewrite !filter_app.
  rewrite (filter_nomatch k A HA), (filter_nomatch k B HB), (filter_allmatch k E HE).
  rewrite app_nil_r. reflexivity.
Qed.

Lemma sp_del_mid k A E B :
  nomatch k A -> allmatch k E -> nomatch k B -> sp_del lower k (A ++ E ++ B) = A ++ B.
Proof.
  intros HA HE HB. rewrite !sp_del_app.
  rewrite (sp_del_nomatch k A HA), (sp_del_nomatch k B HB), (sp_del_allmatch k E HE). reflexivity.
Qed.

Lemma sp_set_nomatch k v ls : nomatch k ls -> sp_set lower k v ls = ls ++ [(k, v)].
Proof.
  induction ls as [|l ls IH]; simpl; intros H; [reflexivity|].
  rewrite (H l (or_introl eq_refl)). f_equal. apply IH. intros x Hx. apply H. right. assumption.
Qed.

Lemma sp_set_mid k v A E B :
  nomatch k A -> allmatch k E -> E <> [] -> nomatch k B ->
  sp_set lower k v (A ++ E ++ B) = A ++ (k, v) :: B.
Proof.
  intros HA HE Hn HB. induction A as [|a A IH]; simpl.
  - destruct E as [|l E]; [congruence|]. simpl. rewrite (HE l (or_introl eq_refl)).
    f_equal. rewrite sp_del_app, (sp_del_nomatch k B HB), sp_del_allmatch; [reflexivity|].
    intros x Hx. apply HE. right. assumption.
  - rewrite (HA a (or_introl eq_refl)). f_equal. apply IH. intros x Hx. apply HA. right. assumption.
Qed.

Lemma sp_add_nomatch k v c ls : nomatch k ls -> sp_add lower k v c ls = ls ++ [(k, v)].
Proof.
  induction ls as [|l ls IH]; simpl; intros H; [reflexivity|].
  rewrite (H l (or_introl eq_refl)). simpl. f_equal. apply IH. intros x Hx. apply H. right. assumption.
Qed.

(* lines of one group, all carrying the same name *)
Definition glines (n : str) (vals : list str) : lines := map (fun v => (n, v)) vals.

Lemma sp_add_group k v c n vals B :
  vals <> [] -> allmatch k (glines n vals) -> nomatch k B ->
  sp_add lower k v c (glines n vals ++ B) =
  glines n (if c then combine_last vals v else vals ++ [v]) ++ B.
Proof.
  intros Hn HE HB. induction vals as [|x vals IH]; [congruence|].
  destruct vals as [|y vals].
  - simpl. rewrite (HE (n, x) (or_introl eq_refl)). rewrite (sp_has_nomatch k B HB). simpl.
    destruct c; reflexivity.
  - assert (Hx : same k (n, x) = true) by (apply HE; left; reflexivity).
    assert (Hy : same k (n, y) = true) by (apply HE; right; left; reflexivity).
    change (glines n (x :: y :: vals) ++ B) with ((n, x) :: (glines n (y :: vals) ++ B)).
    cbn [sp_add]. rewrite Hx.
    replace (sp_has lower k (glines n (y :: vals) ++ B)) with true
      by (simpl; unfold sp_has; simpl; rewrite Hy; reflexivity).
    cbn [andb negb]. rewrite IH; [| discriminate | intros l Hl; apply HE; right; assumption].
    destruct c; reflexivity.
Qed.

Lemma sp_add_mid k v c A n vals B :
  nomatch k A -> vals <> [] -> allmatch k (glines n vals) -> nomatch k B ->
  sp_add lower k v c (A ++ glines n vals ++ B) =
  A ++ glines n (if c then combine_last vals v else vals ++ [v]) ++ B.
Proof.
  intros HA Hn HE HB. induction A as [|a A IH]; simpl.
  - apply sp_add_group; assumption.
  - rewrite (HA a (or_introl eq_refl)). simpl. f_equal. apply IH.
    intros x Hx. apply HA. right. assumption.
Qed.


(* --- decomposition of a container satisfying the invariant at a key --- *)
Lemma lines_of_glines e : lines_of e = glines (e_name e) (e_vals e).
Proof. reflexivity. Qed.

Lemma decomp_found k d e :
  Inv d -> find (lower k) d = Some e ->
  exists l1 l2, d = l1 ++ e :: l2 /\ ~ In (lower k) (keys l1) /\ e_key e = lower k /\
    entry_ok lower e /\ Inv l1 /\ Inv l2 /\
    nomatch k (abs l1) /\ allmatch k (lines_of e) /\ nomatch k (abs l2).
Proof.
  intros HI Hf. destruct (find_split _ _ _ Hf) as (l1 & l2 & -> & Hni & Hk).
  exists l1, l2. destruct (Inv_app_inv _ _ HI) as (H1 & H2 & Hd).
  apply Inv_cons in H2 as (Hni2 & Hok & H2).
  split; [reflexivity|]. do 5 (split; [assumption|]).
  split; [apply nomatch_abs; assumption|].
  split; [apply allmatch_lines_of; assumption|].
  apply nomatch_abs; [assumption | congruence].
Qed.

Lemma abs_decomp l1 e l2 : abs (l1 ++ e :: l2) = abs l1 ++ lines_of e ++ abs l2.
Proof. rewrite abs_app. reflexivity. Qed.

Lemma nomatch_whole k d : Inv d -> find (lower k) d = None -> nomatch k (abs d).
Proof. intros H Hf. apply nomatch_abs; [assumption | apply find_none; assumption]. Qed.

(* --- core operations commute with abs --- *)
Lemma contains_abs k d : Inv d -> contains lower k d = sp_has lower k (abs d).
Proof.
  intros H. unfold contains. destruct (find (lower k) d) as [e|] eqn:E.
  - destruct (decomp_found k d e H E) as (l1 & l2 & -> & _ & _ & Hok & _ & _ & _ & HE & _).
    rewrite abs_decomp. symmetry. apply sp_has_mid; [assumption | apply lines_of_nonnil; assumption].
  - symmetry. apply sp_has_nomatch. apply nomatch_whole; assumption.
Qed.

Lemma getlist_abs k d : Inv d -> getlist lower k d = sp_values lower k (abs d).
Proof.
  intros H. unfold getlist. destruct (find (lower k) d) as [e|] eqn:E.
  - destruct (decomp_found k d e H E) as (l1 & l2 & -> & _ & _ & Hok & _ & _ & HA & HE & HB).
    rewrite abs_decomp, sp_values_mid by assumption.
    unfold lines_of. rewrite map_map. simpl. symmetry. apply map_id.
  - unfold sp_values. rewrite filter_nomatch; [reflexivity | apply nomatch_whole; assumption].
Qed.

Lemma getitem_abs k d : Inv d -> getitem lower k d = sp_get lower k (abs d).
Proof.
  intros H. unfold getitem, sp_get. rewrite <- contains_abs, <- getlist_abs by assumption.
  unfold contains, getlist. destruct (find (lower k) d); reflexivity.
Qed.

Lemma setitem_abs k v d : Inv d -> abs (setitem lower k v d) = sp_set lower k v (abs d).
Proof.
  intros H. unfold setitem. destruct (find (lower k) d) as [e|] eqn:E.
  - destruct (decomp_found k d e H E) as (l1 & l2 & -> & Hni & Hk & Hok & _ & _ & HA & HE & HB).
    rewrite set_entry_split by assumption. rewrite !abs_decomp.
    rewrite sp_set_mid; try assumption; [reflexivity | apply lines_of_nonnil; assumption].
  - rewrite set_entry_new by (apply find_none; assumption).
    rewrite abs_app, sp_set_nomatch by (apply nomatch_whole; assumption). reflexivity.
Qed.

Lemma remove_absent k d : ~ In k (keys d) -> remove k d = d.
Proof.
  unfold keys. induction d as [|x d IH]; simpl; intros Hni; [reflexivity|].
  destruct (str_eqb k (e_key x)) eqn:E2.
  - apply str_eqb_eq in E2. exfalso. apply Hni. left. congruence.
  - f_equal. apply IH. tauto.
Qed.

Lemma remove_abs k d : Inv d -> abs (remove (lower k) d) = sp_del lower k (abs d).
Proof.
  intros H. destruct (find (lower k) d) as [e|] eqn:E.
  - destruct (decomp_found k d e H E) as (l1 & l2 & -> & Hni & Hk & Hok & _ & _ & HA & HE & HB).
    rewrite remove_split by assumption. rewrite abs_decomp, abs_app.
    rewrite sp_del_mid by assumption. reflexivity.
  - rewrite sp_del_nomatch by (apply nomatch_whole; assumption).
    rewrite remove_absent; [reflexivity | apply find_none; assumption].
Qed.

Lemma delitem_abs k d :
  Inv d ->
  match delitem lower k d with
  | Some d' => sp_has lower k (abs d) = true /\ abs d' = sp_del lower k (abs d)
  | None => sp_has lower k (abs d) = false
  end.
Proof.
  intros H. rewrite <- contains_abs by assumption. unfold delitem, contains.
  destruct (find (lower k) d); [|reflexivity].
  split; [reflexivity | apply remove_abs; assumption].
Qed.

Lemma discard_abs k d : Inv d -> abs (discard lower k d) = sp_del lower k (abs d).
Proof.
  intros H. unfold discard. pose proof (delitem_abs k d H) as D.
  destruct (delitem lower k d); [apply D|].
  symmetry. apply sp_del_nomatch. intros l Hl.
  unfold sp_has in D. destruct (same k l) eqn:E; [|reflexivity].
  assert (existsb (same k) (abs d) = true) by (apply existsb_exists; eauto). congruence.
Qed.

Lemma add_abs k v c d : Inv d -> abs (add lower k v c d) = sp_add lower k v c (abs d).
Proof.
  intros H. unfold add. destruct (find (lower k) d) as [e|] eqn:E.
  - destruct (decomp_found k d e H E) as (l1 & l2 & -> & Hni & Hk & Hok & _ & _ & HA & HE & HB).
    rewrite set_entry_split by assumption. rewrite !abs_decomp.
    rewrite (lines_of_glines e), sp_add_mid; try assumption; [reflexivity | apply Hok].
  - rewrite abs_app, sp_add_nomatch by (apply nomatch_whole; assumption). reflexivity.
Qed.

(* --- iteration --- *)
Lemma iteritems_sub d d' :
  Inv d -> (forall e, In e d' -> In e d) ->
  fold_right (fun n acc =>
    match acc, find (lower n) d with
    | Some acc', Some e => Some (map (fun v => (e_name e, v)) (e_vals e) ++ acc')
    | _, _ => None
    end) (Some []) (names d') = Some (abs d').
Proof.
  intros H. induction d' as [|x d' IH]; simpl; intros Hsub; [reflexivity|].
  rewrite IH by (intros; apply Hsub; right; assumption).
  rewrite (find_name lower d x H) by (apply Hsub; left; reflexivity). reflexivity.
Qed.

Lemma iteritems_abs d : Inv d -> iteritems lower d = Some (abs d).
Proof. intros H. apply iteritems_sub; auto. Qed.

Definition merged_of (d : hd) : list (str * str) :=
  map (fun e => (e_name e, join comma_sp (e_vals e))) d.

Lemma itermerged_sub d d' :
  Inv d -> (forall e, In e d' -> In e d) ->
  fold_right (fun n acc =>
    match acc, find (lower n) d with
    | Some acc', Some e => Some ((e_name e, join comma_sp (e_vals e)) :: acc')
    | _, _ => None
    end) (Some []) (names d') = Some (merged_of d').
Proof.
  intros H. induction d' as [|x d' IH]; simpl; intros Hsub; [reflexivity|].
  rewrite IH by (intros; apply Hsub; right; assumption).
  rewrite (find_name lower d x H) by (apply Hsub; left; reflexivity). reflexivity.
Qed.

Lemma itermerged_eq d : Inv d -> itermerged lower d = Some (merged_of d).
Proof. intros H. apply itermerged_sub; auto. Qed.

(* names = group leaders of the lines, in order of first appearance *)
Lemma sp_names_go_skip seen ls :
  (forall l, In l ls -> mem_str (lower (fst l)) seen = true) -> sp_names_go lower seen ls = [].
Proof.
  induction ls as [|l ls IH]; simpl; intros H; [reflexivity|].
  rewrite (H l (or_introl eq_refl)). apply IH. intros; apply H; right; assumption.
Qed.

Lemma sp_names_go_app_skip seen a b :
  (forall l, In l a -> mem_str (lower (fst l)) seen = true) ->
  sp_names_go lower seen (a ++ b) = sp_names_go lower seen b.
Proof.
  induction a as [|l a IH]; simpl; intros H; [reflexivity|].
  rewrite (H l (or_introl eq_refl)). apply IH. intros; apply H; right; assumption.
Qed.

Lemma names_abs_gen seen d :
  Inv d -> (forall k, In k (keys d) -> ~ In k seen) ->
  sp_names_go lower seen (abs d) = names d.
Proof.
  revert seen. induction d as [|e d IH]; simpl; intros seen H Hd; [reflexivity|].
  apply Inv_cons in H as (Hni & Hok & H). destruct Hok as [Hk Hv].
  unfold lines_of. destruct (e_vals e) as [|v vs] eqn:Ev; [congruence|].
  simpl. rewrite <- Hk.
  destruct (mem_str (e_key e) seen) eqn:M.
  - apply mem_str_In in M. exfalso. apply (Hd (e_key e)); [left; reflexivity | assumption].
  - f_equal. rewrite sp_names_go_app_skip.
    + apply IH; [assumption|]. intros k Hkin [<-|Hs]; [tauto|].
      apply (Hd k); [right; assumption | assumption].
    + intros l Hl. apply in_map_iff in Hl as (w & <- & _). simpl. rewrite <- Hk.
      unfold mem_str. simpl. rewrite str_eqb_refl. reflexivity.
Qed.

Lemma names_abs d : Inv d -> names d = sp_names lower (abs d).
Proof. intros H. symmetry. apply names_abs_gen; [assumption | intros k _ []]. Qed.

Lemma merged_abs d :
  Inv d -> merged_of d =
  map (fun n => (n, match sp_get lower n (abs d) with Some v => v | None => [] end))
      (sp_names lower (abs d)).
Proof.
  intros H. rewrite <- names_abs by assumption. unfold merged_of, names. rewrite map_map.
  apply map_ext_in. intros e He. rewrite <- getitem_abs by assumption.
  unfold getitem. rewrite (find_name lower d e H He). reflexivity.
Qed.

(* --- copies are the same value (and values are immutable): independence --- *)
Lemma copy_from_gen d l1 l2 :
  Inv d -> d = l1 ++ l2 ->
  fold_left (fun acc n => set_entry (lower n) n (getlist lower n d) acc) (names l2) l1 = d.
Proof.
  intros H. revert l1. induction l2 as [|e l2 IH]; simpl; intros l1 Hd.
  - rewrite app_nil_r in Hd. congruence.
  - assert (Hin : In e d) by (rewrite Hd; apply in_app_iff; right; left; reflexivity).
    assert (Hg : getlist lower (e_name e) d = e_vals e)
      by (unfold getlist; rewrite (find_name lower d e H Hin); reflexivity).
    rewrite Hg.
    assert (Hni : ~ In (lower (e_name e)) (keys l1)).
    { rewrite Hd in H. destruct (Inv_app_inv _ _ H) as (_ & H2 & Hdis).
      apply Inv_cons in H2 as (_ & [Hk _] & _). intros Hx. apply (Hdis _ Hx).
      rewrite <- Hk. left. reflexivity. }
    rewrite set_entry_new by assumption.
    apply IH. rewrite Hd, <- app_assoc. simpl.
    assert (He : mkE (lower (e_name e)) (e_name e) (e_vals e) = e).
    { rewrite Hd in H. destruct (Inv_app_inv _ _ H) as (_ & H2 & _).
      apply Inv_cons in H2 as (_ & [Hk _] & _). destruct e; simpl in *. congruence. }
    rewrite He. reflexivity.
Qed.

Lemma copy_id d : Inv d -> copy lower d = d.
Proof. intros H. unfold copy, copy_from. apply (copy_from_gen d [] d H). reflexivity. Qed.

(* --- clear and popitem --- *)
Lemma popitem_cons e d :
  Inv (e :: d) -> popitem lower (e :: d) = Some (e_name e, join comma_sp (e_vals e), d).
Proof.
  intros H. unfold popitem. simpl names. cbv iota.
  assert (F : find (lower (e_name e)) (e :: d) = Some e)
    by (apply find_name; [assumption | left; reflexivity]).
  unfold getitem, delitem. rewrite F.
  apply Inv_cons in H as (_ & [Hk _] & _).
  simpl. rewrite <- Hk, str_eqb_refl. reflexivity.
Qed.

Lemma clear_go_nil d : Inv d -> clear_go lower (length d) d = [].
Proof.
  induction d as [|e d IH]; simpl; intros H; [reflexivity|].
  rewrite (popitem_cons e d H). apply IH. apply Inv_cons in H. tauto.
Qed.

Lemma clear_abs d : Inv d -> abs (clear lower d) = [].
Proof. intros H. unfold clear. rewrite clear_go_nil by assumption. reflexivity. Qed.

End Refine.
