(* C14: properties of the parse_url model. *)
From Coq Require Import String List NArith ZArith Bool Arith Lia ZifyBool ZifyN.
From V Require Import lib.PyStr model.Url model.UrlRef.
Import ListNotations.
Local Open Scope N_scope.

(* ---------- generic scanners ---------- *)
Lemma span_app p s : s = fst (span p s) ++ snd (span p s).
Proof.
  induction s as [|c s IH]; simpl; [reflexivity|].
  destruct (p c); [|reflexivity]. destruct (span p s) as [a b]. simpl in *. congruence.
Qed.

Lemma span_all p s x : In x (fst (span p s)) -> p x = true.
Proof.
  induction s as [|c s IH]; simpl; [tauto|].
  destruct (p c) eqn:E; [|simpl; tauto]. destruct (span p s) as [a b]. simpl in *.
  intros [<-|H]; auto.
Qed.

Lemma rsplit_rev_none d r acc : ~ In d r -> rsplit_rev d r acc = None.
Proof.
  revert acc. induction r as [|c r IH]; simpl; intros acc H; [reflexivity|].
  destruct (N.eqb_spec c d) as [->|]; [exfalso; apply H; left; reflexivity|]. apply IH. tauto.
Qed.

Lemma rsplit_rev_found d a b acc :
  ~ In d b -> rsplit_rev d (rev b ++ d :: rev a) acc = Some (a, b ++ acc).
Proof.
  revert acc. induction b as [|c b IH] using rev_ind; intros acc H.
  - simpl. rewrite N.eqb_refl, rev_involutive. reflexivity.
  - rewrite rev_app_distr. simpl. destruct (N.eqb_spec c d) as [->|].
    + exfalso. apply H. apply in_app_iff. right. left. reflexivity.
    + rewrite IH by (intros X; apply H; apply in_app_iff; left; assumption).
      rewrite <- app_assoc. reflexivity.
Qed.

Lemma rsplit_found d a b : ~ In d b -> rsplit d (a ++ d :: b) = Some (a, b).
Proof.
  intros H. unfold rsplit. rewrite rev_app_distr. simpl. rewrite <- app_assoc. simpl.
  rewrite rsplit_rev_found by assumption. rewrite app_nil_r. reflexivity.
Qed.

Lemma rsplit_none d s : ~ In d s -> rsplit d s = None.
Proof. intros H. unfold rsplit. apply rsplit_rev_none. rewrite <- in_rev. assumption. Qed.

(* ---------- reg-name scanning ---------- *)
Lemma regname_span_app s : s = fst (regname_span s) ++ snd (regname_span s).
Proof.
  remember (length s) as n eqn:Hn. revert s Hn.
  induction n as [n IH] using lt_wf_ind. intros s Hn.
  destruct s as [|c r]; [reflexivity|]. cbn [regname_span].
  destruct (c =? PCT).
  - destruct r as [|a [|b r']]; try reflexivity.
    destruct (is_hex a && is_hex b); [|reflexivity].
    specialize (IH (length r') ltac:(subst n; simpl; lia) r' eq_refl).
    destruct (regname_span r') as [x y]. simpl in *. congruence.
  - destruct ((c =? LBR) || (c =? RBR) || (c =? COLON) || (c =? SLASH) || (c =? QMARK) || (c =? HASH)); [reflexivity|].
    specialize (IH (length r) ltac:(subst n; simpl; lia) r eq_refl).
    destruct (regname_span r) as [x y]. simpl in *. congruence.
Qed.

Lemma hex_not_colon a : is_hex a = true -> a <> COLON.
Proof. unfold is_hex, is_digit, COLON. intros H ->. vm_compute in H. discriminate. Qed.

Lemma regname_no_colon s : ~ In COLON (fst (regname_span s)).
Proof.
  remember (length s) as n eqn:Hn. revert s Hn.
  induction n as [n IH] using lt_wf_ind. intros s Hn.
  destruct s as [|c r]; [simpl; tauto|]. cbn [regname_span].
  destruct (N.eqb_spec c PCT) as [->|Hc].
  - destruct r as [|a [|b r']]; try (simpl; tauto).
    destruct (is_hex a && is_hex b) eqn:E; [|simpl; tauto].
    apply andb_true_iff in E as [Ea Eb].
    specialize (IH (length r') ltac:(subst n; simpl; lia) r' eq_refl).
    destruct (regname_span r') as [x y]. simpl in *.
    intros [H|[H|[H|H]]]; try discriminate; try (apply (hex_not_colon _ Ea); congruence);
      try (apply (hex_not_colon _ Eb); congruence); tauto.
  - destruct ((c =? LBR) || (c =? RBR) || (c =? COLON) || (c =? SLASH) || (c =? QMARK) || (c =? HASH)) eqn:E; [simpl; tauto|].
    specialize (IH (length r) ltac:(subst n; simpl; lia) r eq_refl).
    destruct (regname_span r) as [x y]. simpl in *.
    intros [H|H]; [|tauto]. subst c. unfold COLON in E. rewrite N.eqb_refl in E.
    rewrite !orb_true_r in E. simpl in E. discriminate.
Qed.

(* ---------- the port suffix ---------- *)
Definition digits (s : str) : Prop := forall c, In c s -> is_digit c = true.

Lemma digit_not_colon c : is_digit c = true -> c <> COLON.
Proof. unfold is_digit, COLON. intros H ->. vm_compute in H. discriminate. Qed.

Ltac fin H :=
  repeat match type of H with
         | (match ?x with _ => _ end) = _ => destruct x
         end; try discriminate; injection H as <-; eauto.

(* shape of a successful suffix match: ':' digits, optionally one final newline *)
Lemma port_suffix_shape rest p :
  port_suffix rest = Some p ->
  (rest = [] /\ p = None) \/
  (exists d tail, rest = COLON :: d ++ tail /\ digits d /\ (tail = [] \/ tail = [NL]) /\
                  exists q, p = Some q).
Proof.
  unfold port_suffix. destruct rest as [|c r]; [intros [= <-]; left; auto|].
  destruct (N.eqb_spec c COLON) as [->|]; [|discriminate].
  pose proof (span_app is_digit r) as Happ. pose proof (span_all is_digit r) as Hall.
  destruct (span is_digit r) as [d tail]. simpl in *.
  destruct tail as [|x [|y t]].
  - intros H. right. exists d, []. split; [rewrite Happ; reflexivity|]. split; [exact Hall|]. split; [auto|].
    fin H.
  - destruct (N.eqb_spec x NL) as [->|]; [|discriminate].
    intros H. right. exists d, [NL]. split; [rewrite Happ; reflexivity|]. split; [exact Hall|]. split; [auto|].
    fin H.
  - discriminate.
Qed.

Lemma NL_not_colon : NL <> COLON. Proof. discriminate. Qed.

(* the model's split (first ':' after a reg-name) agrees with the reference reading
   (last ':' outside brackets): same host text; the reference's port text is the digits
   the model saw, possibly followed by one newline (known finding C14-F1) *)
Theorem host_port_agrees_nonbracket s h p :
  (forall c r, s = c :: r -> c <> LBR) ->
  host_port_match s = Some (h, p) ->
  exists ptext, ref_hostport s = Some (h, ptext) /\
    match ptext with
    | None => p = None
    | Some t => exists d tail, t = d ++ tail /\ digits d /\ (tail = [] \/ tail = [NL]) /\ exists q, p = Some q
    end.
Proof.
  intros Hnb. unfold host_port_match, ref_hostport. destruct s as [|c r]; [intros [= <- <-]; exists None; auto|].
  assert (Hc : (c =? LBR) = false) by (apply N.eqb_neq; eapply Hnb; reflexivity). rewrite Hc.
  pose proof (regname_span_app (c :: r)) as Happ. pose proof (regname_no_colon (c :: r)) as Hnc.
  destruct (regname_span (c :: r)) as [name rest]. simpl fst in *. simpl snd in *.
  destruct (port_suffix rest) as [p'|] eqn:Ep; [|discriminate]. intros [= <- <-].
  apply port_suffix_shape in Ep as [[-> ->]|(d & tail & -> & Hd & Ht & q & ->)].
  - rewrite app_nil_r in Happ. rewrite rsplit_none by (rewrite Happ; assumption).
    exists None. rewrite Happ. auto.
  - rewrite Happ. rewrite rsplit_found.
    + exists (Some (d ++ tail)). split; [reflexivity|]. exists d, tail. eauto.
    + intros Hin. apply in_app_iff in Hin as [Hin|Hin].
      * apply (digit_not_colon COLON); [apply Hd; assumption | reflexivity].
      * destruct Ht as [-> | ->]; [contradiction | destruct Hin as [E|[]]; discriminate].
Qed.

(* ---------- port range, scheme case ---------- *)
Lemma lower_idem s : ascii_lower (ascii_lower s) = ascii_lower s.
Proof.
  unfold ascii_lower. rewrite map_map. apply map_ext. intros c. unfold lower_cp.
  destruct ((65 <=? c) && (c <=? 90)) eqn:E; [|rewrite E; reflexivity].
  assert (((65 <=? c + 32) && (c + 32 <=? 90)) = false) by lia. rewrite H. reflexivity.
Qed.

Section WithIdna.
Variable idna : str -> option str.

Theorem port_in_range u r p : parse_url idna u = Some r -> port r = Some p -> p <= 65535.
Proof.
  unfold parse_url. destruct u as [|c0 u0]; [intros [= <-]; discriminate|].
  remember (if has_scheme_prefix (c0 :: u0) then c0 :: u0 else [SLASH; SLASH] ++ c0 :: u0) as u' eqn:Hu'. clear Hu'.
  destruct (parse_authority _ _) as [[[au h] po]|]; [|discriminate].
  destruct (check_port po) as [pi|] eqn:Ep; [|discriminate].
  destruct (normalize_host idna h _); [|discriminate].
  intros [= <-]. cbn [port]. intros ->. unfold check_port in Ep. destruct po as [d|]; [|discriminate].
  destruct (N_of_digits d 0 <=? 65535) eqn:E; [|discriminate]. injection Ep as <-. lia.
Qed.

Theorem scheme_lower u r s : parse_url idna u = Some r -> scheme r = Some s -> ascii_lower s = s.
Proof.
  unfold parse_url. destruct u as [|c0 u0]; [intros [= <-]; discriminate|].
  remember (if has_scheme_prefix (c0 :: u0) then c0 :: u0 else [SLASH; SLASH] ++ c0 :: u0) as u' eqn:Hu'. clear Hu'.
  destruct (parse_authority _ _) as [[[au h] po]|]; [|discriminate].
  destruct (check_port po); [|discriminate].
  destruct (normalize_host idna h _); [|discriminate].
  intros [= <-]. cbn [scheme]. destruct (u_scheme _) as [s0|]; unfold option_map; intros H; [|discriminate H].
  injection H as <-. apply lower_idem.
Qed.
End WithIdna.

(* ---------- _encode_invalid_chars: what the output is made of ---------- *)
Ltac Zify.zify_post_hook ::= Z.to_euclidean_division_equations.

Definition upper_hex_digit (c : N) : bool := is_digit c || ((65 <=? c) && (c <=? 70)).

Lemma hex_digit_upper n : n < 16 -> upper_hex_digit (hex_digit n) = true.
Proof. intros H. unfold upper_hex_digit, hex_digit, is_digit. destruct (n <? 10) eqn:E; lia. Qed.

Lemma utf8_cp_sp_byte c b : c < 1114112 -> In b (utf8_cp_sp c) -> b < 256.
Proof.
  unfold utf8_cp_sp. intros Hc.
  destruct (c <? 128) eqn:E1; [intros [<-|[]]; lia|].
  destruct (c <? 2048) eqn:E2; [intros [<-|[<-|[]]]; lia|].
  destruct (c <? 65536) eqn:E3; [intros [<-|[<-|[<-|[]]]]; lia|].
  intros [<-|[<-|[<-|[<-|[]]]]]; lia.
Qed.

Lemma upper_hex_le c : upper_hex c <= c.
Proof. unfold upper_hex. destruct ((97 <=? c) && (c <=? 102)); lia. Qed.

Lemma upper_escapes_bound M s x : (forall c, In c s -> c < M) -> In x (fst (upper_escapes s)) -> x < M.
Proof.
  remember (length s) as n eqn:Hn. revert s Hn x.
  induction n as [n IH] using lt_wf_ind. intros s Hn x Hs.
  destruct s as [|c r]; [simpl; tauto|]. cbn [upper_escapes].
  destruct r as [|a [|b r']].
  - simpl. intros [<-|[]]. apply Hs. left. reflexivity.
  - simpl. intros [<-|[<-|[]]]; apply Hs; simpl; auto.
  - destruct ((c =? PCT) && is_hex a && is_hex b).
    + specialize (IH (length r') ltac:(subst n; simpl; lia) r' eq_refl).
      destruct (upper_escapes r') as [y k] eqn:E. simpl.
      intros [<-|[<-|[<-|H]]].
      * apply Hs. left. reflexivity.
      * eapply N.le_lt_trans; [apply upper_hex_le | apply Hs; simpl; auto].
      * eapply N.le_lt_trans; [apply upper_hex_le | apply Hs; simpl; auto].
      * apply (IH x); [intros; apply Hs; simpl; auto | assumption].
    + specialize (IH (length (a :: b :: r')) ltac:(subst n; simpl; lia) (a :: b :: r') eq_refl).
      destruct (upper_escapes (a :: b :: r')) as [y k] eqn:E. simpl.
      intros [<-|H]; [apply Hs; left; reflexivity|].
      apply (IH x); [intros; apply Hs; right; assumption | assumption].
Qed.

(* every character of an encoded component is an allowed ASCII character, '%', or an
   upper-case hex digit (of a %XX escape the function produced) *)
Theorem encoded_charset allowed comp c :
  (forall x, In x comp -> x < 1114112) ->
  In c (encode_invalid_chars allowed comp) ->
  (c < 128 /\ allowed c = true) \/ c = PCT \/ upper_hex_digit c = true.
Proof.
  intros Hv. unfold encode_invalid_chars.
  pose proof (upper_escapes_bound 1114112 comp) as Hb.
  destruct (upper_escapes comp) as [cm n]. simpl in Hb.
  intros H. apply in_flat_map in H as (b & Hbin & H).
  assert (Hb256 : b < 256).
  { unfold utf8_sp in Hbin. apply in_flat_map in Hbin as (x & Hx & Hbx).
    apply (utf8_cp_sp_byte x b); [apply Hb; assumption | assumption]. }
  destruct ((Nat.eqb n _ && (b =? PCT)) || ((b <? 128) && allowed b)) eqn:E.
  - destruct H as [<-|[]]. apply orb_true_iff in E as [E|E].
    + apply andb_true_iff in E as [_ E]. apply N.eqb_eq in E. auto.
    + apply andb_true_iff in E as [E1 E2]. left. split; [lia | assumption].
  - unfold pct_byte in H. destruct H as [<-|[<-|[<-|[]]]]; [auto | |];
      right; right; apply hex_digit_upper; lia.
Qed.

(* ---------- bracketed hosts ---------- *)
Definition port_rel (ptext : option str) (p : option str) : Prop :=
  match ptext with
  | None => p = None
  | Some t => exists d tail, t = d ++ tail /\ digits d /\ (tail = [] \/ tail = [NL]) /\ exists q, p = Some q
  end.

Lemma span_stop p s : match snd (span p s) with d :: _ => p d = false | [] => True end.
Proof.
  induction s as [|c s IH]; simpl; [exact I|].
  destruct (p c) eqn:E; [|simpl; assumption]. destruct (span p s) as [a b]. simpl in *. assumption.
Qed.

Theorem host_port_agrees s h p :
  host_port_match s = Some (h, p) ->
  (exists ptext, ref_hostport s = Some (h, ptext) /\ port_rel ptext p) \/
  (exists inner, s = LBR :: inner ++ [RBR; NL] /\ h = LBR :: inner ++ [RBR] /\ p = None).
Proof.
  intros H. destruct s as [|c r]; [injection H as <- <-; left; exists None; split; reflexivity|].
  destruct (N.eqb_spec c LBR) as [->|Hne].
  - unfold host_port_match in H. unfold ref_hostport. rewrite N.eqb_refl in *. cbn [tl] in H.
    pose proof (span_app (fun x => negb (x =? RBR)) r) as Happ.
    pose proof (span_stop (fun x => negb (x =? RBR)) r) as Hstop.
    destruct (span (fun x => negb (x =? RBR)) r) as [inner rest]. simpl in Happ, Hstop.
    destruct rest as [|d after]; [discriminate|].
    assert (Hd : d = RBR) by (apply negb_false_iff in Hstop; apply N.eqb_eq; assumption). subst d.
    destruct (is_ipv6_content inner); [|discriminate].
    destruct (port_suffix after) as [p'|] eqn:Ep.
    + injection H as <- <-. left.
      apply port_suffix_shape in Ep as [[-> ->]|(dg & tail & -> & Hd & Ht & q & ->)].
      * exists None. split; reflexivity.
      * rewrite N.eqb_refl. exists (Some (dg ++ tail)). split; [reflexivity|]. exists dg, tail. eauto.
    + destruct after as [|x [|y t]]; try discriminate.
      destruct (N.eqb_spec x NL) as [->|]; [|discriminate].
      injection H as <- <-. right. exists inner. split; [|split; reflexivity].
      rewrite Happ. reflexivity.
  - left. apply host_port_agrees_nonbracket; [|assumption]. intros c' r' [= <- <-]. assumption.
Qed.

(* KNOWN FINDING C14-F1: the full-strength statement (port text = exactly the digits) is false *)
Theorem port_text_exact_refuted :
  exists s h q, host_port_match s = Some (h, Some q) /\ ref_hostport s = Some (h, Some (q ++ [NL])).
Proof. exists (S!"h:80" ++ [NL]), (S!"h"), (S!"80"). vm_compute. split; reflexivity. Qed.

(* userinfo: both readings split at the LAST '@' *)
Lemma rpartition_rev_eq r acc :
  rpartition_at_rev r acc = rsplit_rev AT r acc.
Proof. revert acc. induction r as [|c r IH]; simpl; intros acc; [reflexivity|]. destruct (c =? AT); [reflexivity | apply IH]. Qed.

Theorem userinfo_agrees a :
  rpartition_at a = match ref_userinfo_hostport a with (Some u, hp) => (u, hp) | (None, hp) => ([], hp) end.
Proof.
  unfold rpartition_at, ref_userinfo_hostport, rsplit. rewrite rpartition_rev_eq.
  destruct (rsplit_rev AT (rev a) []) as [[u hp]|]; reflexivity.
Qed.

(* ---------- parse_url: where host, port and userinfo come from ---------- *)
Section Top.
Variable idna : str -> option str.

Definition effective_input (u : str) : str := if has_scheme_prefix u then u else [SLASH; SLASH] ++ u.

Theorem parse_url_authority u r a :
  u <> [] -> parse_url idna u = Some r ->
  u_authority (uri_split (effective_input u)) = Some a -> a <> [] ->
  exists h p,
    host_port_match (snd (rpartition_at a)) = Some (h, p) /\
    normalize_host idna (Some h) (scheme r) = Some (host r) /\
    port r = match p with Some (c :: d) => Some (N_of_digits (c :: d) 0) | _ => None end /\
    (auth r = None <-> fst (rpartition_at a) = []).
Proof.
  intros Hne. unfold parse_url, effective_input. destruct u as [|c0 u0]; [congruence|].
  remember (if has_scheme_prefix (c0 :: u0) then c0 :: u0 else [SLASH; SLASH] ++ c0 :: u0) as u' eqn:Hu'. clear Hu'.
  intros H Ha Hna. rewrite Ha in H. unfold parse_authority in H.
  destruct a as [|a0 a']; [congruence|].
  destruct (rpartition_at (a0 :: a')) as [au hp] eqn:Er. cbn [fst snd].
  destruct (host_port_match hp) as [[h po]|] eqn:Eh; [|discriminate].
  exists h, po. split; [reflexivity|].
  destruct (check_port _) as [pi|] eqn:Ep; [|discriminate].
  destruct (normalize_host idna (Some h) _) as [h'|] eqn:En; [|discriminate].
  injection H as <-. cbn [scheme host port auth].
  split; [assumption|]. split.
  - unfold check_port in Ep. destruct po as [[|c d]|]; try (injection Ep as <-; reflexivity).
    destruct (N_of_digits (c :: d) 0 <=? 65535); [injection Ep as <-; reflexivity | discriminate].
  - destruct au; split; intros X; try reflexivity; try discriminate.
Qed.
End Top.
