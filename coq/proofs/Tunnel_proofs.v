(* Proofs for the CONNECT request and the HTTP/2 header checks (model/Tunnel.v), part of C10. *)
From Coq Require Import String List NArith ZArith Bool Lia ZifyBool ZifyN.
From V Require Import lib.PyStr model.Url model.ReqHead model.Tunnel proofs.ReqHead_proofs.
Import ListNotations.
Local Open Scope N_scope.
Ltac Zify.zify_post_hook ::= Z.to_euclidean_division_equations.

Lemma memN_In c l : memN c l = true <-> In c l.
Proof.
  unfold memN. rewrite existsb_exists. split.
  - intros (x & Hx & E). apply N.eqb_eq in E. subst. exact Hx.
  - intros H. exists c. split; [exact H|apply N.eqb_refl].
Qed.

(* ---------- decimal digits ---------- *)
Lemma digits_are_digits fuel : forall n acc, (forall c, In c acc -> 48 <= c <= 57) ->
  forall c, In c (digits_of_fuel fuel n acc) -> 48 <= c <= 57.
Proof.
  induction fuel as [|f IH]; intros n acc Hacc c Hc; cbn [digits_of_fuel] in Hc; [apply Hacc; exact Hc|].
  assert (Hacc' : forall x, In x ((48 + n mod 10) :: acc) -> 48 <= x <= 57).
  { intros x [<-|Hx]; [|apply Hacc; exact Hx]. pose proof (N.mod_upper_bound n 10 ltac:(lia)). lia. }
  destruct (n / 10 =? 0); [apply Hacc'; exact Hc|]. exact (IH _ _ Hacc' c Hc).
Qed.

Lemma str_of_N_digits p c : In c (str_of_N p) -> 48 <= c <= 57.
Proof. unfold str_of_N. apply digits_are_digits. intros x []. Qed.

Section Tunnel.
  Variables (bad_host token bad_value : list N).
  Hypothesis Hhost_sp : memN SPc bad_host = true.
  Hypothesis Hhost_cr : memN CR bad_host = true.
  Hypothesis Hhost_lf : memN LF bad_host = true.
  Hypothesis Htoken : forallb (fun c => negb (c =? COLONc) && negb (is_ws c)) token = true.
  Hypothesis Hval_cr : memN CR bad_value = true.
  Hypothesis Hval_lf : memN LF bad_value = true.

  Lemma host_ok_free h c : host_ok bad_host h = true -> memN c bad_host = true -> forallb (fun x => negb (x =? c)) h = true.
  Proof.
    unfold host_ok. intros H Hc. rewrite forallb_forall in *. intros x Hx. specialize (H x Hx).
    destruct (x =? c) eqn:E; [|reflexivity]. apply N.eqb_eq in E. subst x. rewrite Hc in H. discriminate.
  Qed.

  Lemma authority_free h p c : (c < 48 \/ 58 < c) -> forallb (fun x => negb (x =? c)) h = true ->
    forallb (fun x => negb (x =? c)) (authority h p) = true.
  Proof.
    intros Hc Hh. unfold authority. rewrite !forallb_app, Hh. cbn [forallb andb].
    assert (forallb (fun x => negb (x =? c)) (str_of_N p) = true) as ->.
    { apply forallb_forall. intros x Hx. pose proof (str_of_N_digits p x Hx). lia. }
    unfold COLONc. destruct (58 =? c) eqn:E; [lia|reflexivity].
  Qed.

  Lemma name_ok_legal n : name_ok token n = true -> legal_name n = true.
  Proof.
    unfold name_ok. intros H. apply andb_true_iff in H as [Hne Hall]. destruct n as [|c r]; [discriminate|].
    rewrite forallb_forall in Hall, Htoken.
    assert (Hc : forall x, In x (c :: r) -> (x =? COLONc) = false /\ is_ws x = false).
    { intros x Hx. specialize (Hall x Hx). apply memN_In in Hall. specialize (Htoken x Hall).
      apply andb_true_iff in Htoken as [A B]. split; [apply negb_true_iff in A|apply negb_true_iff in B]; assumption. }
    cbn [legal_name]. destruct (Hc c (or_introl eq_refl)) as [-> ->]. cbn [negb andb].
    apply forallb_forall. intros x Hx. destruct (Hc x (or_intror Hx)) as [A B].
    unfold is_ws, CR, LF, COLONc in *. lia.
  Qed.

  Lemma no_crlf_legal v : forallb (fun c => negb ((c =? CR) || (c =? LF))) v = true -> illegal_value v = false.
  Proof.
    induction v as [|c r IH]; [reflexivity|]. cbn [forallb illegal_value]. intros H. apply andb_true_iff in H as [Hc Hr].
    rewrite (IH Hr). apply negb_true_iff in Hc. apply orb_false_iff in Hc as [E2 E1]. rewrite E1, E2. reflexivity.
  Qed.

  Lemma value_ok_legal v : value_ok bad_value v = true -> illegal_value v = false.
  Proof.
    unfold value_ok. intros H. apply no_crlf_legal. rewrite forallb_forall in *. intros x Hx. specialize (H x Hx).
    destruct (x =? CR) eqn:E1; [apply N.eqb_eq in E1; subst x; rewrite Hval_cr in H; discriminate|].
    destruct (x =? LF) eqn:E2; [apply N.eqb_eq in E2; subst x; rewrite Hval_lf in H; discriminate|]. reflexivity.
  Qed.

  (* What the proxy is made to read is exactly one CONNECT request: the target is host:port as given, the header lines are the
     caller's proxy headers, one by one, then a Host line for the target when they have none - and nothing else. *)
  Theorem connect_head_reads_back h p hs w :
    connect_head true bad_host token bad_value h p hs = inl w ->
    read_request w = Some (CONNECT, authority h p, tunnel_fields h p hs, []).
  Proof.
    unfold connect_head. cbn [andb].
    destruct (negb (host_ok bad_host h)) eqn:Eh; [discriminate|]. apply negb_false_iff in Eh.
    destruct (negb (forallb (fun nv => name_ok token (fst nv)) hs)) eqn:En; [discriminate|]. apply negb_false_iff in En.
    destruct (negb (forallb (fun nv => value_ok bad_value (snd nv)) hs)) eqn:Ev; [discriminate|]. apply negb_false_iff in Ev.
    destruct (negb (ascii h)); [discriminate|].
    destruct (negb (forallb (fun nv => latin1 (fst nv) && latin1 (snd nv)) hs)); [discriminate|].
    intros H. inversion H; subst w; clear H.
    pose proof (host_ok_free h SPc Eh Hhost_sp) as Hsp.
    pose proof (host_ok_free h CR Eh Hhost_cr) as Hcr.
    pose proof (host_ok_free h LF Eh Hhost_lf) as Hlf.
    assert (Hasp : forallb (fun x => negb (x =? SPc)) (authority h p) = true) by (apply authority_free; [unfold SPc; lia|exact Hsp]).
    assert (Hacr : forallb (fun x => negb (x =? CR)) (authority h p) = true) by (apply authority_free; [unfold CR; lia|exact Hcr]).
    assert (Half : forallb (fun x => negb (x =? LF)) (authority h p) = true) by (apply authority_free; [unfold LF; lia|exact Hlf]).
    assert (Hf : Forall field_ok (tunnel_fields h p hs)).
    { unfold tunnel_fields. apply Forall_app. split.
      - apply Forall_forall. intros [n v] Hin. rewrite forallb_forall in En, Ev. split; cbn [fst snd].
        + apply name_ok_legal. exact (En _ Hin).
        + apply value_ok_legal. exact (Ev _ Hin).
      - destruct (has_key "host" hs); constructor; [|constructor]. split; cbn [fst snd]; [reflexivity|].
        apply no_crlf_legal. rewrite forallb_forall in *. intros x Hx. specialize (Hacr x Hx). specialize (Half x Hx).
        destruct (x =? CR); [discriminate|]. destruct (x =? LF); [discriminate|]. reflexivity. }
    pose proof (head_reads_back CONNECT (authority h p) (tunnel_fields h p hs) []) as HR.
    rewrite app_nil_r in HR. apply HR; [|reflexivity|exact Hasp|exact Hf|exact I].
    rewrite !forallb_app, Hacr. reflexivity.
  Qed.
End Tunnel.

(* ---------- HTTP/2 header checks ---------- *)
Theorem h2_accepted_value_is_clean v : h2_value_ok v = true ->
  (forall c, In c v -> c <> 0 /\ c <> LF /\ c <> CR) /\
  (forall c r, v = c :: r -> is_spht c = false) /\ (forall c r, v = r ++ [c] -> is_spht c = false).
Proof.
  unfold h2_value_ok. intros H. apply andb_true_iff in H as [H Hlast]. apply andb_true_iff in H as [Hall Hfirst].
  split; [|split].
  - intros c Hc. rewrite forallb_forall in Hall. specialize (Hall c Hc). unfold LF, CR in *. lia.
  - intros c r ->. apply negb_true_iff. exact Hfirst.
  - intros c r ->. rewrite rev_app_distr in Hlast. cbn [rev app] in Hlast. apply negb_true_iff. exact Hlast.
Qed.

Section H2.
  Variable chars : list N.
  (* every byte of the class is a lower-case token character: visible ASCII, not ':' and not an upper-case letter *)
  Hypothesis Hchars : forallb (fun c => (32 <? c) && (c <? 127) && negb (c =? COLONc) && negb ((65 <=? c) && (c <=? 90))) chars = true.

  Theorem h2_accepted_name_is_clean n : h2_name_ok true chars n = true ->
    n <> [] /\ forall c, In c (ascii_lower n) -> 32 < c < 127 /\ c <> COLONc /\ ~ (65 <= c <= 90).
  Proof.
    unfold h2_name_ok. intros H. apply andb_true_iff in H as [Hne Hall]. split.
    - destruct n; [discriminate|discriminate].
    - intros c Hc. rewrite forallb_forall in Hall, Hchars. specialize (Hall c Hc). apply memN_In in Hall.
      specialize (Hchars c Hall). unfold COLONc in *. lia.
  Qed.

End H2.
